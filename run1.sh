#!/bin/sh
# usage: ./run1.sh C13 [full]
python3 sa/check.py "$1" > /tmp/out_$1.txt 2>&1; rc=$?
if [ "$2" = "full" ]; then cut -c1-260 /tmp/out_$1.txt; else head -1 /tmp/out_$1.txt | cut -c1-200; grep -c FAILED /tmp/out_$1.txt; fi
echo rc=$rc
