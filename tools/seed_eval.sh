#!/bin/bash
# usage: tools/seed_eval.sh <ID> [worktree-with-patch-and-demo]
# 1. confirm the seeded change independently in a fresh scratch worktree:
#    patch applies, suite passes, demo fails with it and passes without it
# 2. run all checks against the patched tree (evidence redirected to /tmp)
ID=$1
SRC=${2:-${SEED_BASE:-/tmp/w3}/$ID}
CF=/tmp/cf_$ID
rm -rf $CF; git -C /repo worktree prune
git -C /repo worktree add -q --detach $CF HEAD || exit 9
cp $SRC/patch.diff $SRC/demo_$ID.py $CF/ 2>/dev/null
cd $CF
echo "== demo without the change"; PYTHONPATH=$CF/src /venv/bin/python demo_$ID.py > /tmp/cf_${ID}_demo0.txt 2>&1; echo "rc=$?"
git apply patch.diff || { echo "PATCH DOES NOT APPLY"; exit 8; }
echo "== suite with the change"; PYTHONPATH=$CF/src /venv/bin/python -m pytest -q -p no:cacheprovider --timeout=900 src/wormhole_mailbox_server/test 2>&1 | tail -1
echo "== demo with the change"; PYTHONPATH=$CF/src /venv/bin/python demo_$ID.py > /tmp/cf_${ID}_demo1.txt 2>&1; echo "rc=$?"
tail -3 /tmp/cf_${ID}_demo1.txt
echo "== checks on the patched tree"
mkdir -p /tmp/ev_$ID
cd /verif
for c in C01 C02 C03 C04 C05 C06 C07 C08 C09 C10 C11 C12 C13 C15 C16 C17 C18 C19 C20; do echo $c; done | \
  xargs -P 16 -I{} sh -c "VERIF_REPO=$CF VERIF_EVIDENCE_DIR=/tmp/ev_$ID python3 sa/check.py {} > /tmp/ev_$ID/{}.out 2>&1; echo \"{} rc=\$?\" >> /tmp/ev_$ID/rc.txt"
sort /tmp/ev_$ID/rc.txt | grep -v "rc=0" ; rm -f /tmp/ev_$ID/rc.txt
grep -h "FAILED\|ANALYSIS-ERROR" /tmp/ev_$ID/*.out | cut -c1-260
git -C /repo worktree remove --force $CF
