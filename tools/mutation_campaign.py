#!/usr/bin/env python3
"""Development tool: a systematic mutation campaign.

1. generate first-order mutants of the package sources with a handful of
   syntactic operators (comparison swaps, negated conditions, removed calls,
   small constant changes, and/or swaps, adjacent-argument swaps, SQL ASC/DESC);
2. keep those on which the repository's unedited test suite still passes
   (scratch copies under /tmp, removed afterwards);
3. analyse every survivor in memory (Repo(overrides=...)) with all 19 rule
   modules and record which properties' obligations newly fail.

Survivors that no check reports are either equivalent mutants or blind spots;
they are listed for manual triage.  Usage:
    tools/mutation_campaign.py generate   -> /tmp/mc/mutants.json
    tools/mutation_campaign.py suite      -> /tmp/mc/survivors.json
    tools/mutation_campaign.py analyse    -> /tmp/mc/analysed.json
    tools/mutation_campaign.py report
"""
import ast
import importlib
import json
import os
import shutil
import subprocess
import sys
import tempfile
from concurrent.futures import ProcessPoolExecutor, ThreadPoolExecutor

sys.path.insert(0, os.path.dirname(os.path.dirname(os.path.abspath(__file__))))
REPO = os.environ.get("VERIF_REPO", "/repo")
PKG = "src/wormhole_mailbox_server"
FILES = ["server.py", "server_websocket.py", "database.py", "server_tap.py"]
OUT = os.environ.get("MC_OUT", "/tmp/mc")
PROPS = ["C01", "C02", "C03", "C04", "C05", "C06", "C07", "C08", "C09", "C10", "C11",
         "C12", "C13", "C15", "C16", "C17", "C18", "C19", "C20"]

CMP = {ast.Gt: ">=", ast.GtE: ">", ast.Lt: "<=", ast.LtE: "<", ast.Eq: "!=", ast.NotEq: "==",
       ast.Is: "is not", ast.IsNot: "is", ast.In: "not in", ast.NotIn: "in"}
CMP_TXT = {ast.Gt: ">", ast.GtE: ">=", ast.Lt: "<", ast.LtE: "<=", ast.Eq: "==",
           ast.NotEq: "!=", ast.Is: "is", ast.IsNot: "is not", ast.In: "in",
           ast.NotIn: "not in"}


def _name_class(x):
    """identifier substitution is tried between names of one kind only"""
    import re
    if re.search(r"(_id|^side|^name|^npid|^mood|^phase|^body|^appid|^mtype)$", x):
        return "id"
    if re.search(r"(^now|^when|^server_rx|^old|time|^started|_at$|^since|^cutoff|^total|"
                 r"^waiting|^added|^updated)", x):
        return "time"
    if re.search(r"(^row|row$|^r$|^sr$|rows$|^sides$|^side_rows$)", x):
        return "row"
    if re.search(r"(^db$|_db$|^dbfile$|^fn$|path$|^f$|file$)", x):
        return "handle"
    return None


def seg(lines, node):
    """(start offset, end offset) of node in the joined text"""
    starts = [0]
    for l in lines:
        starts.append(starts[-1] + len(l))
    return (starts[node.lineno - 1] + node.col_offset,
            starts[node.end_lineno - 1] + node.end_col_offset)


def is_log(node):
    """log.msg(...) / log.err(...) statements: not interesting"""
    if isinstance(node, ast.Expr) and isinstance(node.value, ast.Call):
        f = node.value.func
        if isinstance(f, ast.Attribute) and isinstance(f.value, ast.Name) and \
                f.value.id == "log":
            return True
    return False


def generate():
    muts = []
    for fn in FILES:
        path = os.path.join(REPO, PKG, fn)
        text = open(path, encoding="utf-8").read()
        lines = text.splitlines(True)
        tree = ast.parse(text)
        parents = {}
        for n in ast.walk(tree):
            for c in ast.iter_child_nodes(n):
                parents[c] = n

        def in_log(n):
            while n is not None:
                if is_log(n):
                    return True
                n = parents.get(n)
            return False

        def add(op, node, a, b, new, note=""):
            if text[a:b] == new:
                return
            muts.append({"id": "%s:%d:%s:%d" % (fn, node.lineno, op, len(muts)), "file": fn,
                         "line": node.lineno, "op": op, "a": a, "b": b, "new": new,
                         "old": text[a:b][:120], "note": note})

        for node in ast.walk(tree):
            if in_log(node):
                continue
            if isinstance(node, ast.Compare) and len(node.ops) == 1:
                op = node.ops[0]
                l_end = seg(lines, node.left)[1]
                r_start = seg(lines, node.comparators[0])[0]
                mid = text[l_end:r_start]
                t = CMP_TXT.get(type(op))
                if t and t in mid:
                    new_mid = mid.replace(t, CMP[type(op)], 1)
                    add("cmp", node, l_end, r_start, new_mid)
                    if type(op) in (ast.Gt, ast.GtE, ast.Lt, ast.LtE):
                        flip = {ast.Gt: "<", ast.GtE: "<=", ast.Lt: ">", ast.LtE: ">="}[type(op)]
                        add("cmpflip", node, l_end, r_start, mid.replace(t, flip, 1))
            if isinstance(node, (ast.If, ast.While)):
                a, b = seg(lines, node.test)
                add("negate", node, a, b, "not (%s)" % text[a:b])
            if isinstance(node, ast.IfExp):
                a, b = seg(lines, node.test)
                add("negate", node, a, b, "not (%s)" % text[a:b])
            if isinstance(node, ast.BoolOp):
                # replace the first operator occurrence between the first two values
                a = seg(lines, node.values[0])[1]
                b = seg(lines, node.values[1])[0]
                mid = text[a:b]
                if isinstance(node.op, ast.And) and "and" in mid:
                    add("andor", node, a, b, mid.replace("and", "or", 1))
                if isinstance(node.op, ast.Or) and "or" in mid:
                    add("andor", node, a, b, mid.replace("or", "and", 1))
            if isinstance(node, ast.UnaryOp) and isinstance(node.op, ast.Not):
                a, b = seg(lines, node)
                oa, ob = seg(lines, node.operand)
                add("dropnot", node, a, b, text[oa:ob])
            if isinstance(node, ast.Expr) and isinstance(node.value, ast.Call):
                a, b = seg(lines, node)
                add("rmcall", node, a, b, "pass")
            if isinstance(node, ast.Assign) and isinstance(node.value, ast.Constant) and \
                    isinstance(node.value.value, bool):
                a, b = seg(lines, node.value)
                add("bool", node, a, b, str(not node.value.value))
            if isinstance(node, ast.Constant) and isinstance(node.value, bool) and \
                    not isinstance(parents.get(node), ast.Assign):
                a, b = seg(lines, node)
                add("bool", node, a, b, str(not node.value))
            if isinstance(node, ast.Constant) and isinstance(node.value, int) and \
                    not isinstance(node.value, bool) and 0 <= node.value <= 1000:
                a, b = seg(lines, node)
                add("int+1", node, a, b, str(node.value + 1))
                if node.value > 0:
                    add("int-1", node, a, b, str(node.value - 1))
            if isinstance(node, ast.Call) and len(node.args) >= 2 and not node.keywords:
                for i in range(len(node.args) - 1):
                    x, y = node.args[i], node.args[i + 1]
                    if isinstance(x, ast.Starred) or isinstance(y, ast.Starred):
                        continue
                    xa, xb = seg(lines, x)
                    ya, yb = seg(lines, y)
                    if text[xa:xb] != text[ya:yb]:
                        add("argswap", node, xa, yb,
                            text[ya:yb] + text[xb:ya] + text[xa:xb])
            if isinstance(node, ast.Tuple) and len(node.elts) >= 2 and \
                    isinstance(parents.get(node), ast.Call) and \
                    getattr(parents[node].func, "attr", "") == "execute":
                # SQL parameter tuples: swap adjacent parameters
                for i in range(len(node.elts) - 1):
                    x, y = node.elts[i], node.elts[i + 1]
                    xa, xb = seg(lines, x)
                    ya, yb = seg(lines, y)
                    if text[xa:xb] != text[ya:yb]:
                        add("paramswap", node, xa, yb,
                            text[ya:yb] + text[xb:ya] + text[xa:xb])
            if isinstance(node, ast.Constant) and isinstance(node.value, str):
                a, b = seg(lines, node)
                src = text[a:b]
                for (x, y) in ((" ASC", " DESC"), (" AND ", " OR "), ("DISTINCT ", "")):
                    if x in src and ("SELECT" in node.value or "WHERE" in node.value or
                                     "ORDER" in node.value or "DELETE" in node.value or
                                     "UPDATE" in node.value):
                        add("sql", node, a, b, src.replace(x, y, 1), "%s->%s" % (x, y))
            if isinstance(node, ast.Call) and getattr(node.func, "attr", "") == "execute" and \
                    len(node.args) == 2 and isinstance(node.args[0], ast.Constant) and \
                    isinstance(node.args[0].value, str) and isinstance(node.args[1], ast.Tuple):
                sql = node.args[0].value
                elts = node.args[1].elts
                a0 = seg(lines, node.args[0])[0]
                b1 = seg(lines, node.args[1])[1]

                def tup(keep):
                    parts = [text[seg(lines, e)[0]:seg(lines, e)[1]] for i, e in
                             enumerate(elts) if i in keep]
                    return "(" + ", ".join(parts) + ("," if len(parts) == 1 else "") + ")"
                import re as _re
                wpos = sql.upper().find(" WHERE ")
                if wpos >= 0:
                    head, where = sql[:wpos], sql[wpos + 7:]
                    tail = ""
                    mt = _re.search(r"\s+(ORDER BY|LIMIT|GROUP BY)\b", where, _re.I)
                    if mt:
                        where, tail = where[:mt.start()], where[mt.start():]
                    conj = _re.split(r"\s+AND\s+", where)
                    nbefore = head.count("?")
                    if len(conj) >= 2 and all(c.count("?") <= 1 for c in conj):
                        for k in range(len(conj)):
                            rest = conj[:k] + conj[k + 1:]
                            qidx = nbefore + sum(c.count("?") for c in conj[:k])
                            keep = [i for i in range(len(elts))
                                    if not (conj[k].count("?") == 1 and i == qidx)]
                            new_sql = head + " WHERE " + " AND ".join(rest) + tail
                            add("sqldrop", node, a0, b1, repr(new_sql) + ", " + tup(keep),
                                "drop conjunct %s" % conj[k].strip())
                    for k in range(len(conj)):
                        if conj[k].rstrip().endswith("=?") and "!" not in conj[k]:
                            c2 = conj[k].rstrip()[:-2] + "!=?"
                            new_sql = head + " WHERE " + " AND ".join(
                                conj[:k] + [c2] + conj[k + 1:]) + tail
                            add("sqlneq", node, a0, b1,
                                repr(new_sql) + ", " + tup(range(len(elts))),
                                "negate conjunct %s" % conj[k].strip())
                    if tail:
                        add("sqltail", node, a0, b1,
                            repr(head + " WHERE " + where) + ", " + tup(range(len(elts))),
                            "drop %s" % tail.strip())
            if isinstance(node, ast.Return) and node.value is not None and \
                    not isinstance(node.value, ast.Constant):
                a, b = seg(lines, node.value)
                add("retnone", node, a, b, "None")
            if isinstance(node, (ast.Assign, ast.AugAssign)):
                tg = node.targets[0] if isinstance(node, ast.Assign) else node.target
                if isinstance(tg, (ast.Attribute, ast.Subscript)):
                    a, b = seg(lines, node)
                    add("rmassign", node, a, b, "pass")
            body = getattr(node, "body", None)
            if isinstance(body, list) and not isinstance(node, ast.ClassDef):
                for blk in (body, getattr(node, "orelse", []) or []):
                    for i in range(len(blk) - 1):
                        x, y = blk[i], blk[i + 1]
                        simple = (ast.Expr, ast.Assign, ast.AugAssign)
                        if isinstance(x, simple) and isinstance(y, simple) and \
                                not is_log(x) and not is_log(y) and \
                                x.col_offset == y.col_offset:
                            xa, xb = seg(lines, x)
                            ya, yb = seg(lines, y)
                            add("swapstmt", x, xa, yb,
                                text[ya:yb] + text[xb:ya] + text[xa:xb])
        # ---- campaign 5: identifier / attribute / constant substitution, guard and
        # exit-statement removal (selected with MC_OPS)
        import re as _re5
        for fnode in ast.walk(tree):
            if not isinstance(fnode, (ast.FunctionDef, ast.AsyncFunctionDef)):
                continue
            own = [n for n in ast.walk(fnode)]
            # names bound in the function (parameters and assigned locals)
            bound = []
            for a_ in fnode.args.args + fnode.args.kwonlyargs:
                if a_.arg not in ("self", "cls"):
                    bound.append(a_.arg)
            for n in own:
                if isinstance(n, ast.Name) and isinstance(n.ctx, ast.Store) and \
                        n.id not in bound:
                    bound.append(n.id)
            attrs = []
            for n in own:
                if isinstance(n, ast.Attribute) and isinstance(n.value, ast.Name) and \
                        n.value.id == "self" and n.attr.startswith("_") and \
                        not isinstance(parents.get(n), ast.Call) and n.attr not in attrs:
                    attrs.append(n.attr)
            strs = []
            for n in own:
                if isinstance(n, ast.Constant) and isinstance(n.value, str) and \
                        _re5.fullmatch(r"[a-z_]{2,20}", n.value) and not in_log(n) and \
                        n.value not in strs:
                    strs.append(n.value)
            for n in own:
                if in_log(n):
                    continue
                if isinstance(n, ast.Name) and isinstance(n.ctx, ast.Load) and n.id in bound:
                    a, b = seg(lines, n)
                    for other in bound:
                        if other != n.id and _name_class(other) is not None and \
                                _name_class(other) == _name_class(n.id):
                            add("namesub", n, a, b, other, "in %s" % fnode.name)
                if isinstance(n, ast.Attribute) and isinstance(n.ctx, ast.Load) and \
                        isinstance(n.value, ast.Name) and n.value.id == "self" and \
                        n.attr in attrs and not (isinstance(parents.get(n), ast.Call) and
                                                 parents[n].func is n):
                    a, b = seg(lines, n)
                    for other in attrs:
                        if other != n.attr:
                            add("attrsub", n, a, b, "self." + other, "in %s" % fnode.name)
                if isinstance(n, ast.Constant) and isinstance(n.value, str) and \
                        n.value in strs:
                    a, b = seg(lines, n)
                    for other in strs:
                        if other != n.value:
                            add("strsub", n, a, b, repr(other), "in %s" % fnode.name)
                if isinstance(n, ast.If) and not n.orelse:
                    # the guard removed: body runs unconditionally
                    a, b = seg(lines, n.test)
                    add("guardtrue", n, a, b, "True")
                    add("guardfalse", n, a, b, "False")
                if isinstance(n, (ast.Return, ast.Raise, ast.Continue, ast.Break)) and \
                        isinstance(parents.get(n), (ast.If, ast.For, ast.While, ast.Try,
                                                    ast.ExceptHandler, ast.With)):
                    a, b = seg(lines, n)
                    add("rmexit", n, a, b, "pass")
                if isinstance(n, ast.Subscript) and isinstance(n.slice, ast.Constant) and \
                        isinstance(n.slice.value, int) and not isinstance(n.slice.value, bool):
                    a, b = seg(lines, n.slice)
                    for v in (0, 1, -1):
                        if v != n.slice.value:
                            add("idx", n, a, b, str(v))
                if isinstance(n, ast.Call) and isinstance(n.func, ast.Name) and \
                        n.func.id in ("min", "max"):
                    a, b = seg(lines, n.func)
                    add("minmax", n, a, b, "max" if n.func.id == "min" else "min")
                if isinstance(n, ast.BinOp) and isinstance(n.op, (ast.Add, ast.Sub)):
                    la = seg(lines, n.left)[1]
                    rb = seg(lines, n.right)[0]
                    mid = text[la:rb]
                    if isinstance(n.op, ast.Sub) and "-" in mid:
                        add("arith", n, la, rb, mid.replace("-", "+", 1))
                        xa, xb = seg(lines, n.left)
                        ya, yb = seg(lines, n.right)
                        add("arith", n, xa, yb, text[ya:yb] + text[xb:ya] + text[xa:xb],
                            "operands swapped")
                    if isinstance(n.op, ast.Add) and "+" in mid:
                        add("arith", n, la, rb, mid.replace("+", "-", 1))
        # SQL: one column name replaced by another column named in the same statement
        for n in ast.walk(tree):
            if isinstance(n, ast.Constant) and isinstance(n.value, str) and \
                    _re5.search(r"\b(SELECT|DELETE|UPDATE|INSERT)\b", n.value) and not in_log(n):
                a, b = seg(lines, n)
                src = text[a:b]
                cols = []
                for mt in _re5.finditer(r"`?([a-z_]+)`?\s*(=|<|>|!=)\s*\?", n.value):
                    if mt.group(1) not in cols:
                        cols.append(mt.group(1))
                for mt in _re5.finditer(r"`?\b([a-z_]+)`?\s*(=|<|>|!=)\s*\?", src):
                    for other in cols:
                        if other != mt.group(1):
                            ns = src[:mt.start(1)] + other + src[mt.end(1):]
                            add("sqlcol", n, a, b, ns, "%s -> %s" % (mt.group(1), other))
    # schema / upgrade scripts: drop one line (and variants that keep the
    # statement well-formed by also dropping a trailing comma of the line before)
    sd = os.path.join(REPO, PKG, "db-schemas")
    for fn in sorted(os.listdir(sd)):
        if not fn.endswith(".sql"):
            continue
        text = open(os.path.join(sd, fn), encoding="utf-8").read()
        lines = text.splitlines(True)
        off = 0
        for i, l in enumerate(lines):
            st = l.strip()
            if st and not st.startswith("--") and st not in ("(", ");", ")"):
                muts.append({"id": "db-schemas/%s:%d:sqlline:%d" % (fn, i + 1, len(muts)),
                             "file": "db-schemas/" + fn, "line": i + 1, "op": "sqlline",
                             "a": off, "b": off + len(l), "new": "", "old": st[:120],
                             "note": "drop line"})
                if i > 0 and lines[i - 1].rstrip().endswith(",") and not st.endswith(","):
                    pa = off - len(lines[i - 1])
                    prev = lines[i - 1].rstrip()[:-1] + "\n"
                    muts.append({"id": "db-schemas/%s:%d:sqlline2:%d" % (fn, i + 1, len(muts)),
                                 "file": "db-schemas/" + fn, "line": i + 1, "op": "sqlline",
                                 "a": pa, "b": off + len(l), "new": prev, "old": st[:120],
                                 "note": "drop line and the comma before"})
            off += len(l)
    only = os.environ.get("MC_OPS")
    if only:
        muts = [m for m in muts if m["op"] in only.split(",")]
    os.makedirs(OUT, exist_ok=True)
    json.dump(muts, open(os.path.join(OUT, "mutants.json"), "w"))
    print("generated", len(muts), "mutants")
    from collections import Counter
    print(Counter(m["op"] for m in muts))


def mutated_text(m):
    path = os.path.join(REPO, PKG, m["file"])
    text = open(path, encoding="utf-8").read()
    return text[:m["a"]] + m["new"] + text[m["b"]:]


def suite_one(m):
    try:
        new = mutated_text(m)
        if m["file"].endswith(".py"):
            compile(new, m["file"], "exec")
    except SyntaxError:
        return m["id"], "syntax"
    d = tempfile.mkdtemp(prefix="mc_")
    try:
        shutil.copytree(os.path.join(REPO, "src"), os.path.join(d, "src"),
                        ignore=shutil.ignore_patterns("__pycache__", "*.egg-info"))
        with open(os.path.join(d, PKG, m["file"]), "w", encoding="utf-8") as f:
            f.write(new)
        env = dict(os.environ, PYTHONPATH=os.path.join(d, "src"))
        try:
            r = subprocess.run(["/venv/bin/python", "-m", "pytest", "-q", "-x", "-p",
                                "no:cacheprovider", "--timeout=120",
                                "src/wormhole_mailbox_server/test"],
                               cwd=d, env=env, capture_output=True, text=True, timeout=400)
        except subprocess.TimeoutExpired:
            return m["id"], "timeout"
        return m["id"], ("pass" if r.returncode == 0 else "fail")
    finally:
        shutil.rmtree(d, ignore_errors=True)


def suite():
    muts = json.load(open(os.path.join(OUT, "mutants.json")))
    with ThreadPoolExecutor(int(os.environ.get("MC_JOBS", "14"))) as ex:
        res = dict(ex.map(suite_one, muts))
    surv = [m for m in muts if res[m["id"]] == "pass"]
    json.dump({"results": res, "survivors": surv},
              open(os.path.join(OUT, "survivors.json"), "w"))
    from collections import Counter
    print(Counter(res.values()))
    print("survivors", len(surv))


_base = {}


def analyse_one(m):
    from sa.repo import Repo, AnalysisError
    from sa.engine import Model
    from sa.report import Ctx
    ov = {os.path.join(PKG, m["file"]): mutated_text(m)}
    detected = []
    errors = []
    try:
        model = Model(Repo(overrides=ov))
    except AnalysisError as e:
        return m["id"], {"detected": [], "errors": ["model: " + str(e)[:150]], "all_error": True}
    except Exception as e:
        return m["id"], {"detected": [], "errors": ["crash: " + repr(e)[:150]], "all_error": True}
    for prop in PROPS:
        mod = importlib.import_module("sa.rules.%s" % prop.lower())
        try:
            ctx = Ctx(model, prop, "quick")
            mod.run(ctx)
            fail = set((o.rule, o.construct) for o in ctx.obligations if not o.ok)
            new = fail - set(map(tuple, _base.get(prop, [])))
            if new:
                detected.append([prop, sorted(set(r for r, c in new))])
        except AnalysisError as e:
            errors.append("%s: %s" % (prop, str(e)[:120]))
        except Exception as e:
            errors.append("%s: crash %s" % (prop, repr(e)[:120]))
    return m["id"], {"detected": detected, "errors": errors, "all_error": False}


def _init_base(base):
    global _base
    _base = base


def analyse():
    from sa.engine import Model
    from sa.report import Ctx
    surv = json.load(open(os.path.join(OUT, "survivors.json")))["survivors"]
    model = Model()
    base = {}
    for prop in PROPS:
        mod = importlib.import_module("sa.rules.%s" % prop.lower())
        ctx = Ctx(model, prop, "quick")
        mod.run(ctx)
        base[prop] = sorted((o.rule, o.construct) for o in ctx.obligations if not o.ok)
    out = {}
    with ProcessPoolExecutor(15, initializer=_init_base, initargs=(base,)) as ex:
        for mid, r in ex.map(analyse_one, surv, chunksize=2):
            out[mid] = r
    json.dump(out, open(os.path.join(OUT, "analysed.json"), "w"))
    print("analysed", len(out))


def report():
    surv = json.load(open(os.path.join(OUT, "survivors.json")))["survivors"]
    an = json.load(open(os.path.join(OUT, "analysed.json")))
    und = []
    err = []
    det = 0
    for m in surv:
        r = an.get(m["id"])
        if r is None:
            continue
        if r["detected"]:
            det += 1
        elif r["errors"]:
            err.append((m, r))
        else:
            und.append(m)
    print("survivors %d  reported by some check %d  analysis-error only %d  silent %d" % (
        len(surv), det, len(err), len(und)))
    print("\n== silent survivors (equivalent or blind spot) ==")
    for m in und:
        print("%-40s %-9s %r -> %r %s" % (m["id"], m["op"], m["old"][:50], m["new"][:50],
                                            m["note"]))
    print("\n== analysis errors ==")
    for m, r in err:
        print("%-40s %-9s %r -> %r | %s" % (m["id"], m["op"], m["old"][:40], m["new"][:40],
                                             r["errors"][0][:100]))


if __name__ == "__main__":
    {"generate": generate, "suite": suite, "analyse": analyse, "report": report}[sys.argv[1]]()
