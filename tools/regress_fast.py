#!/usr/bin/env python3
"""Development regression, in memory (no worktrees): every seeded change and
every behaviour-preserving variant under benign/ is applied to the texts of
/repo's working tree through sa.patchset, ONE model is built per variant and
shared by all rule modules.

  seeds : the check of the target property (or, for a recorded miss, the first
          check listed in detected_by) must report a new violation
  benign: all 19 rule modules must report nothing new and must not stop

Usage: tools/regress_fast.py [seeds|benign|all] [name-filter]
(run it from a snapshot -- `vp run -- python3 tools/regress_fast.py` -- so that
edits in /verif do not disturb it; tools/regress.py is the slow variant that
uses real worktrees and the CLI)."""
import glob
import importlib
import json
import os
import sys
from concurrent.futures import ProcessPoolExecutor

V = os.path.dirname(os.path.dirname(os.path.abspath(__file__)))
sys.path.insert(0, V)
PROPS = ["C01", "C02", "C03", "C04", "C05", "C06", "C07", "C08", "C09", "C10", "C11",
         "C12", "C13", "C15", "C16", "C17", "C18", "C19", "C20"]
REPO = os.environ.get("VERIF_REPO", "/repo")


def _model(diff_path):
    from sa import patchset
    from sa.repo import Repo
    from sa.engine import Model
    ov = patchset.apply(REPO, open(diff_path, encoding="utf-8").read())
    if ov is None:
        return None
    return Model(Repo(overrides=ov))


def _run(prop, model):
    """-> ('ok' | 'violation' | 'error', detail)"""
    from sa.check import run_property
    from sa.report import new_failures
    from sa.repo import AnalysisError
    try:
        mod, ctx = run_property(prop, "quick", model=model, quiet=True)
    except AnalysisError as e:
        from sa.repo import PlumbingViolation
        if isinstance(e, PlumbingViolation):
            return "violation", str(e)[:140]      # the CLI reports it as a VIOLATION
        return "error", str(e)[:140]
    except Exception as e:      # a crash of the analyser is an error too
        return "error", "crash " + repr(e)[:140]
    nf = new_failures(ctx)
    if nf:
        return "violation", "%s %s" % (nf[0].rule, nf[0].construct[:80])
    return "ok", ""


def seed_job(sd):
    tag = os.path.basename(sd)
    meta = json.load(open(os.path.join(sd, "meta.json")))
    try:
        model = _model(os.path.join(sd, "patch.diff"))
    except Exception as e:
        model = e
    if model is None:
        return tag, "PATCH-FAILS", ""
    prop = meta["breaks_property"]
    if meta.get("detected_by_target") is False:
        others = [x.split(":")[0] for x in meta["detected_by"]]
        if not others:
            return tag, "ok", "recorded miss (no check reports it)"
        prop = others[0]
    if isinstance(model, Exception):
        from sa.repo import PlumbingViolation
        if isinstance(model, PlumbingViolation):
            st, detail = "violation", repr(model)[:140]   # reported as VIOLATION by the CLI
        else:
            st, detail = "error", repr(model)[:140]
    else:
        import contextlib
        import io
        with contextlib.redirect_stdout(io.StringIO()):
            st, detail = _run(prop, model)
    expect_err = any("ANALYSIS-ERROR" in x for x in meta["detected_by"])
    if st == "violation" or (expect_err and st == "error"):
        return tag, "ok", prop
    return tag, "MISSED", "%s %s %s" % (prop, st, detail)


def benign_job(diff):
    tag = os.path.basename(diff)[:-5]
    try:
        model = _model(diff)
    except Exception as e:
        return tag, "ALARM", "model: " + repr(e)[:140]
    if model is None:
        return tag, "PATCH-FAILS", ""
    bad = []
    import contextlib
    import io
    for prop in PROPS:
        with contextlib.redirect_stdout(io.StringIO()):
            st, detail = _run(prop, model)
        if st != "ok":
            bad.append("%s %s (%s)" % (prop, st, detail))
    return tag, ("ok" if not bad else "ALARM"), "; ".join(bad)[:400]


def main():
    what = sys.argv[1] if len(sys.argv) > 1 else "all"
    flt = sys.argv[2] if len(sys.argv) > 2 else ""
    bad = 0
    jobs = int(os.environ.get("JOBS", "14"))
    if what in ("seeds", "all"):
        seeds = [s for s in sorted(glob.glob(os.path.join(V, "seeded", "*"))) if flt in s]
        with ProcessPoolExecutor(jobs) as ex:
            for tag, st, detail in ex.map(seed_job, seeds, chunksize=2):
                if st != "ok":
                    bad += 1
                    print("!! seed", tag, st, detail, flush=True)
        print("seeds:", len(seeds), flush=True)
    if what in ("benign", "all"):
        diffs = [d for d in sorted(glob.glob(os.path.join(V, "benign", "*.diff"))) if flt in d]
        with ProcessPoolExecutor(jobs) as ex:
            for tag, st, detail in ex.map(benign_job, diffs, chunksize=1):
                if st != "ok":
                    bad += 1
                    print("!! benign", tag, st, detail, flush=True)
        print("benign variants:", len(diffs), flush=True)
    if what in ("unsupported",):
        diffs = sorted(glob.glob(os.path.join(V, "benign", "unsupported", "*.diff")))
        with ProcessPoolExecutor(jobs) as ex:
            for tag, st, detail in ex.map(benign_job, diffs, chunksize=1):
                viol = "violation" in detail
                print("%s unsupported %s %s" % ("!!" if viol else "  ", tag,
                                                "FALSE VIOLATION " + detail if viol
                                                else "no verdict / silent"), flush=True)
                bad += 1 if viol else 0
    print("problems:", bad, flush=True)
    return 1 if bad else 0


if __name__ == "__main__":
    sys.exit(main())
