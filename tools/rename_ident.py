#!/usr/bin/env python3
"""rename identifiers (not attributes, not keyword-argument names) in a file:
   tools/rename_ident.py FILE old:new [old:new ...]"""
import io, sys, tokenize
path = sys.argv[1]
ren = dict(a.split(":") for a in sys.argv[2:])
src = open(path).read()
toks = list(tokenize.generate_tokens(io.StringIO(src).readline))
out = []
depth = 0
for i, t in enumerate(toks):
    if t.type == tokenize.OP and t.string in "([{":
        depth += 1
    if t.type == tokenize.OP and t.string in ")]}":
        depth -= 1
    s = t.string
    if t.type == tokenize.NAME and s in ren:
        prev = toks[i - 1] if i else None
        nxt = toks[i + 1] if i + 1 < len(toks) else None
        is_attr = prev is not None and prev.type == tokenize.OP and prev.string == "."
        is_kw = depth > 0 and nxt is not None and nxt.type == tokenize.OP and nxt.string == "=" \
            and not (prev is not None and prev.string in ("def",))
        # a default parameter in a def header is also "name=" at depth>0: rename it
        in_def = False
        j = i
        while j >= 0 and toks[j].type != tokenize.NEWLINE and toks[j].type != tokenize.NL:
            if toks[j].type == tokenize.NAME and toks[j].string == "def":
                in_def = True
            j -= 1
        if not is_attr and (not is_kw or in_def):
            s = ren[s]
    out.append((t.type, s, t.start, t.end, t.line))
# rebuild preserving layout: replace by position
lines = src.splitlines(True)
edits = {}
for (tt, s, st, en, line), t in zip(out, toks):
    if s != t.string:
        edits.setdefault(st[0], []).append((st[1], en[1], s))
for ln, es in edits.items():
    L = lines[ln - 1]
    for a, b, s in sorted(es, reverse=True):
        L = L[:a] + s + L[b:]
    lines[ln - 1] = L
open(path, "w").write("".join(lines))
