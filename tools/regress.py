#!/usr/bin/env python3
"""Development regression: (1) every check exits 0 on /repo; (2) every seeded
change is still reported by the check of the property it breaks; (3) every
behaviour-preserving refactoring under benign/ keeps every check at exit 0.
Scratch worktrees live under /tmp and are removed."""
import glob, json, os, subprocess, sys
from concurrent.futures import ThreadPoolExecutor

V = os.path.dirname(os.path.dirname(os.path.abspath(__file__)))
PROPS = ["C01", "C02", "C03", "C04", "C05", "C06", "C07", "C08", "C09", "C10", "C11",
         "C12", "C13", "C15", "C16", "C17", "C18", "C19", "C20"]


def check(prop, repo, tag):
    env = dict(os.environ, VERIF_REPO=repo, VERIF_EVIDENCE_DIR="/tmp/rg_ev_%s" % tag)
    r = subprocess.run(["python3", "sa/check.py", prop], cwd=V, env=env,
                       capture_output=True, text=True)
    return r.returncode, r.stdout


def worktree(tag, patch):
    d = "/tmp/rg_%s" % tag
    subprocess.run(["git", "-C", "/repo", "worktree", "remove", "--force", d],
                   capture_output=True)
    subprocess.run(["git", "-C", "/repo", "worktree", "add", "-q", "--detach", d, "HEAD"],
                   check=True, capture_output=True)
    r = subprocess.run(["git", "apply", patch], cwd=d, capture_output=True, text=True)
    return d, r.returncode == 0


def drop(d):
    subprocess.run(["git", "-C", "/repo", "worktree", "remove", "--force", d],
                   capture_output=True)


def seed_job(sd):
    meta = json.load(open(os.path.join(sd, "meta.json")))
    tag = os.path.basename(sd)
    d, ok = worktree(tag, os.path.join(sd, "patch.diff"))
    try:
        if not ok:
            return tag, "PATCH-FAILS", ""
        prop = meta["breaks_property"]
        if meta.get("detected_by_target") is False:
            # a recorded miss of the target property's check (DESIGN.md 9.7):
            # the change must still be reported by the checks that did catch it
            others = [x.split(":")[0] for x in meta["detected_by"]]
            if not others:
                return tag, "ok", "recorded miss (no check reports it)"
            rc, out = check(others[0], d, tag)
            if rc == 1:
                return tag, "ok", "recorded miss of %s; %s rc=1" % (prop, others[0])
            return tag, "MISSED", "%s rc=%d" % (others[0], rc)
        rc, out = check(prop, d, tag)
        expect_err = any("ANALYSIS-ERROR" in x for x in meta["detected_by"])
        if rc == 1 or (expect_err and rc == 2):
            return tag, "ok", "rc=%d" % rc
        return tag, "MISSED", "rc=%d %s" % (rc, out.strip().splitlines()[-1][:120] if out.strip() else "")
    finally:
        drop(d)


def benign_job(diff):
    tag = os.path.basename(diff)[:-5]
    d, ok = worktree(tag, diff)
    try:
        if not ok:
            return tag, "PATCH-FAILS", ""
        bad = []
        for prop in PROPS:
            rc, out = check(prop, d, tag)
            if rc != 0:
                bad.append("%s rc=%d" % (prop, rc))
        return tag, ("ok" if not bad else "ALARM"), " ".join(bad)
    finally:
        drop(d)


def main():
    bad = 0
    with ThreadPoolExecutor(8) as ex:
        clean = list(ex.map(lambda p: (p,) + check(p, "/repo", "clean"), PROPS))
    for p, rc, out in clean:
        if rc != 0:
            bad += 1
            print("!! clean tree", p, "rc=%d" % rc)
    print("clean tree: %d checks, %d nonzero" % (len(clean), sum(1 for c in clean if c[1])))
    seeds = sorted(glob.glob(os.path.join(V, "seeded", "*")))
    with ThreadPoolExecutor(8) as ex:
        for tag, st, detail in ex.map(seed_job, seeds):
            if st != "ok":
                bad += 1
                print("!! seed", tag, st, detail)
    print("seeds:", len(seeds))
    diffs = sorted(glob.glob(os.path.join(V, "benign", "*.diff")))   # benign/unsupported/ is not included
    with ThreadPoolExecutor(4) as ex:
        for tag, st, detail in ex.map(benign_job, diffs):
            if st != "ok":
                bad += 1
                print("!! benign", tag, st, detail)
    print("benign refactorings:", len(diffs))
    print("problems:", bad)
    return 1 if bad else 0


if __name__ == "__main__":
    sys.exit(main())
