#!/bin/bash
# usage: tools/try_patch.sh <patch.diff> Cxx [Cyy ...]
# applies the patch to a scratch worktree of /repo and prints what the named
# checks report there (evidence redirected to /tmp); removes the worktree.
PATCH=$(readlink -f $1); shift
T=/tmp/tp_$$
git -C /repo worktree add -q --detach $T HEAD || exit 9
( cd $T && git apply $PATCH ) || { echo "PATCH DOES NOT APPLY"; git -C /repo worktree remove --force $T; exit 8; }
cd $(dirname $(readlink -f $0))/..
mkdir -p /tmp/tp_ev_$$
for c in "$@"; do
  echo "== $c"
  VERIF_DEBUG_LOOP=$VERIF_DEBUG_LOOP VERIF_REPO=$T VERIF_EVIDENCE_DIR=/tmp/tp_ev_$$ python3 sa/check.py $c 2>&1 | grep -v "^KNOWN-FINDING" | cut -c1-600
done
git -C /repo worktree remove --force $T; rm -rf /tmp/tp_ev_$$
