#!/bin/bash
# usage: tools/refactor_eval.sh <diff file> <tag>
# a behaviour-preserving refactoring: every check must stay at exit 0
D=$1; TAG=$2
CF=/tmp/rf_$TAG
rm -rf $CF; git -C /repo worktree prune
git -C /repo worktree add -q --detach $CF HEAD || exit 9
cd $CF && git apply $D || { echo "$TAG: PATCH DOES NOT APPLY"; git -C /repo worktree remove --force $CF; exit 8; }
T=$(PYTHONPATH=$CF/src /venv/bin/python -m pytest -q -p no:cacheprovider --timeout=900 src/wormhole_mailbox_server/test 2>&1 | tail -1)
mkdir -p /tmp/ev_$TAG; rm -f /tmp/ev_$TAG/rc.txt
cd /verif
for c in C01 C02 C03 C04 C05 C06 C07 C08 C09 C10 C11 C12 C13 C15 C16 C17 C18 C19 C20; do echo $c; done | \
  xargs -P 6 -I{} sh -c "VERIF_REPO=$CF VERIF_EVIDENCE_DIR=/tmp/ev_$TAG python3 sa/check.py {} > /tmp/ev_$TAG/{}.out 2>&1; echo \"{} rc=\$?\" >> /tmp/ev_$TAG/rc.txt"
BAD=$(sort /tmp/ev_$TAG/rc.txt | grep -v "rc=0" | tr '\n' ' ')
echo "$TAG: suite[$T] nonzero[$BAD]"
grep -h "FAILED\|ANALYSIS-ERROR" /tmp/ev_$TAG/*.out | sort | uniq -c | cut -c1-330
git -C /repo worktree remove --force $CF
