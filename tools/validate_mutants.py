#!/usr/bin/env python3
"""Development-time validation: every corpus mutant is applied to a scratch
copy of /repo's src (outside /repo and /verif, removed afterwards) and the
repository's test suite is run on it.  Results -> sa/selftest_validated.json."""
import sys, os, json, shutil, subprocess, tempfile
sys.path.insert(0, os.path.dirname(os.path.dirname(os.path.abspath(__file__))))
from concurrent.futures import ThreadPoolExecutor
from sa import selftest_corpus as C

REPO = "/repo"


def run(m):
    ov = C.apply_mutant(REPO, m)
    if ov is None:
        return m["id"], "skipped"
    d = tempfile.mkdtemp(prefix="vm_")
    try:
        shutil.copytree(os.path.join(REPO, "src"), os.path.join(d, "src"),
                        ignore=shutil.ignore_patterns("__pycache__", "*.egg-info"))
        for path, text in ov.items():
            with open(os.path.join(d, path), "w") as f:
                f.write(text)
        env = dict(os.environ, PYTHONPATH=os.path.join(d, "src"))
        r = subprocess.run(["/venv/bin/python", "-m", "pytest", "-q", "-p", "no:cacheprovider",
                            "-x", "--timeout=600", "src/wormhole_mailbox_server/test"],
                           cwd=d, env=env, capture_output=True, text=True)
        tail = (r.stdout.strip().splitlines() or [""])[-1]
        return m["id"], ("pass" if r.returncode == 0 else "FAIL: " + tail[:100])
    finally:
        shutil.rmtree(d, ignore_errors=True)


def main():
    ms = [m for m in C.MUTANTS if m["old"] != "@@never@@"]
    with ThreadPoolExecutor(16) as ex:
        res = dict(ex.map(run, ms))
    out = {}
    for m in ms:
        out[m["id"]] = {"kind": m["kind"], "suite": res[m["id"]]}
        print("%-45s %-7s %s" % (m["id"], m["kind"], res[m["id"]]))
    with open(os.path.join(os.path.dirname(os.path.dirname(os.path.abspath(__file__))),
                           "sa", "selftest_validated.json"), "w") as f:
        json.dump(out, f, indent=1, sort_keys=True)
    n = sum(1 for v in out.values() if v["suite"] == "pass")
    print("suite passes on %d of %d mutants" % (n, len(out)))


if __name__ == "__main__":
    main()
