#!/usr/bin/env python3
"""Development tool: run the whole self-test corpus (every mutant x every
property it names) in parallel and print a table."""
import sys, os, importlib
sys.path.insert(0, os.path.dirname(os.path.dirname(os.path.abspath(__file__))))
from concurrent.futures import ProcessPoolExecutor
from sa import selftest_corpus as C
from sa.engine import Model
from sa.report import Ctx


def base(prop):
    mod = importlib.import_module("sa.rules.%s" % prop.lower())
    ctx = Ctx(Model(), prop, "thorough")
    mod.run(ctx)
    return prop, C.failing(ctx)


def job(args):
    prop, mid, base_fail = args
    m = [x for x in C.MUTANTS if x["id"] == mid][0]
    try:
        return prop, mid, C.run_one(prop, m, base_fail)
    except Exception as e:
        return prop, mid, ("error", repr(e)[:200])


def main():
    only = sys.argv[1:]
    props = sorted(set(p for m in C.MUTANTS for p in m["props"]))
    with ProcessPoolExecutor(16) as ex:
        bases = dict(ex.map(base, props))
        jobs = [(p, m["id"], bases[p]) for m in C.MUTANTS for p in m["props"]
                if not only or m["id"] in only or p in only]
        res = list(ex.map(job, jobs))
    bad = 0
    for prop, mid, (st, detail) in sorted(res, key=lambda r: (r[1], r[0])):
        flag = "  " if st in ("ok", "skipped") else "!!"
        if st not in ("ok",):
            bad += st not in ("skipped",)
        print("%s %-40s %s %-11s %s" % (flag, mid, prop, st, detail[:150]))
    print("total", len(res), "problems", bad)


if __name__ == "__main__":
    main()
