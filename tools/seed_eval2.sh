#!/bin/bash
# usage: tools/seed_eval2.sh <tag> <patch.diff> <demo.py>
# Confirms a seeded change independently in a fresh scratch worktree (patch
# applies, suite passes, demo exits 0 without and 1 with it), then runs all
# checks against the patched tree (evidence redirected to /tmp).
TAG=$1; PATCH=$(readlink -f $2); DEMO=$(readlink -f $3)
CF=/tmp/cf_$TAG
git -C /repo worktree remove --force $CF 2>/dev/null; rm -rf $CF; git -C /repo worktree prune
git -C /repo worktree add -q --detach $CF HEAD || exit 9
cp $PATCH $CF/patch.diff; cp $DEMO $CF/demo.py
cd $CF
# demos written by sub-agents may name their own worktree; point them here
sed -i "s#/tmp/w[0-9a-z]*/[A-Za-z0-9_]*#$CF#g" demo.py
PYTHONPATH=$CF/src /venv/bin/python demo.py > /tmp/cf_${TAG}_demo0.txt 2>&1; D0=$?
git apply patch.diff || { echo "$TAG PATCH DOES NOT APPLY"; git -C /repo worktree remove --force $CF; exit 8; }
SUITE=$(PYTHONPATH=$CF/src /venv/bin/python -m pytest -q -p no:cacheprovider --timeout=900 src/wormhole_mailbox_server/test 2>&1 | tail -1)
PYTHONPATH=$CF/src /venv/bin/python demo.py > /tmp/cf_${TAG}_demo1.txt 2>&1; D1=$?
mkdir -p /tmp/ev_$TAG; rm -f /tmp/ev_$TAG/rc.txt
cd $(dirname $(readlink -f $0))/..
for c in C01 C02 C03 C04 C05 C06 C07 C08 C09 C10 C11 C12 C13 C15 C16 C17 C18 C19 C20; do echo $c; done | \
  xargs -P 6 -I{} sh -c "VERIF_REPO=$CF VERIF_EVIDENCE_DIR=/tmp/ev_$TAG python3 sa/check.py {} > /tmp/ev_$TAG/{}.out 2>&1; echo \"{}=\$?\" >> /tmp/ev_$TAG/rc.txt"
NZ=$(sort /tmp/ev_$TAG/rc.txt | grep -v "=0" | tr '\n' ' ')
echo "$TAG: demo0=$D0 demo1=$D1 suite[$SUITE] nonzero[$NZ]"
echo "   $(tail -1 /tmp/cf_${TAG}_demo1.txt | cut -c1-200)"
git -C /repo worktree remove --force $CF
