"""Self-test corpus: text-level mutants of the *current* tree (applied in
memory through Repo(overrides=...); nothing is written to disk) on which the
named rules must fire, and benign variants on which the property's check must
stay exactly as on the unmutated tree.

A mutant whose anchor text is no longer present in the tree is skipped and
counted (the tree changed); it is never an error.  That every "fire" mutant
compiles and passes the repository's 121 tests was established at development
time with tools/validate_mutants.py (results in sa/selftest_validated.json).
"""
import os

from .repo import Repo, AnalysisError, PKG
from .engine import Model
from .report import Ctx

S = PKG + "/server.py"
W = PKG + "/server_websocket.py"
T = PKG + "/server_tap.py"
D = PKG + "/database.py"
UP = PKG + "/db-schemas/upgrade-usage-to-v2.sql"

MUTANTS = []


def M(mid, props, path, old, new, fire, note=""):
    MUTANTS.append({"id": mid, "props": props, "path": path, "old": old, "new": new,
                    "fire": fire, "note": note, "kind": "fire"})


def B(mid, props, path, old, new, note=""):
    MUTANTS.append({"id": mid, "props": props, "path": path, "old": old, "new": new,
                    "fire": [], "note": note, "kind": "silent"})


# ---------------------------------------------------------------- C01
M("c01-replay-drops-mailbox-filter", ["C01", "C06"], S,
  '''                              " WHERE `app_id`=? AND `mailbox_id`=?"
                              " ORDER BY `server_rx` ASC",
                              (self._app_id, self._mailbox_id)).fetchall():''',
  '''                              " WHERE `app_id`=?"
                              " ORDER BY `server_rx` ASC",
                              (self._app_id,)).fetchall():''',
  ["R01.key"])
M("c01-close-keeps-messages", ["C01", "C08"], S,
  '''        # remove mailbox content
        db.execute("DELETE FROM `messages` WHERE `mailbox_id`=?",
                   (self._mailbox_id,))
        db.execute("DELETE FROM `mailbox_sides` WHERE `mailbox_id`=?",
                   (self._mailbox_id,))
        db.execute("DELETE FROM `mailboxes` WHERE `id`=?", (self._mailbox_id,))''',
  '''        # remove mailbox content
        db.execute("DELETE FROM `mailbox_sides` WHERE `mailbox_id`=?",
                   (self._mailbox_id,))
        db.execute("DELETE FROM `mailboxes` WHERE `id`=?", (self._mailbox_id,))''',
  ["R01.codel", "R08.codel"])
M("c01-replay-skips-own", ["C01"], W,
  '''        for old_sm in self._mailbox.add_listener(self, _send, _stop):
            _send(old_sm)''',
  '''        for old_sm in self._mailbox.add_listener(self, _send, _stop):
            if old_sm.side != self._side:
                _send(old_sm)''',
  ["R01.key"])
M("c01-insert-swaps-side-phase", ["C01"], S,
  '''                         (self._app_id, self._mailbox_id, sm.side,
                          sm.phase, sm.body, sm.server_rx, sm.msg_id))''',
  '''                         (self._app_id, self._mailbox_id, sm.phase,
                          sm.side, sm.body, sm.server_rx, sm.msg_id))''',
  ["R01.fields"])
M("c01-close-deletes-app-messages", ["C01", "C08"], S,
  '''        db.execute("DELETE FROM `messages` WHERE `mailbox_id`=?",
                   (self._mailbox_id,))
        db.execute("DELETE FROM `mailbox_sides` WHERE `mailbox_id`=?",
                   (self._mailbox_id,))
        db.execute("DELETE FROM `mailboxes` WHERE `id`=?", (self._mailbox_id,))''',
  '''        db.execute("DELETE FROM `messages` WHERE `app_id`=?",
                   (self._app_id,))
        db.execute("DELETE FROM `mailbox_sides` WHERE `mailbox_id`=?",
                   (self._mailbox_id,))
        db.execute("DELETE FROM `mailboxes` WHERE `id`=?", (self._mailbox_id,))''',
  ["R01.codel", "R08.codel"])
B("c01-replay-unordered", ["C01"], S,
  '''                              " WHERE `app_id`=? AND `mailbox_id`=?"
                              " ORDER BY `server_rx` ASC",''',
  '''                              " WHERE `app_id`=? AND `mailbox_id`=?",''',
  "the protocol leaves replay order open")
B("c01-stop-noop-restored-is-not-benign", [], S, "@@never@@", "", "placeholder")

# ---------------------------------------------------------------- C02
M("c02-side-from-command", ["C02"], W,
  '''        sm = SidedMessage(side=self._side, phase=msg["phase"],''',
  '''        sm = SidedMessage(side=msg.get("side", self._side), phase=msg["phase"],''',
  ["R02.side"])
M("c02-broadcast-before-persist", ["C02", "C09"], S,
  '''        self._add_message(sm)
        self.broadcast_message(sm)''',
  '''        self.broadcast_message(sm)
        self._add_message(sm)''',
  ["R02.order", "R09.emit", "R09.last"])
M("c02-broadcast-first-listener-only", ["C02"], S,
  '''        for (send_f, stop_f) in self._listeners.values():
            send_f(sm)''',
  '''        for (send_f, stop_f) in list(self._listeners.values())[:1]:
            send_f(sm)''',
  ["R02.fanout"])
M("c02-websocket-pops-registry", ["C02", "C11"], W,
  '''        self._did_close = True
        self._mailbox.close(self._side, msg.get("mood"), server_rx)''',
  '''        self._did_close = True
        self._app._mailboxes.pop(mailbox_id, None)
        self._mailbox.close(self._side, msg.get("mood"), server_rx)''',
  ["R02.unique"])
M("c02-onclose-keeps-listener", ["C02"], W,
  '''        if self._mailbox and self._listening:
            self._mailbox.remove_listener(self)
        if self._app:''',
  '''        if self._app:''',
  ["R02.key"])
M("c02-stop-callback-noop", ["C01", "C02", "C13"], W,
  '''            self._mailbox = None
            self._listening = False
        self._listening = True''',
  '''            pass
        self._listening = True''',
  ["R01.live", "R02.unique", "R13.reach"], "re-introduces D4")
M("c02-app-not-counted", ["C02", "C11", "C12", "C15"], W,
  '''        self._app.connection_bound()
''',
  '''''',
  ["R02.unique", "R11.reg", "R12.vis", "R15.count"], "re-introduces D5")
B("c02-broadcast-over-list", ["C02"], S,
  '''        for (send_f, stop_f) in self._listeners.values():
            send_f(sm)''',
  '''        for (send_f, stop_f) in list(self._listeners.values()):
            send_f(sm)''')

# ---------------------------------------------------------------- C03
M("c03-claim-lookup-ignores-app", ["C03", "C06"], S,
  '''        row = db.execute("SELECT * FROM `nameplates`"
                         " WHERE `app_id`=? AND `name`=?",
                         (self._app_id, name)).fetchone()
        if not row:
            if self._log_requests:''',
  '''        row = db.execute("SELECT * FROM `nameplates`"
                         " WHERE `name`=?",
                         (name,)).fetchone()
        if not row:
            if self._log_requests:''',
  ["R03.unique", "R03.ret", "R06.scope"])
M("c03-short-ids", ["C03"], S,
  '''    return base64.b32encode(os.urandom(8)).lower().strip(b"=").decode("ascii")''',
  '''    return base64.b32encode(os.urandom(2)).lower().strip(b"=").decode("ascii")''',
  ["R03.entropy"])
M("c03-update-nameplate-mailbox", ["C03", "C07"], S,
  '''        else:
            npid = row["id"]
            mailbox_id = row["mailbox_id"]
''',
  '''        else:
            npid = row["id"]
            mailbox_id = generate_mailbox_id()
            db.execute("UPDATE `nameplates` SET `mailbox_id`=? WHERE `id`=?",
                       (mailbox_id, npid))
''',
  ["R03.immut", "R03.ret"])
B("c03-hex-ids", ["C03"], S,
  '''    return base64.b32encode(os.urandom(8)).lower().strip(b"=").decode("ascii")''',
  '''    return base64.b16encode(os.urandom(8)).lower().decode("ascii")''')
B("c03-np-row-is-none", ["C03", "C07", "C06"], S,
  '''        if not np_row:
            return
        npid = np_row["id"]''',
  '''        if np_row is None:
            return
        npid = np_row["id"]''')

# ---------------------------------------------------------------- C04
M("c04-allocator-uses-gated-accessor", ["C04", "C18"], S,
  '''        claimed = self._get_nameplate_ids()''',
  '''        claimed = self.get_nameplate_ids()''',
  ["R04.src", "R18.gate"])
M("c04-range-includes-zero", ["C04"], S,
  '''            for id_int in range(10**(size-1), 10**size):''',
  '''            for id_int in range(10**(size-1) - 1, 10**size):''',
  ["R04.tiling"])
M("c04-sizes-1-2-only", ["C04"], S,
  '''        for size in range(1,4): # stick to 1-999 for now''',
  '''        for size in range(1,3): # stick to 1-99 for now''',
  ["R04.tiling"])
M("c04-claims-constant-side", ["C04"], S,
  '''        mailbox_id = self.claim_nameplate(nameplate_id, side, when)''',
  '''        mailbox_id = self.claim_nameplate(nameplate_id, "allocator", when)''',
  ["R04.hold"])
M("c04-no-membership-test", ["C04"], S,
  '''                if id not in claimed:
                    available.add(id)''',
  '''                available.add(id)''',
  ["R04.guard"])
B("c04-str-format", ["C04"], S,
  '''                id = "%d" % id_int
                if id not in claimed:
                    available.add(id)''',
  '''                id = str(id_int)
                if id not in claimed:
                    available.add(id)''')

# ---------------------------------------------------------------- C05
M("c05-count-open-sides-only", ["C05"], S,
  '''        rows = db.execute("SELECT * FROM `mailbox_sides`"
                          " WHERE `mailbox_id`=?",
                          (mailbox_id,)).fetchall()
        if len(rows) > 2:''',
  '''        rows = db.execute("SELECT * FROM `mailbox_sides`"
                          " WHERE `mailbox_id`=? AND `opened`=?",
                          (mailbox_id, True)).fetchall()
        if len(rows) > 2:''',
  ["R05.count"])
M("c05-limit-three", ["C05"], S,
  '''        if len(rows) > 2:
            raise CrowdedError("too many sides have opened this mailbox")''',
  '''        if len(rows) > 3:
            raise CrowdedError("too many sides have opened this mailbox")''',
  ["R05.count"])
M("c05-python-filter", ["C05"], S,
  '''        if len(rows) > 2:
            raise CrowdedError("too many sides have opened this mailbox")''',
  '''        if len([r for r in rows if r["opened"]]) > 2:
            raise CrowdedError("too many sides have opened this mailbox")''',
  ["R05.count"])
M("c05-open-swallows-crowded", ["C05", "C17"], W,
  '''        try:
            self._mailbox = self._app.open_mailbox(mailbox_id, self._side,
                                                   server_rx)
        except CrowdedError:
            raise Error("crowded")
        def _send(sm):''',
  '''        self._mailbox = self._app.open_mailbox(mailbox_id, self._side,
                                               server_rx)
        def _send(sm):''',
  ["R05.noleak", "R17.escape"])
M("c05-close-side-rows-by-side", ["C05", "C06", "C07", "C08", "C10"], S,
  '''            db.execute("DELETE FROM `nameplate_sides` WHERE `nameplates_id`=?",
                       (npid,))
            db.execute("DELETE FROM `nameplates` WHERE `id`=?", (npid,))
            if self._usage_db:
                # the nameplate is retired here''',
  '''            db.execute("DELETE FROM `nameplate_sides` WHERE `nameplates_id`=? OR `side`=?",
                       (npid, side))
            db.execute("DELETE FROM `nameplates` WHERE `id`=?", (npid,))
            if self._usage_db:
                # the nameplate is retired here''',
  ["R05.rows", "R06.scope", "R07.writers", "R08.codel", "R10.inv"])

# ---------------------------------------------------------------- C06
M("c06-prune-all-apps-mailboxes", ["C06", "C12"], S,
  '''        for row in db.execute("SELECT * FROM `mailboxes` WHERE `app_id`=?",
                              (self._app_id,)).fetchall():''',
  '''        for row in db.execute("SELECT * FROM `mailboxes`").fetchall():''',
  ["R06.scope"])
M("c06-release-lookup-ignores-app", ["C06", "C07"], S,
  '''        np_row = db.execute("SELECT * FROM `nameplates`"
                            " WHERE `app_id`=? AND `name`=?",
                            (self._app_id, name)).fetchone()''',
  '''        np_row = db.execute("SELECT * FROM `nameplates`"
                            " WHERE `name`=?",
                            (name,)).fetchone()''',
  ["R06.scope", "R07.writers"])
M("c06-listing-all-apps", ["C06", "C18", "C04"], S,
  '''        c = db.execute("SELECT DISTINCT `name` FROM `nameplates`"
                       " WHERE `app_id`=?", (self._app_id,))''',
  '''        c = db.execute("SELECT DISTINCT `name` FROM `nameplates`")''',
  ["R06.scope", "R18.list", "R04.src"])
M("c06-insert-constant-app", ["C06"], S,
  '''            npid = db.execute(sql, (self._app_id, name, mailbox_id)
                              ).lastrowid''',
  '''            npid = db.execute(sql, ("", name, mailbox_id)
                              ).lastrowid''',
  ["R06.ins", "R06.scope"])
B("c06-redundant-app-filter", ["C06", "C01"], S,
  '''        db.execute("DELETE FROM `messages` WHERE `mailbox_id`=?",
                   (self._mailbox_id,))
        db.execute("DELETE FROM `mailbox_sides` WHERE `mailbox_id`=?",
                   (self._mailbox_id,))
        db.execute("DELETE FROM `mailboxes` WHERE `id`=?", (self._mailbox_id,))
        if self._usage_db:
            self._app._summarize_mailbox_and_store(for_nameplate, side_rows,
                                                when, pruned=False)''',
  '''        db.execute("DELETE FROM `messages` WHERE `app_id`=? AND `mailbox_id`=?",
                   (self._app_id, self._mailbox_id))
        db.execute("DELETE FROM `mailbox_sides` WHERE `mailbox_id`=?",
                   (self._mailbox_id,))
        db.execute("DELETE FROM `mailboxes` WHERE `id`=?", (self._mailbox_id,))
        if self._usage_db:
            self._app._summarize_mailbox_and_store(for_nameplate, side_rows,
                                                when, pruned=False)''')

# ---------------------------------------------------------------- C07
M("c07-release-clears-all-sides", ["C07"], S,
  '''        db.execute("UPDATE `nameplate_sides` SET `claimed`=?"
                   " WHERE `nameplates_id`=? AND `side`=?",
                   (False, npid, side))''',
  '''        db.execute("UPDATE `nameplate_sides` SET `claimed`=?"
                   " WHERE `nameplates_id`=?",
                   (False, npid))''',
  ["R07.writers"])
M("c07-release-clears-side-everywhere", ["C07", "C06"], S,
  '''        db.execute("UPDATE `nameplate_sides` SET `claimed`=?"
                   " WHERE `nameplates_id`=? AND `side`=?",
                   (False, npid, side))''',
  '''        db.execute("UPDATE `nameplate_sides` SET `claimed`=?"
                   " WHERE `side`=?",
                   (False, side))''',
  ["R07.writers", "R06.scope"])
M("c07-release-deletes-when-claimed", ["C07"], S,
  '''        claims = [1 for sr in side_rows if sr["claimed"]]
        if claims:
            return''',
  '''        claims = [1 for sr in side_rows if sr["claimed"]]
        if not claims:
            return''',
  ["R07.guard"])
M("c07-release-ignores-other-claims", ["C07"], S,
  '''        claims = [1 for sr in side_rows if sr["claimed"]]
        if claims:
            return
        # delete and summarize''',
  '''        # delete and summarize''',
  ["R07.guard"])
M("c07-reclaim-after-write", ["C07", "C09"], S,
  '''        if not row:
            db.execute("INSERT INTO `nameplate_sides`"
                       " (`nameplates_id`, `claimed`, `side`, `added`)"
                       " VALUES(?,?,?,?)",
                       (npid, True, side, when))
        else:
            if not row["claimed"]:
                raise ReclaimedError("you cannot re-claim a nameplate that your side previously released")''',
  '''        if not row:
            db.execute("INSERT INTO `nameplate_sides`"
                       " (`nameplates_id`, `claimed`, `side`, `added`)"
                       " VALUES(?,?,?,?)",
                       (npid, True, side, when))
        else:
            self._touch_nameplate_mailbox(mailbox_id, when)
            if not row["claimed"]:
                raise ReclaimedError("you cannot re-claim a nameplate that your side previously released")''',
  ["R07.reclaim"], "needs helper; see extra below")
M("c07-release-delete-or-side", ["C07", "C05", "C06"], S,
  '''        db.execute("DELETE FROM `nameplate_sides` WHERE `nameplates_id`=?",
                   (npid,))
        db.execute("DELETE FROM `nameplates` WHERE `id`=?", (npid,))
        if self._usage_db:
            self._summarize_nameplate_and_store(side_rows, when, pruned=False)''',
  '''        db.execute("DELETE FROM `nameplate_sides` WHERE `nameplates_id`=? OR `side`=?",
                   (npid, side))
        db.execute("DELETE FROM `nameplates` WHERE `id`=?", (npid,))
        if self._usage_db:
            self._summarize_nameplate_and_store(side_rows, when, pruned=False)''',
  ["R07.writers", "R05.rows", "R06.scope"])

# ---------------------------------------------------------------- C08
M("c08-close-ignores-open-sides", ["C08"], S,
  '''        if any([sr["opened"] for sr in side_rows]):
            return

        # nope. delete and summarize''',
  '''        # delete and summarize''',
  ["R08.guard"])
M("c08-commit-between-deletes", ["C08", "C09", "C10"], S,
  '''        db.execute("DELETE FROM `messages` WHERE `mailbox_id`=?",
                   (self._mailbox_id,))
        db.execute("DELETE FROM `mailbox_sides` WHERE `mailbox_id`=?",
                   (self._mailbox_id,))
        db.execute("DELETE FROM `mailboxes` WHERE `id`=?", (self._mailbox_id,))
        if self._usage_db:
            self._app._summarize_mailbox_and_store(for_nameplate, side_rows,''',
  '''        db.execute("DELETE FROM `messages` WHERE `mailbox_id`=?",
                   (self._mailbox_id,))
        db.commit()
        db.execute("DELETE FROM `mailbox_sides` WHERE `mailbox_id`=?",
                   (self._mailbox_id,))
        db.execute("DELETE FROM `mailboxes` WHERE `id`=?", (self._mailbox_id,))
        if self._usage_db:
            self._app._summarize_mailbox_and_store(for_nameplate, side_rows,''',
  ["R08.codel"])
M("c08-close-keeps-side-rows", ["C08", "C10"], S,
  '''        db.execute("DELETE FROM `mailbox_sides` WHERE `mailbox_id`=?",
                   (self._mailbox_id,))
        db.execute("DELETE FROM `mailboxes` WHERE `id`=?", (self._mailbox_id,))
        if self._usage_db:
            self._app._summarize_mailbox_and_store(for_nameplate, side_rows,''',
  '''        db.execute("DELETE FROM `mailboxes` WHERE `id`=?", (self._mailbox_id,))
        if self._usage_db:
            self._app._summarize_mailbox_and_store(for_nameplate, side_rows,''',
  ["R08.codel", "R10.fk"])
M("c08-close-by-side-delete", ["C08", "C05", "C06", "C07", "C09", "C10", "C17"], S,
  '''        for np_row in db.execute("SELECT * FROM `nameplates`"
                                 " WHERE `mailbox_id`=?",
                                 (self._mailbox_id,)).fetchall():
            npid = np_row["id"]
            np_side_rows = db.execute("SELECT * FROM `nameplate_sides`"
                                      " WHERE `nameplates_id`=?",
                                      (npid,)).fetchall()
            db.execute("DELETE FROM `nameplate_sides` WHERE `nameplates_id`=?",
                       (npid,))
            db.execute("DELETE FROM `nameplates` WHERE `id`=?", (npid,))
            if self._usage_db:
                # the nameplate is retired here, so it gets its usage record
                # here (release_nameplate and prune do the same)
                self._app._summarize_nameplate_and_store(np_side_rows, when,
                                                         pruned=False)''',
  '''        db.execute("DELETE FROM `nameplate_sides` WHERE `side`=?",
                   (side,))
        db.execute("DELETE FROM `nameplates` WHERE `mailbox_id`=?",
                   (self._mailbox_id,))''',
  ["R08.codel", "R08.answer", "R05.rows", "R06.scope", "R07.writers", "R09.exit",
   "R10.fk", "R17.escape", "R15.pair"], "re-introduces D1+D2+D7")
M("c08-closed-before-close", ["C08", "C09"], W,
  '''        self._did_close = True
        self._mailbox.close(self._side, msg.get("mood"), server_rx)
        self._mailbox = None
        self.send("closed")''',
  '''        self._did_close = True
        self.send("closed")
        self._mailbox.close(self._side, msg.get("mood"), server_rx)
        self._mailbox = None''',
  ["R09.last", "R08.answer"])

# ---------------------------------------------------------------- C09
COMMITS_FIRE = [
    ("c09-no-commit-add-message", '''        self._touch(sm.server_rx)
        self._db.commit()''', '''        self._touch(sm.server_rx)'''),
    ("c09-no-commit-close-flag", '''                   (False, mood, self._mailbox_id, side))
        db.commit()''', '''                   (False, mood, self._mailbox_id, side))'''),
    ("c09-no-commit-release-flag", '''                   (False, npid, side))
        db.commit()''', '''                   (False, npid, side))'''),
    ("c09-no-commit-release-delete", '''            self._summarize_nameplate_and_store(side_rows, when, pruned=False)
            self._usage_db.commit()
        db.commit()''', '''            self._summarize_nameplate_and_store(side_rows, when, pruned=False)
            self._usage_db.commit()'''),
    ("c09-no-usage-commit-release", '''            self._summarize_nameplate_and_store(side_rows, when, pruned=False)
            self._usage_db.commit()
        db.commit()''', '''            self._summarize_nameplate_and_store(side_rows, when, pruned=False)
        db.commit()'''),
    ("c09-no-commit-client-version", '''                                    implementation, version))
            self._usage_db.commit()''', '''                                    implementation, version))'''),
    ("c09-no-commit-prune-touch", '''        db.commit() # make sure the updates are visible below''', '''        pass'''),
    ("c09-no-commit-prune-delete", '''        if modified:
            db.commit()
            if self._usage_db:''', '''        if modified:
            if self._usage_db:'''),
    ("c09-no-commit-dump-stats", '''                               (rebooted, now, self._blur_usage, connections))
        self._usage_db.commit()''', '''                               (rebooted, now, self._blur_usage, connections))'''),
]
for (mid, old, new) in COMMITS_FIRE:
    M(mid, ["C09"], S, old, new, ["R09.emit", "R09.exit"])
M("c09-no-commit-close-delete", ["C09"], S,
  '''                                                when, pruned=False)
            self._usage_db.commit()
        db.commit()
        # Shut down any listeners''',
  '''                                                when, pruned=False)
            self._usage_db.commit()
        # Shut down any listeners''',
  ["R09.emit", "R09.exit"])
M("c09-no-usage-commit-close", ["C09"], S,
  '''                                                when, pruned=False)
            self._usage_db.commit()
        db.commit()
        # Shut down any listeners''',
  '''                                                when, pruned=False)
        db.commit()
        # Shut down any listeners''',
  ["R09.emit", "R09.exit"])
M("c09-synchronous-off", ["C09", "C10"], D,
  '''    db.execute("PRAGMA foreign_keys = ON")''',
  '''    db.execute("PRAGMA foreign_keys = ON")
    db.execute("PRAGMA synchronous = OFF")''',
  ["R-conn", "R10.conn"])
# equivalent commit deletions: must stay silent
B("c09-no-commit-mailbox-open", ["C09"], S,
  '''        self._touch(when)
        db.commit() # XXX: reconcile the need for this with the comment above''',
  '''        self._touch(when)''',
  "open_mailbox commits right after Mailbox.open returns")
B("c09-no-commit-open-mailbox", ["C09"], S,
  '''        mailbox.open(side, when)
        db.commit()''',
  '''        mailbox.open(side, when)''',
  "Mailbox.open has already committed")
B("c09-no-commit-claim-nameplate", ["C09"], S,
  '''            # since that might cause a new mailbox to be allocated
        db.commit()
''',
  '''            # since that might cause a new mailbox to be allocated
''',
  "the following open_mailbox commits before anything is sent")
B("c09-no-usage-commit-prune", ["C09"], S,
  '''            db.commit()
            if self._usage_db:
                self._usage_db.commit()
        # a bound connection''',
  '''            db.commit()
        # a bound connection''',
  "dump_stats commits the usage DB before the timer callable returns")
B("c09-extra-commit", ["C09"], S,
  '''        self._touch(sm.server_rx)
        self._db.commit()''',
  '''        self._touch(sm.server_rx)
        self._db.commit()
        self._db.commit()''')

# ---------------------------------------------------------------- C10
M("c10-commit-between-nameplate-and-side", ["C10"], S,
  '''            npid = db.execute(sql, (self._app_id, name, mailbox_id)
                              ).lastrowid
        else:''',
  '''            npid = db.execute(sql, (self._app_id, name, mailbox_id)
                              ).lastrowid
            db.commit()
        else:''',
  ["R10.inv"])
M("c10-side-insert-unguarded", ["C10", "C05"], S,
  '''        if not already:
            db.execute("INSERT INTO `mailbox_sides`"
                       " (`mailbox_id`, `opened`, `side`, `added`)"
                       " VALUES(?,?,?,?)",
                       (self._mailbox_id, True, side, when))''',
  '''        if True:
            db.execute("INSERT INTO `mailbox_sides`"
                       " (`mailbox_id`, `opened`, `side`, `added`)"
                       " VALUES(?,?,?,?)",
                       (self._mailbox_id, True, side, when))''',
  ["R10.dup"])
M("c10-isolation-level-none", ["C10", "C09"], D,
  '''        db = sqlite3.connect(dbfile)''',
  '''        db = sqlite3.connect(dbfile, isolation_level=None)''',
  ["R10.conn", "R-conn"])
M("c10-mailbox-guard-unsummarised", ["C10", "C09", "C13", "C18"], S,
  '''        first = times[0] if times else delete_time
        started = first''',
  '''        first = times[0]
        started = first''',
  ["R10.inv", "R10.sweep", "R09.exit", "R13.noraise", "R18.taint"], "re-introduces D6")

# ---------------------------------------------------------------- C11
M("c11-nameplate-cache", ["C11"], S,
  '''        db = self._db
        row = db.execute("SELECT * FROM `nameplates`"
                         " WHERE `app_id`=? AND `name`=?",
                         (self._app_id, name)).fetchone()
        if not row:
            if self._log_requests:''',
  '''        db = self._db
        if not hasattr(self, "_np_cache"):
            self._np_cache = {}
        if name in self._np_cache:
            return self._np_cache[name]
        row = db.execute("SELECT * FROM `nameplates`"
                         " WHERE `app_id`=? AND `name`=?",
                         (self._app_id, name)).fetchone()
        if not row:
            if self._log_requests:''',
  ["R11.inv"])
M("c11-released-names-global", ["C11"], S,
  '''class CrowdedError(Exception):
    pass''',
  '''_released_names = set()

class CrowdedError(Exception):
    pass''',
  ["R11.inv"], "a module-level set of released names consulted by claim (see extra)")
M("c11-allocation-counter", ["C11", "C04"], S,
  '''    def _find_available_nameplate_id(self):
        claimed = self._get_nameplate_ids()''',
  '''    def _find_available_nameplate_id(self):
        self._allocations = getattr(self, "_allocations", 0) + 1
        if self._allocations > 500:
            raise ValueError("too many allocations")
        claimed = self._get_nameplate_ids()''',
  ["R11.inv"])

# ---------------------------------------------------------------- C12
M("c12-open-does-not-touch", ["C12"], S,
  '''        self._touch(when)
        db.commit() # XXX: reconcile the need for this with the comment above''',
  '''        db.commit() # XXX: reconcile the need for this with the comment above''',
  ["R12.stamp"])
M("c12-classify-before-touch", ["C12"], S,
  '''        for mailbox in self._mailboxes.values():
            if mailbox.has_listeners():
                log.msg("touch %s because listeners" % mailbox._mailbox_id)
                mailbox._touch(now)
        db.commit() # make sure the updates are visible below

        new_mailboxes = set()
        old_mailboxes = set()
        for row in db.execute("SELECT * FROM `mailboxes` WHERE `app_id`=?",
                              (self._app_id,)).fetchall():
            mailbox_id = row["id"]
            log.msg("  1: age=%s, old=%s, %s" %
                    (now - row["updated"], now - old, mailbox_id))
            if row["updated"] > old:
                new_mailboxes.add(mailbox_id)
            else:
                old_mailboxes.add(mailbox_id)''',
  '''        new_mailboxes = set()
        old_mailboxes = set()
        for row in db.execute("SELECT * FROM `mailboxes` WHERE `app_id`=?",
                              (self._app_id,)).fetchall():
            mailbox_id = row["id"]
            log.msg("  1: age=%s, old=%s, %s" %
                    (now - row["updated"], now - old, mailbox_id))
            if row["updated"] > old:
                new_mailboxes.add(mailbox_id)
            else:
                old_mailboxes.add(mailbox_id)
        for mailbox in self._mailboxes.values():
            if mailbox.has_listeners():
                log.msg("touch %s because listeners" % mailbox._mailbox_id)
                mailbox._touch(now)
        db.commit() # make sure the updates are visible below''',
  ["R12.touch"])
M("c12-comparison-inverted", ["C12"], S,
  '''            if row["updated"] > old:
                new_mailboxes.add(mailbox_id)''',
  '''            if row["updated"] < old:
                new_mailboxes.add(mailbox_id)''',
  ["R12.cmp"])
M("c12-cutoff-in-future", ["C12"], T,
  '''        old = now - CHANNEL_EXPIRATION_TIME''',
  '''        old = now + CHANNEL_EXPIRATION_TIME''',
  ["R12.cutoff"])
M("c12-expiration-shorter-than-period", ["C12"], T,
  '''CHANNEL_EXPIRATION_TIME = 11*MINUTE''',
  '''CHANNEL_EXPIRATION_TIME = 4*MINUTE''',
  ["R12.cutoff"])
M("c12-sweep-deletes-app-messages", ["C12", "C01", "C08"], S,
  '''            db.execute("DELETE FROM `messages` WHERE `mailbox_id`=?",
                       (mailbox_id,))''',
  '''            db.execute("DELETE FROM `messages` WHERE `app_id`=?",
                       (self._app_id,))''',
  ["R12.keys", "R01.codel"])
M("c12-touch-needs-two-listeners", ["C12"], S,
  '''            if mailbox.has_listeners():
                log.msg("touch %s because listeners" % mailbox._mailbox_id)''',
  '''            if mailbox.count_listeners() > 1:
                log.msg("touch %s because listeners" % mailbox._mailbox_id)''',
  ["R12.touch"])
M("c12-args-swapped", ["C12"], S,
  '''            in_use = app.prune(now, old)''',
  '''            in_use = app.prune(old, now)''',
  ["R12.cutoff"])
B("c12-ge-comparison", ["C12"], S,
  '''            if row["updated"] > old:
                new_mailboxes.add(mailbox_id)''',
  '''            if row["updated"] >= old:
                new_mailboxes.add(mailbox_id)''',
  "the property does not fix the boundary case")

# ---------------------------------------------------------------- C13
M("c13-sweep-keeps-messages", ["C13", "C01"], S,
  '''            db.execute("DELETE FROM `messages` WHERE `mailbox_id`=?",
                       (mailbox_id,))
            db.execute("DELETE FROM `mailbox_sides` WHERE `mailbox_id`=?",
                       (mailbox_id,))''',
  '''            db.execute("DELETE FROM `mailbox_sides` WHERE `mailbox_id`=?",
                       (mailbox_id,))''',
  ["R13.cover", "R01.codel"])
M("c13-apps-forget-messages", ["C13"], S,
  '''        for row in self._db.execute("SELECT DISTINCT `app_id`"
                                    " FROM `messages`").fetchall():
            apps.add(row["app_id"])
        return apps''',
  '''        return apps''',
  ["R13.apps"])
M("c13-no-try", ["C13"], T,
  '''        try:
            server.prune_all_apps(now, old)
        except Exception as e:
            # catch-and-log exceptions during prune, so a single error won't
            # kill the loop. See #13 for details.
            log.msg("error during prune_all_apps")
            log.err(e)''',
  '''        server.prune_all_apps(now, old)''',
  ["R13.timer"])
M("c13-except-valueerror", ["C13"], T,
  '''        except Exception as e:
            # catch-and-log''',
  '''        except ValueError as e:
            # catch-and-log''',
  ["R13.timer"])
M("c13-reraise", ["C13"], T,
  '''            log.msg("error during prune_all_apps")
            log.err(e)''',
  '''            log.msg("error during prune_all_apps")
            log.err(e)
            raise''',
  ["R13.timer"])
M("c13-timer-not-parented", ["C13", "C12"], T,
  '''    TimerService(EXPIRATION_CHECK_PERIOD, expire).setServiceParent(parent)''',
  '''    TimerService(EXPIRATION_CHECK_PERIOD, expire)''',
  ["R13.timer"])
M("c13-sweep-iterates-registry", ["C13"], S,
  '''        for app_id in sorted(self.get_all_apps()):''',
  '''        for app_id in sorted(self._apps):''',
  ["R13.apps"])
M("c13-break-after-first-app", ["C13"], S,
  '''            if not in_use:
                del self._apps[app_id]
        log.msg("app prune ends''',
  '''            if not in_use:
                del self._apps[app_id]
            break
        log.msg("app prune ends''',
  ["R13.apps"])
M("c13-classification-gap", ["C13", "C12"], S,
  '''            else:
                old_mailboxes.add(mailbox_id)
        log.msg(" 2: mailboxes:"''',
  '''            elif row["updated"] < old - 3600:
                old_mailboxes.add(mailbox_id)
        log.msg(" 2: mailboxes:"''',
  ["R13.exh"])

# ---------------------------------------------------------------- C15
M("c15-scary-after-errory-swapped", ["C15"], S,
  '''        if "errory" in moods:
            result = "errory"
        if "scary" in moods:
            result = "scary"''',
  '''        if "scary" in moods:
            result = "scary"
        if "errory" in moods:
            result = "errory"''',
  ["R15.table"])
M("c15-started-is-last", ["C15"], S,
  '''        first = times[0] if times else delete_time''',
  '''        first = times[-1] if times else delete_time''',
  ["R15.times"])
M("c15-release-without-record", ["C15"], S,
  '''        db.execute("DELETE FROM `nameplates` WHERE `id`=?", (npid,))
        if self._usage_db:
            self._summarize_nameplate_and_store(side_rows, when, pruned=False)
            self._usage_db.commit()
        db.commit()''',
  '''        db.execute("DELETE FROM `nameplates` WHERE `id`=?", (npid,))
        db.commit()''',
  ["R15.pair"])
M("c15-prune-records-twice", ["C15"], S,
  '''            if self._usage_db:
                self._summarize_nameplate_and_store(side_rows, now, pruned=True)
            modified = True''',
  '''            if self._usage_db:
                self._summarize_nameplate_and_store(side_rows, now, pruned=True)
                self._summarize_nameplate_and_store(side_rows, now, pruned=True)
            modified = True''',
  ["R15.pair"])
M("c15-side-rows-after-delete", ["C15"], S,
  '''            side_rows = db.execute("SELECT * FROM `nameplate_sides`"
                                   " WHERE `nameplates_id`=?",
                                   (npid,)).fetchall()
            db.execute("DELETE FROM `nameplate_sides` WHERE `nameplates_id`=?",
                       (npid,))
            db.execute("DELETE FROM `nameplates` WHERE `id`=?", (npid,))
            if self._usage_db:
                self._summarize_nameplate_and_store(side_rows, now, pruned=True)''',
  '''            db.execute("DELETE FROM `nameplate_sides` WHERE `nameplates_id`=?",
                       (npid,))
            side_rows = db.execute("SELECT * FROM `nameplate_sides`"
                                   " WHERE `nameplates_id`=?",
                                   (npid,)).fetchall()
            db.execute("DELETE FROM `nameplates` WHERE `id`=?", (npid,))
            if self._usage_db:
                self._summarize_nameplate_and_store(side_rows, now, pruned=True)''',
  ["R15.pair"])
M("c15-count-listeners-bool", ["C15"], S,
  '''    def count_listeners(self):
        return len(self._listeners)''',
  '''    def count_listeners(self):
        return int(bool(self._listeners))''',
  ["R15.count"])
M("c15-pruned-beats-crowded", ["C15"], S,
  '''        if pruned:
            result = "pruney"
        if num_sides > 2:
            result = "crowded"''',
  '''        if num_sides > 2:
            result = "crowded"
        if pruned:
            result = "pruney"''',
  ["R15.table"])

# ---------------------------------------------------------------- C16
M("c16-round-to-nearest", ["C16"], S,
  '''    def _summarize_nameplate_usage(self, side_rows, delete_time, pruned):
        times = sorted([row["added"] for row in side_rows])
        started = times[0]
        if self._blur_usage:
            started = self._blur_usage * (started // self._blur_usage)''',
  '''    def _summarize_nameplate_usage(self, side_rows, delete_time, pruned):
        times = sorted([row["added"] for row in side_rows])
        started = times[0]
        if self._blur_usage:
            started = self._blur_usage * round(started / self._blur_usage)''',
  ["R16.dom"])
M("c16-client-version-unblurred", ["C16"], S,
  '''        if self._blur_usage:
            server_rx = self._blur_usage * (server_rx // self._blur_usage)
        implementation = client_version[0]''',
  '''        implementation = client_version[0]''',
  ["R16.dom"])
M("c16-blur-fed-from-log-requests", ["C16"], S,
  '''                self._usage_db,
                self._blur_usage,
                self._log_requests,
                app_id,''',
  '''                self._usage_db,
                self._log_requests,
                self._blur_usage,
                app_id,''',
  ["R16.dom"])
M("c16-blur-modulo-wrong", ["C16"], S,
  '''        if self._blur_usage:
            started = self._blur_usage * (started // self._blur_usage)
        waiting_time = None
        if len(times) > 1:
            waiting_time = times[1] - times[0]
        total_time = delete_time - first''',
  '''        if self._blur_usage:
            started = started - started % (self._blur_usage + 1)
        waiting_time = None
        if len(times) > 1:
            waiting_time = times[1] - times[0]
        total_time = delete_time - first''',
  ["R16.dom"])

# ---------------------------------------------------------------- C17
M("c17-ack-after-dispatch", ["C17"], W,
  '''            self.send("ack", id=msg.get("id"))

            mtype = msg["type"]
            if mtype == "ping":
                return self.handle_ping(msg)''',
  '''            mtype = msg["type"]
            if mtype == "ping":
                self.handle_ping(msg)
                return self.send("ack", id=msg.get("id"))
            self.send("ack", id=msg.get("id"))''',
  ["R17.ack"])
M("c17-claim-not-once", ["C17"], W,
  '''        if self._did_claim:
            raise Error("only one claim per connection")
''',
  '''''',
  ["R17.once"])
M("c17-release-flag-before-validation", ["C17"], W,
  '''        if self._did_release:
            raise Error("only one release per connection")
        if "nameplate" in msg:''',
  '''        if self._did_release:
            raise Error("only one release per connection")
        self._did_release = True
        if "nameplate" in msg:''',
  ["R17.err"])
M("c17-close-opens-before-validating", ["C17"], W,
  '''        if "mailbox" in msg:
            if self._mailbox_id is not None:
                if msg["mailbox"] != self._mailbox_id:
                    raise Error("open and close must use same mailbox")
            mailbox_id = msg["mailbox"]''',
  '''        if "mailbox" in msg:
            if not self._mailbox:
                self._mailbox = self._app.open_mailbox(msg["mailbox"], self._side,
                                                       server_rx)
            if self._mailbox_id is not None:
                if msg["mailbox"] != self._mailbox_id:
                    raise Error("open and close must use same mailbox")
            mailbox_id = msg["mailbox"]''',
  ["R17.err"])
M("c17-reclaimed-not-caught", ["C17"], W,
  '''        except CrowdedError:
            raise Error("crowded")
        except ReclaimedError:
            raise Error("reclaimed")''',
  '''        except CrowdedError:
            raise Error("crowded")''',
  ["R17.escape"])
M("c17-error-without-orig", ["C17"], W,
  '''            self.send("error", error=e._explain, orig=msg)''',
  '''            self.send("error", error=e._explain)''',
  ["R17.err"])
M("c17-list-before-bind", ["C17"], W,
  '''            if not self._app:
                raise Error("must bind first")
            if mtype == "list":
                return self.handle_list()''',
  '''            if mtype == "list":
                return self.handle_list()
            if not self._app:
                raise Error("must bind first")''',
  ["R17.bound"])
B("c17-list-arm-above-bound-check", ["C17"], W,
  '''            if not self._app:
                raise Error("must bind first")
            if mtype == "list":
                return self.handle_list()''',
  '''            if mtype == "list" and self._app:
                return self.handle_list()
            if not self._app:
                raise Error("must bind first")
            if mtype == "list":
                return self.handle_list()''',
  "behaviour-preserving reordering")
B("c17-typeless-acked", ["C17"], W,
  '''            if "type" not in msg:
                raise Error("missing 'type'")
            self.send("ack", id=msg.get("id"))''',
  '''            if "type" not in msg:
                self.send("ack", id=msg.get("id"))
                raise Error("missing 'type'")
            self.send("ack", id=msg.get("id"))''',
  "the property does not fix whether a typeless command is acked")

# ---------------------------------------------------------------- C18
M("c18-channel-commit-only-with-usage", ["C18", "C09"], S,
  '''            self._summarize_nameplate_and_store(side_rows, when, pruned=False)
            self._usage_db.commit()
        db.commit()''',
  '''            self._summarize_nameplate_and_store(side_rows, when, pruned=False)
            self._usage_db.commit()
            db.commit()''',
  ["R18.taint", "R09.exit"])
M("c18-no-touch-when-blurring", ["C18", "C12"], S,
  '''        self._touch(when)
        db.commit() # XXX: reconcile the need for this with the comment above''',
  '''        if not self._app._blur_usage:
            self._touch(when)
        db.commit() # XXX: reconcile the need for this with the comment above''',
  ["R18.taint"])
M("c18-listing-numeric-only", ["C18"], S,
  '''        return set([row["name"] for row in c.fetchall()])''',
  '''        return set([row["name"] for row in c.fetchall() if row["name"].isdigit()])''',
  ["R18.list"])
M("c18-crowd-limit-depends-on-listing", ["C18", "C05"], S,
  '''        if len(rows) > 2:
            raise CrowdedError("too many sides have opened this mailbox")''',
  '''        if len(rows) > 2 and self._allow_list:
            raise CrowdedError("too many sides have opened this mailbox")''',
  ["R18.taint", "R18.gate"])

# ---------------------------------------------------------------- C19
M("c19-rename-before-close", ["C19"], D,
  '''    _initialize_db_schema(db, name, target_version)
    db.close()
    os.rename(temp_dbfile, dbfile)''',
  '''    os.rename(temp_dbfile, dbfile)
    _initialize_db_schema(db, name, target_version)
    db.close()''',
  ["R19.new"])
M("c19-create-in-place", ["C19"], D,
  '''    temp_dbfile = _get_temporary_dbfile(dbfile)
    db = _open_db_connection(temp_dbfile)
    _initialize_db_schema(db, name, target_version)
    db.close()
    os.rename(temp_dbfile, dbfile)
    return _open_db_connection(dbfile)''',
  '''    db = _open_db_connection(dbfile)
    _initialize_db_schema(db, name, target_version)
    return db''',
  ["R19.new", "R19.open"])
M("c19-temp-in-system-tmp", ["C19"], D,
  '''        prefix=os.path.basename(dbfile) + ".",
        dir=os.path.dirname(dbfile)
    )''',
  '''        prefix=os.path.basename(dbfile) + "."
    )''',
  ["R19.new"])
M("c19-create-only-clobbers", ["C19"], D,
  '''def create_usage_db(dbfile):
    if dbfile == ":memory:":
        db = _open_db_connection(dbfile)
        _initialize_db_schema(db, "usage", USAGEDB_TARGET_VERSION)
    elif os.path.exists(dbfile):
        raise DBAlreadyExists()
    else:''',
  '''def create_usage_db(dbfile):
    if dbfile == ":memory:":
        db = _open_db_connection(dbfile)
        _initialize_db_schema(db, "usage", USAGEDB_TARGET_VERSION)
    else:''',
  ["R19.only"])
M("c19-version-row-constant", ["C19"], D,
  '''    db.execute("INSERT INTO version (version) VALUES (?)",
               (target_version,))''',
  '''    db.execute("INSERT INTO version (version) VALUES (?)",
               (1,))''',
  ["R19.new"])
M("c19-upgrade-regardless", ["C19", "C20"], D,
  '''    while version < target_version:''',
  '''    while version != target_version:''',
  ["R19.ro"])
M("c19-open-existing-creates", ["C19"], D,
  '''    assert dbfile != ":memory:"
    if not os.path.exists(dbfile):
        raise DBDoesntExist()
    return _open_db_connection(dbfile)''',
  '''    assert dbfile != ":memory:"
    return _open_db_connection(dbfile)''',
  ["R19.only", "R19.open"])

# ---------------------------------------------------------------- C20
M("c20-backup-after-upgrade", ["C20"], D,
  '''    if version < target_version and dbfile != ":memory:":
        backup_fn = "%s-backup-v%d" % (dbfile, version)
        log.msg(" storing backup of v%d db in %s" % (version, backup_fn))
        shutil.copy(dbfile, backup_fn)

    while version < target_version:''',
  '''    backup_version = version
    while version < target_version:''',
  ["R20.backup"], "the copy is moved after the loop (see extra)")
M("c20-upgrade-drops-table", ["C20"], UP,
  '''DELETE FROM `version`;''',
  '''DROP TABLE `current`;
DELETE FROM `version`;''',
  ["R20.safe", "R20.equal"])
M("c20-upgrade-misses-column", ["C20"], UP,
  ''' `implementation` VARCHAR,
 `version` VARCHAR''',
  ''' `implementation` VARCHAR''',
  ["R20.equal"])
M("c20-upgrade-not-transactional", ["C20"], UP,
  '''BEGIN;
''',
  '''''',
  ["R20.retry"], "re-introduces D8 (the COMMIT alone is harmless)")
M("c20-upgrade-deletes-records", ["C20"], UP,
  '''DELETE FROM `version`;''',
  '''DELETE FROM `nameplates`;
DELETE FROM `version`;''',
  ["R20.safe"])
B("c20-backup-name-without-version", ["C20"], D,
  '''        backup_fn = "%s-backup-v%d" % (dbfile, version)''',
  '''        backup_fn = "%s-backup" % (dbfile,)''',
  "the backup's exact name is not part of the property")

# ---------------------------------------------------------------- benign refactorings
ALL = ["C01", "C02", "C03", "C04", "C05", "C06", "C07", "C08", "C09", "C10", "C11",
       "C12", "C13", "C15", "C16", "C17", "C18", "C19", "C20"]
B("b-cursor-iteration", ALL, S,
  '''                              (self._app_id, self._mailbox_id)).fetchall():
            sm = SidedMessage(''',
  '''                              (self._app_id, self._mailbox_id)):
            sm = SidedMessage(''')
B("b-any-generator", ALL, S,
  '''        if any([sr["opened"] for sr in side_rows]):
            return''',
  '''        if any(sr["opened"] for sr in side_rows):
            return''')
B("b-claims-len", ALL, S,
  '''        claims = [1 for sr in side_rows if sr["claimed"]]
        if claims:
            return''',
  '''        claims = [sr for sr in side_rows if sr["claimed"]]
        if len(claims) > 0:
            return''')
B("b-close-delete-order", ALL, S,
  '''        db.execute("DELETE FROM `messages` WHERE `mailbox_id`=?",
                   (self._mailbox_id,))
        db.execute("DELETE FROM `mailbox_sides` WHERE `mailbox_id`=?",
                   (self._mailbox_id,))
        db.execute("DELETE FROM `mailboxes` WHERE `id`=?", (self._mailbox_id,))
        if self._usage_db:
            self._app._summarize_mailbox_and_store(''',
  '''        db.execute("DELETE FROM `mailbox_sides` WHERE `mailbox_id`=?",
                   (self._mailbox_id,))
        db.execute("DELETE FROM `messages` WHERE `mailbox_id`=?",
                   (self._mailbox_id,))
        db.execute("DELETE FROM `mailboxes` WHERE `id`=?", (self._mailbox_id,))
        if self._usage_db:
            self._app._summarize_mailbox_and_store(''')
B("b-extra-logging", ALL, W,
  '''        self._did_claim = True
        nameplate_id = msg["nameplate"]''',
  '''        self._did_claim = True
        nameplate_id = msg["nameplate"]
        log.msg("claim of %r by %r" % (nameplate_id, self._side))''')
B("b-local-side-alias", ALL, W,
  '''        self._did_release = True
        self._app.release_nameplate(nameplate_id, self._side, server_rx)''',
  '''        self._did_release = True
        side = self._side
        self._app.release_nameplate(nameplate_id, side, server_rx)''')
B("b-sql-reflow", ALL, S,
  '''        row = db.execute("SELECT * FROM `mailbox_sides`"
                         " WHERE `mailbox_id`=? AND `side`=?",
                         (self._mailbox_id, side)).fetchone()
        if not row:
            return
        db.execute("UPDATE `mailbox_sides` SET `opened`=?, `mood`=?"''',
  '''        row = db.execute("select * from mailbox_sides where side=? and mailbox_id=?",
                         (side, self._mailbox_id)).fetchone()
        if not row:
            return
        db.execute("UPDATE `mailbox_sides` SET `opened`=?, `mood`=?"''')
B("b-inline-cutoff", ALL, T,
  '''        old = now - CHANNEL_EXPIRATION_TIME
        try:
            server.prune_all_apps(now, old)''',
  '''        try:
            server.prune_all_apps(now, now - CHANNEL_EXPIRATION_TIME)''')
B("b-old-mailboxes-list", ALL, S,
  '''        new_mailboxes = set()
        old_mailboxes = set()''',
  '''        new_mailboxes = set()
        old_mailboxes = []''', "needs the matching append; see extra")
B("b-inline-json", ALL, W,
  '''        payload = dict_to_bytes(kwargs)
        self.sendMessage(payload, False)''',
  '''        payload = json.dumps(kwargs).encode("utf-8")
        self.sendMessage(payload, False)''', "needs import json; see extra")
B("b-release-inverted-early-return", ALL, S,
  '''        if not np_row:
            return
        npid = np_row["id"]
        row = db.execute("SELECT * FROM `nameplate_sides`"
                         " WHERE `nameplates_id`=? AND `side`=?",
                         (npid, side)).fetchone()
        if not row:
            return
        db.execute("UPDATE `nameplate_sides` SET `claimed`=?"''',
  '''        if np_row:
            npid = np_row["id"]
        else:
            return
        row = db.execute("SELECT * FROM `nameplate_sides`"
                         " WHERE `nameplates_id`=? AND `side`=?",
                         (npid, side)).fetchone()
        if row is None:
            return
        db.execute("UPDATE `nameplate_sides` SET `claimed`=?"''')
B("b-touch-helper-alias", ALL, S,
  '''    def _touch(self, when):
        self._db.execute("UPDATE `mailboxes` SET `updated`=? WHERE `id`=?",
                         (when, self._mailbox_id))''',
  '''    def _touch(self, when):
        db = self._db
        mailbox_id = self._mailbox_id
        db.execute("UPDATE `mailboxes` SET `updated`=? WHERE `id`=?",
                   (when, mailbox_id))''')
B("b-close-helper-method", ALL, S,
  '''        db.execute("DELETE FROM `messages` WHERE `mailbox_id`=?",
                   (self._mailbox_id,))
        db.execute("DELETE FROM `mailbox_sides` WHERE `mailbox_id`=?",
                   (self._mailbox_id,))
        db.execute("DELETE FROM `mailboxes` WHERE `id`=?", (self._mailbox_id,))
        if self._usage_db:
            self._app._summarize_mailbox_and_store(for_nameplate, side_rows,
                                                when, pruned=False)''',
  '''        self._delete_rows()
        if self._usage_db:
            self._app._summarize_mailbox_and_store(for_nameplate, side_rows,
                                                when, pruned=False)''', "see extra")
B("b-reply-helper", ALL, W,
  '''        self._mailbox = None
        self.send("closed")''',
  '''        self._mailbox = None
        self._reply("closed")''', "see extra")

# two-site mutants (extra edits applied together with the main one)

# ---------------------------------------------------------------- batch-3 rules
M("c01-replay-first-copy-only", ["C01"], S,
  '''                              " WHERE `app_id`=? AND `mailbox_id`=?"
                              " ORDER BY `server_rx` ASC",''',
  '''                              " WHERE `app_id`=? AND `mailbox_id`=?"
                              " GROUP BY `side`, `phase`"
                              " ORDER BY `server_rx` ASC",''',
  ["R01.key"], "replay collapses repeated (side, phase) adds")
M("c03-startup-finishes-releases", ["C03", "C07", "C05"], D,
  '''def create_or_upgrade_channel_db(dbfile):
    return _get_db(dbfile, "channel", CHANNELDB_TARGET_VERSION)''',
  '''def create_or_upgrade_channel_db(dbfile):
    db = _get_db(dbfile, "channel", CHANNELDB_TARGET_VERSION)
    for row in db.execute("SELECT DISTINCT `nameplates_id` FROM `nameplate_sides`"
                          " WHERE `claimed`=?", (False,)).fetchall():
        db.execute("DELETE FROM `nameplate_sides` WHERE `nameplates_id`=?",
                   (row["nameplates_id"],))
        db.execute("DELETE FROM `nameplates` WHERE `id`=?", (row["nameplates_id"],))
    db.commit()
    return db''',
  ["R03.startup", "R07.startup", "R05.startup"], "start-up code retires half-released nameplates")
M("c08-stop-callback-marks-closed", ["C08", "C17"], W,
  '''            self._mailbox = None
            self._listening = False
        self._listening = True''',
  '''            self._mailbox = None
            self._listening = False
            self._did_close = True
        self._listening = True''',
  ["R08.resend", "R17.once"], "a connection that never sent close is marked as closed")
M("c11-release-commit-only-at-end", ["C11", "C09", "C06", "C03"], S,
  '''                   (False, npid, side))
        db.commit()

        # now, are there any remaining claims?''',
  '''                   (False, npid, side))

        # now, are there any remaining claims?''',
  ["R11.durable", "R09.exit", "R06.durable", "R03.durable"],
  "the early return of release leaves the flag update uncommitted")
M("c11-sweep-over-cached-apps", ["C11", "C13"], S,
  '''        for app_id in sorted(self.get_all_apps()):
            log.msg(" app prune checking %r" % (app_id,))''',
  '''        for app_id in sorted(self._apps):
            log.msg(" app prune checking %r" % (app_id,))''',
  ["R11.regdep"], "the sweep visits only namespaces cached in memory")
M("c13-mailbox-insert-or-ignore", ["C13", "C06"], S,
  '''            self._db.execute("INSERT INTO `mailboxes`"
                             " (`app_id`, `id`, `for_nameplate`, `updated`)"''',
  '''            self._db.execute("INSERT OR IGNORE INTO `mailboxes`"
                             " (`app_id`, `id`, `for_nameplate`, `updated`)"''',
  ["R13.orphan", "R06.key"], "a mailbox row of another app silently stands in")
M("c16-round-before-blur", ["C16", "C15"], S,
  '''        started = times[0]''',
  '''        started = int(round(times[0]))''',
  ["R16.dom", "R15.times"], "rounding to the nearest second moves a time across the interval boundary")
M("c02-reclose-frees-live-mailbox", ["C02", "C13", "C01"], W,
  '''        self._mailbox.close(self._side, msg.get("mood"), server_rx)
        self._mailbox = None
        self.send("closed")''',
  '''        self._mailbox.close(self._side, msg.get("mood"), server_rx)
        self._mailbox = None
        self._app.free_mailbox(mailbox_id)
        self.send("closed")''',
  ["R02.unique", "R13.reach", "R01.live"], "the registry drops a Mailbox other connections are subscribed through")


# ---------------------------------------------------------------- mutation-campaign rules
M("c02-connection-counter-adds-zero", ["C02", "C12", "C11"], S,
  '''        self._connections += 1''',
  '''        self._connections += 0''',
  ["R02.unique", "R12.vis", "R11.reg"], "the holder bookkeeping never counts a bound connection")
M("c15-status-row-accumulates", ["C15"], S,
  '''        self._usage_db.execute("DELETE FROM `current`")
''',
  '''        pass
''',
  ["R15.count"], "one status row per sweep instead of the status row")
M("c15-closed-nameplate-recorded-pruney", ["C15"], S,
  '''                self._app._summarize_nameplate_and_store(np_side_rows, when,
                                                         pruned=False)''',
  '''                self._app._summarize_nameplate_and_store(np_side_rows, when,
                                                         pruned=True)''',
  ["R15.pair"], "a nameplate retired by a close is classified as expired")
M("c08-close-lookup-app-or-id", ["C08", "C15"], S,
  '''        row = db.execute("SELECT * FROM `mailboxes`"
                         " WHERE `app_id`=? AND `id`=?",
                         (self._app_id, self._mailbox_id)).fetchone()
        if not row:''',
  '''        row = db.execute("SELECT * FROM `mailboxes`"
                         " WHERE `app_id`=? OR `id`=?",
                         (self._app_id, self._mailbox_id)).fetchone()
        if not row:''',
  ["R08.lookup", "R15.lookup"], "the row close works on is any mailbox of the app")
M("c13-sweep-never-scheduled", ["C13"], T,
  '''    TimerService(EXPIRATION_CHECK_PERIOD, expire).setServiceParent(parent)''',
  '''    pass''',
  ["R13.timer"], "no sweep at all")
M("c15-status-row-never-written", ["C15"], T,
  '''        server.dump_stats(now, rebooted=rebooted)
    TimerService''',
  '''        pass
    TimerService''',
  ["R15.count"], "the timer no longer refreshes the status row")
M("c08-free-mailbox-pops-absent-key", ["C08", "C17"], S,
  '''        if mailbox_id in self._mailboxes:
            self._mailboxes.pop(mailbox_id)''',
  '''        if mailbox_id not in self._mailboxes:
            self._mailboxes.pop(mailbox_id)''',
  ["R08.answer", "R17.escape"], "pop of a key that is known to be absent raises KeyError")


M("c08-close-lookup-by-app-only", ["C08", "C15"], S,
  '''        row = db.execute("SELECT * FROM `mailboxes`"
                         " WHERE `app_id`=? AND `id`=?",
                         (self._app_id, self._mailbox_id)).fetchone()
        if not row:''',
  '''        row = db.execute("SELECT * FROM `mailboxes`"
                         " WHERE `app_id`=?",
                         (self._app_id,)).fetchone()
        if not row:''',
  ["R08.lookup", "R15.lookup"], "the row close works on is the first mailbox of the app")
M("c07-release-lookup-by-nameplate-only", ["C07"], S,
  '''        row = db.execute("SELECT * FROM `nameplate_sides`"
                         " WHERE `nameplates_id`=? AND `side`=?",
                         (npid, side)).fetchone()
        if not row:
            return''',
  '''        row = db.execute("SELECT * FROM `nameplate_sides`"
                         " WHERE `nameplates_id`=?",
                         (npid,)).fetchone()
        if not row:
            return''',
  ["R07.lookup"], "the claim row release looks at is any side's")

EXTRA = {
    "b-old-mailboxes-list": [
        (S, '''            else:
                old_mailboxes.add(mailbox_id)''',
         '''            else:
                old_mailboxes.append(mailbox_id)''')],
    "b-inline-json": [
        (W, '''import time
from twisted.internet import reactor''',
         '''import time, json
from twisted.internet import reactor''')],
    "b-close-helper-method": [
        (S, '''    def _shutdown(self):
        # used at test shutdown to accelerate client disconnects''',
         '''    def _delete_rows(self):
        db = self._db
        db.execute("DELETE FROM `messages` WHERE `mailbox_id`=?",
                   (self._mailbox_id,))
        db.execute("DELETE FROM `mailbox_sides` WHERE `mailbox_id`=?",
                   (self._mailbox_id,))
        db.execute("DELETE FROM `mailboxes` WHERE `id`=?", (self._mailbox_id,))

    def _shutdown(self):
        # used at test shutdown to accelerate client disconnects''')],
    "b-reply-helper": [
        (W, '''    def send(self, mtype, **kwargs):''',
         '''    def _reply(self, mtype, **kwargs):
        self.send(mtype, **kwargs)

    def send(self, mtype, **kwargs):''')],
    "c11-released-names-global": [
        (S, '''        db.execute("UPDATE `nameplate_sides` SET `claimed`=?"
                   " WHERE `nameplates_id`=? AND `side`=?",
                   (False, npid, side))''',
         '''        _released_names.add((self._app_id, name, side))
        db.execute("UPDATE `nameplate_sides` SET `claimed`=?"
                   " WHERE `nameplates_id`=? AND `side`=?",
                   (False, npid, side))'''),
        (S, '''        assert isinstance(name, type("")), type(name)
        assert isinstance(side, type("")), type(side)
        db = self._db
        row = db.execute("SELECT * FROM `nameplates`"
                         " WHERE `app_id`=? AND `name`=?",
                         (self._app_id, name)).fetchone()
        if not row:
            if self._log_requests:''',
         '''        assert isinstance(name, type("")), type(name)
        assert isinstance(side, type("")), type(side)
        db = self._db
        if (self._app_id, name, side) in _released_names:
            raise ReclaimedError("you cannot re-claim a nameplate that your side previously released")
        row = db.execute("SELECT * FROM `nameplates`"
                         " WHERE `app_id`=? AND `name`=?",
                         (self._app_id, name)).fetchone()
        if not row:
            if self._log_requests:''')],
    "c07-reclaim-after-write": [
        (S, '''    def release_nameplate(self, name, side, when):''',
         '''    def _touch_nameplate_mailbox(self, mailbox_id, when):
        self._db.execute("UPDATE `mailboxes` SET `updated`=? WHERE `id`=?",
                         (when, mailbox_id))

    def release_nameplate(self, name, side, when):''')],
    "c20-backup-after-upgrade": [
        (D, '''    if version != target_version:
        raise DBError("Unable to handle db version %s" % version)''',
         '''    if backup_version < target_version and dbfile != ":memory:":
        shutil.copy(dbfile, "%s-backup-v%d" % (dbfile, backup_version))
    if version != target_version:
        raise DBError("Unable to handle db version %s" % version)''')],
}


# ---------------------------------------------------------------- rules added with seeded batch 6
CH = PKG + "/db-schemas/channel-v1.sql"
M("b6-affinity-side-numeric", ["C05", "C08", "C12", "C13"], CH,
  ''' `opened` BOOLEAN, -- True after open(), False after close()
 `side` VARCHAR,''',
  ''' `opened` BOOLEAN, -- True after open(), False after close()
 `side` NUMERIC,''',
  ["R05.exact", "R08.exact", "R12.exact", "R13.exact"],
  "a side string that looks like a number is stored as that number")
M("b6-affinity-body-integer", ["C01", "C06"], CH,
  " `body` VARCHAR,", " `body` BIGINT,", ["R01.exact", "R06.exact"])
M("b6-open-tests-mailbox-truth", ["C08", "C17"], W,
  """        if "mailbox" not in msg:
            raise Error("open requires 'mailbox'")""",
  """        if not msg.get("mailbox"):
            raise Error("open requires 'mailbox'")""",
  ["R08.present", "R17.present"], "the empty mailbox id is a valid id")
M("b6-list-sorted-by-int", ["C17", "C18"], W,
  """        nameplate_ids = sorted(self._app.get_nameplate_ids())""",
  """        nameplate_ids = sorted(self._app.get_nameplate_ids(),
                               key=lambda n: (len(n), int(n) if n.isdigit() else 0, n))""",
  ["R17.convert", "R18.convert"])
M("b6-add-guard-on-did-close", ["C17"], W,
  """        if not self._mailbox:
            raise Error("must open mailbox before adding")""",
  """        if self._did_close:
            raise Error("must open mailbox before adding")""",
  ["R17.escape"], "add before open calls add_message on None")
M("b6-prune-delete-loop-returns-early", ["C13"], S,
  """            if self._usage_db:
                self._summarize_mailbox_and_store(for_nameplate, side_rows,
                                                  now, pruned=True)
            modified = True""",
  """            if self._usage_db:
                self._summarize_mailbox_and_store(for_nameplate, side_rows,
                                                  now, pruned=True)
            modified = True
            if not for_nameplate:
                break""",
  ["R13.all"])
M("b6-prune-apps-first-100", ["C13", "C10"], S,
  """        for app_id in sorted(self.get_all_apps()):""",
  """        for app_id in sorted(self.get_all_apps())[:100]:""",
  ["R13.all", "R13.apps", "R10.apps"])
M("b6-upgrade-marker-file", ["C20"], D,
  """        db.executescript(upgrader)
        db.commit()
        version = version+1""",
  """        open(dbfile + ".upgrading", "x").close()
        db.executescript(upgrader)
        db.commit()
        os.unlink(dbfile + ".upgrading")
        version = version+1""",
  ["R20.retry"], "a crash leaves the marker; the retry's exclusive create fails")
M("b6-open-error-removes-journal", ["C19"], D,
  """        raise DBError("Unable to create/open db file %s: %s" % (dbfile, e))""",
  """        if os.path.exists(dbfile + "-journal"):
            os.remove(dbfile + "-journal")
        raise DBError("Unable to create/open db file %s: %s" % (dbfile, e))""",
  ["R19.ro"], "a hot journal is the only way to recover the rejected file")

CLASSIFY_OLD = """        new_mailboxes = set()
        old_mailboxes = set()
        for row in db.execute("SELECT * FROM `mailboxes` WHERE `app_id`=?",
                              (self._app_id,)).fetchall():
            mailbox_id = row["id"]
            log.msg("  1: age=%s, old=%s, %s" %
                    (now - row["updated"], now - old, mailbox_id))
            if row["updated"] > old:
                new_mailboxes.add(mailbox_id)
            else:
                old_mailboxes.add(mailbox_id)
"""
B("b6-classify-by-comprehensions", ["C12", "C13", "C10", "C08"], S, CLASSIFY_OLD,
  """        mailbox_rows = db.execute("SELECT * FROM `mailboxes` WHERE `app_id`=?",
                                  (self._app_id,)).fetchall()
        new_mailboxes = {row["id"] for row in mailbox_rows if row["updated"] > old}
        old_mailboxes = {row["id"] for row in mailbox_rows if not row["updated"] > old}
""", "two filtering comprehensions with complementary conditions")
M("b6-classify-comprehensions-gap", ["C13"], S, CLASSIFY_OLD,
  """        mailbox_rows = db.execute("SELECT * FROM `mailboxes` WHERE `app_id`=?",
                                  (self._app_id,)).fetchall()
        new_mailboxes = {row["id"] for row in mailbox_rows if row["updated"] > old}
        old_mailboxes = {row["id"] for row in mailbox_rows if row["updated"] < old}
""", ["R13.exh"], "a mailbox whose stamp equals the cutoff lands in neither set, forever")
M("b6-classify-comprehensions-inverted", ["C12"], S, CLASSIFY_OLD,
  """        mailbox_rows = db.execute("SELECT * FROM `mailboxes` WHERE `app_id`=?",
                                  (self._app_id,)).fetchall()
        new_mailboxes = {row["id"] for row in mailbox_rows if not row["updated"] > old}
        old_mailboxes = {row["id"] for row in mailbox_rows if row["updated"] > old}
""", ["R12.cmp"], "the fresh mailboxes are the ones deleted")
CLOSE_GUARD = """        if any([sr["opened"] for sr in side_rows]):
            return

        # nope. delete and summarize
"""
B("b6-close-guard-as-loop", ["C08", "C07", "C05"], S, CLOSE_GUARD,
  """        for sr in side_rows:
            if sr["opened"]:
                return

        # nope. delete and summarize
""", "the loop spelling of the guard")
M("b6-close-guard-loop-breaks", ["C08"], S, CLOSE_GUARD,
  """        for sr in side_rows:
            if sr["opened"]:
                break

        # nope. delete and summarize
""", ["R08.guard"], "the loop is left, the deletion still happens")
M("b6-close-guard-loop-inverted", ["C08"], S, CLOSE_GUARD,
  """        for sr in side_rows:
            if not sr["opened"]:
                return

        # nope. delete and summarize
""", ["R08.guard"], "deletes exactly when every side is still open")
WORK_OLD = """        for app_id in sorted(self.get_all_apps()):
            log.msg(" app prune checking %r" % (app_id,))"""
B("b6-app-sweep-worklist", ["C13", "C10", "C12", "C11", "C02"], S, WORK_OLD,
  """        pending = sorted(self.get_all_apps())
        while pending:
            app_id = pending.pop(0)
            log.msg(" app prune checking %r" % (app_id,))""", "a work list consumed to the end")
M("b6-app-sweep-worklist-from-cache", ["C13", "C10"], S, WORK_OLD,
  """        pending = sorted(self._apps)
        while pending:
            app_id = pending.pop(0)
            log.msg(" app prune checking %r" % (app_id,))""", ["R13.apps", "R10.apps"],
  "the work list is filled from the object cache")


# ---------------------------------------------------------------- batch 7 / round 6
M("b7-server-count-sent-to-clients", ["C06"], S,
  '''    def get_welcome(self):
        return self._welcome''',
  '''    def get_welcome(self):
        busy = self._db.execute("SELECT COUNT(*) FROM `mailboxes`").fetchone()
        return dict(self._welcome, busy=busy)''',
  ["R06.server"], "a server-wide read of per-app rows that reaches a frame")
B("b7-server-count-logged", ["C06", "C11", "C18"], S,
  '''    def dump_stats(self, now, rebooted):
        if not self._usage_db:
            return''',
  '''    def dump_stats(self, now, rebooted):
        log.msg("mailboxes in use", self._db.execute(
            "SELECT COUNT(*) FROM `mailboxes`").fetchone())
        if not self._usage_db:
            return''',
  "operator statistics: the result reaches the log only")
M("b7-open-counter-refuses", ["C11"], S,
  '''        self._add_mailbox(mailbox_id, False, side, when) # ensure row exists
        db = self._db''',
  '''        self._add_mailbox(mailbox_id, False, side, when) # ensure row exists
        self._mailboxes_opened = getattr(self, "_mailboxes_opened", 0) + 1
        if self._mailboxes_opened > 100000:
            raise CrowdedError("too busy")
        db = self._db''',
  ["R11.inv"], "a process-lifetime counter that decides an answer")

M("d11-text-check-removed", ["C17"], W,
  '''            try:
                # JSON can smuggle in lone surrogates ("\\\\ud800"), which are
                # not text: neither UTF-8 nor SQLite can store them
                json.dumps(msg, ensure_ascii=False).encode("utf-8")
            except UnicodeEncodeError:
                raise Error("strings must be well-formed unicode")
''',
  '''''',
  ["R17.text"], "the repaired defect D11 returns")
M("d11-text-check-lenient", ["C17"], W,
  '''                json.dumps(msg, ensure_ascii=False).encode("utf-8")''',
  '''                json.dumps(msg, ensure_ascii=False).encode("utf-8", "replace")''',
  ["R17.text"], "errors='replace' never raises: nothing is checked")
M("d11-text-check-after-dispatch", ["C17"], W,
  '''            self.send("ack", id=msg.get("id"))
            try:
                # JSON can smuggle in lone surrogates ("\\\\ud800"), which are
                # not text: neither UTF-8 nor SQLite can store them
                json.dumps(msg, ensure_ascii=False).encode("utf-8")
            except UnicodeEncodeError:
                raise Error("strings must be well-formed unicode")

            mtype = msg["type"]
            if mtype == "ping":
                return self.handle_ping(msg)
            if mtype == "bind":
                return self.handle_bind(msg, server_rx)
''',
  '''            self.send("ack", id=msg.get("id"))

            mtype = msg["type"]
            if mtype == "ping":
                return self.handle_ping(msg)
            if mtype == "bind":
                return self.handle_bind(msg, server_rx)
            try:
                # JSON can smuggle in lone surrogates ("\\\\ud800"), which are
                # not text: neither UTF-8 nor SQLite can store them
                json.dumps(msg, ensure_ascii=False).encode("utf-8")
            except UnicodeEncodeError:
                raise Error("strings must be well-formed unicode")
''',
  ["R17.text"], "bind stores appid / side before the check")

M("mc5-close-mood-from-other-field", ["C15"], W,
  '''        self._mailbox.close(self._side, msg.get("mood"), server_rx)''',
  '''        self._mailbox.close(self._side, msg.get("mailbox"), server_rx)''',
  ["R15.mood"], "campaign 5 survivor: the mood column receives another field")

M("mc5-close-named-guard-on-handle", ["C17", "C08"], W,
  '''        if "mailbox" in msg:
            if self._mailbox_id is not None:''',
  '''        if "mailbox" in msg:
            if self._mailbox is not None:''',
  ["R17.names", "R08.names"], "campaign 5 survivor: the handle, not the name, guards the mismatch test")
M("mc5-close-bare-guard-on-handle", ["C17", "C08"], W,
  '''            if self._mailbox_id is None:
                raise Error("close without mailbox must follow open")''',
  '''            if self._mailbox is None:
                raise Error("close without mailbox must follow open")''',
  ["R17.names", "R08.names"], "campaign 5 survivor: a bare close after the mailbox was deleted is refused")

def apply_mutant(repo_root, m, base_texts=None):
    """-> overrides dict or None when the anchor text is gone"""
    edits = [(m["path"], m["old"], m["new"])] + EXTRA.get(m["id"], [])
    overrides = {}
    for (path, old, new) in edits:
        if path in overrides:
            text = overrides[path]
        else:
            try:
                with open(os.path.join(repo_root, path), "r", encoding="utf-8") as f:
                    text = f.read()
            except OSError:
                return None
        if old not in text or text.count(old) != 1:
            return None
        overrides[path] = text.replace(old, new)
    return overrides


def failing(ctx):
    return set((o.rule, o.construct) for o in ctx.obligations if not o.ok)


def run_one(prop, m, base_fail, tier="thorough"):
    """-> ('skipped'|'ok'|'MISS'|'FALSE-ALARM'|'error', detail)"""
    import importlib
    from .repo import REPO
    if "patch" in m:
        from . import patchset
        with open(m["patch"], "r", encoding="utf-8") as f:
            ov = patchset.apply(REPO, f.read())
        if ov is None:
            return "skipped", "the patch does not apply to the current tree"
    else:
        ov = apply_mutant(REPO, m)
        if ov is None:
            return "skipped", "anchor text not in the current tree"
    mod = importlib.import_module("sa.rules.%s" % prop.lower())
    try:
        model = Model(Repo(overrides=ov))
        ctx = Ctx(model, prop, tier)
        mod.run(ctx)
    except AnalysisError as e:
        if m["kind"] == "fire":
            return "ok", "analysis refuses the mutant (ANALYSIS-ERROR: %s)" % str(e)[:80]
        return "FALSE-ALARM", "ANALYSIS-ERROR on a benign variant: %s" % str(e)[:120]
    # constructs are compared without qualified function names (as the known-
    # findings matching does): renaming a helper does not make a finding new
    import re as _re

    def _nofunc(c):
        return _re.sub(r"[A-Za-z_][\w.<>]*: ", "", c)
    base_norm = set((r, _nofunc(c)) for (r, c) in base_fail)
    new = set((r, c) for (r, c) in failing(ctx) if (r, _nofunc(c)) not in base_norm)
    if m["kind"] == "fire":
        want = [r for r in m["fire"] if r.startswith("R%s." % prop[1:]) or
                (not r[1:3].isdigit())]
        rules = set(r for (r, c) in new)
        if m["fire"] == ["*"]:
            if rules:
                return "ok", "fired %s" % ",".join(sorted(rules))
            return "MISS", "no new failure of %s" % prop
        if not want:
            return "ok", "no rule of this property expected"
        hit = [r for r in want if r in rules]
        if hit:
            return "ok", "fired %s" % ",".join(sorted(hit))
        return "MISS", "expected %s, new failures: %s" % (want, sorted(rules))
    if new:
        return "FALSE-ALARM", "benign variant reported: %s" % sorted(new)[:3]
    return "ok", "silent"


def patch_jobs(prop):
    """the independently written changes kept under /verif: seeded changes that
    break `prop` (must be reported) and behaviour-preserving refactorings
    (every property's check must stay as on the unchanged tree)"""
    import glob
    import json
    V = os.path.dirname(os.path.dirname(os.path.abspath(__file__)))
    jobs = []
    for d in sorted(glob.glob(os.path.join(V, "seeded", "*"))):
        try:
            with open(os.path.join(d, "meta.json")) as f:
                meta = json.load(f)
        except (OSError, ValueError):
            continue
        if meta.get("breaks_property") != prop or meta.get("detected_by_target") is False:
            continue
        if any("ANALYSIS-ERROR" in x for x in meta.get("detected_by", [])):
            continue
        jobs.append({"id": "seeded/" + os.path.basename(d), "kind": "fire", "fire": ["*"],
                     "props": [prop], "patch": os.path.join(d, "patch.diff")})
    for f in sorted(glob.glob(os.path.join(V, "benign", "*.diff"))):
        jobs.append({"id": "benign/" + os.path.basename(f)[:-5], "kind": "silent", "fire": [],
                     "props": [prop], "patch": f})
    return jobs


def run(prop, ctx):
    """thorough tier: run the corpus entries of this property against the
    current tree; a miss or a false alarm is an analysis error"""
    base_fail = failing(ctx)
    results = []
    jobs = [m for m in MUTANTS if prop in m["props"]] + patch_jobs(prop)
    from concurrent.futures import ProcessPoolExecutor
    with ProcessPoolExecutor(max_workers=min(16, max(1, len(jobs)))) as ex:
        futs = [(m, ex.submit(run_one, prop, m, base_fail)) for m in jobs]
        for m, f in futs:
            results.append((m, f.result()))
    bad = []
    summary = {"fire_ok": 0, "silent_ok": 0, "skipped": 0}
    samples = []
    for m, (st, detail) in results:
        if st == "skipped":
            summary["skipped"] += 1
        elif st == "ok":
            summary["fire_ok" if m["kind"] == "fire" else "silent_ok"] += 1
        else:
            bad.append("%s: %s (%s)" % (m["id"], st, detail))
        samples.append({"mutant": m["id"], "kind": m["kind"], "result": st,
                        "detail": detail})
    ctx.counts["selftest: mutants that must fire, fired"] = summary["fire_ok"]
    ctx.counts["selftest: benign variants, silent"] = summary["silent_ok"]
    ctx.counts["selftest: skipped (anchor gone)"] = summary["skipped"]
    ctx.selftest = samples
    ctx.note("self-test: %(fire_ok)d violating mutants of the current tree detected, "
             "%(silent_ok)d benign variants silent, %(skipped)d skipped" % summary)
    if bad:
        raise AnalysisError("self-test failed: " + "; ".join(bad))
