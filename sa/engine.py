"""Assemble the interpreter and run the entry points."""
import ast
import time

from .repo import Repo, AnalysisError, FuncInfo
from .interp import InterpBase, State, Frame, Outcome, NORMAL
from .interp_exec import ExecMixin
from .interp_loop import LoopMixin
from .interp_eval import EvalMixin
from .interp_call import CallMixin
from .interp_method import MethodMixin


class Interp(ExecMixin, LoopMixin, EvalMixin, CallMixin, MethodMixin, InterpBase):
    no_inline = frozenset()


class Path(object):
    __slots__ = ("entry", "events", "outcome", "pc", "dirty", "wrote", "state", "handler")

    def __init__(self, entry, state, outcome):
        self.entry = entry
        self.events = state.events
        self.outcome = outcome
        self.pc = state.pc
        self.dirty = state.dirty
        self.wrote = state.wrote
        self.state = state
        self.handler = None

    def flat(self, into_loops=True):
        """all events, descending into every loop alternative (each
        alternative once); yields (event, loop_stack)"""
        return flat_events(self.events, into_loops)


def flat_events(events, into_loops=True, loops=(), into_pure=False):
    for e in events:
        yield e, loops
        if e["k"] == "loop" and into_loops:
            for alt in e["alts"]:
                for x in flat_events(alt["events"], True, loops + (e,), into_pure):
                    yield x
        elif e["k"] == "pure" and into_pure:
            for evs in e["alt_events"]:
                for x in flat_events(evs, into_loops, loops, True):
                    yield x


WS = ("obj", "WebSocketServer", ("conn",))
SERVER = ("obj", "Server", "server")

DB_NOINLINE = frozenset(["create_or_upgrade_channel_db",
                         "create_or_upgrade_usage_db", "increase_rlimits"])


class Model(object):
    """paths of all entry points, computed on demand and cached"""

    def __init__(self, repo=None):
        from . import names as namesmod
        self.repo = repo or Repo()
        self.timing = {}
        # bootstrap: run makeService once without any slot roles and read the
        # roles of Server's slots off the values its constructor stores
        self.interp = Interp(self.repo)
        self._paths = {}
        self._timer = None
        slots = {}
        for p in self.paths("tap:makeService"):
            for e, _ in flat_events(p.events):
                if e["k"] == "setattr" and e["obj"][0] == "obj" and \
                        e["obj"][1] == "Server" and e["func"] == "Server.__init__":
                    if ("Server", e["attr"]) in self.interp.container_attrs():
                        continue   # a container the constructor creates itself
                    role = namesmod.classify_server_value(e["value"], self.interp)
                    if role is not None and slots.get(e["attr"], role) != role:
                        raise AnalysisError("Server.%s receives values of two roles"
                                            % e["attr"])
                    if role is not None:
                        slots[e["attr"]] = role
        if not slots:
            raise AnalysisError("anchor vanished: makeService does not reach "
                                "Server.__init__ with recognisable handle/config values")
        # an option whose value reaches no slot at all is not "unrecognised
        # plumbing" but a broken one
        from .repo import PlumbingViolation
        from .terms import mentions as _mentions
        for key, role in (("allow-list", ("cfg", "allow_list")),
                          ("blur-usage", ("cfg", "blur_usage"))):
            if role in slots.values():
                continue
            held = []
            hit = False
            for p in self.paths("tap:makeService"):
                for e, _ in flat_events(p.events):
                    if e["k"] == "setattr" and e["obj"][0] == "obj" and \
                            e["obj"][1] == "Server" and e["func"] == "Server.__init__":
                        if _mentions(e["value"], lambda x: x[0] == "sub" and
                                     x[2] == ("const", key)):
                            hit = True
                        held.append("%s=%s" % (e["attr"], __import__("sa.terms").terms.show(
                            e["value"])[:40]))
            if not hit:
                raise PlumbingViolation(self, role[1], key, "Server slots: " +
                                        "; ".join(sorted(set(held))[:8]))
        self.interp = Interp(self.repo, server_slots=slots)
        self.interp.names.require_complete()
        namesmod.CURRENT = self.interp.names
        self.names = self.interp.names
        self._paths = {}
        self.timing = {}
        self._timer = None

    # -- generic runner --------------------------------------------------------
    def run_function(self, fi, self_term, args, no_inline=frozenset(),
                     cells=None, cell_env=None, heap=None):
        it = self.interp
        it.no_inline = no_inline
        st = State()
        if heap:
            st.heap = dict(heap)
        root = Frame(fi, None, 0)
        st.envs[root.fid] = {}
        cframe = None
        if cells is not None:
            cframe = Frame(cells, None, 0)
            st.envs[cframe.fid] = dict(cell_env or {})
            # sibling closures defined in the same enclosing function resolve
            # their free variables in this copy of its environment
            if not hasattr(it, "cell_frames"):
                it.cell_frames = {}
            it.cell_frames[cells.qualname] = cframe
        call = ast.Call(func=ast.Name(id=fi.name, ctx=ast.Load()), args=[], keywords=[])
        call.lineno = fi.node.lineno
        call.col_offset = 0
        res = it.call_function(fi, self_term, list(args), {}, st, root, call,
                               cells=cframe)
        paths = []
        for (s, v) in res:
            if isinstance(v, Outcome):
                paths.append(Path(fi.qualname, s, v))
            else:
                paths.append(Path(fi.qualname, s, Outcome("return", v)))
        return paths

    def paths(self, entry):
        if entry in self._paths:
            return self._paths[entry]
        t0 = time.time()
        repo = self.repo
        if entry.startswith("ws:"):
            name = entry[3:]
            fi = repo.require_method("WebSocketServer", name)
            args = [("param", p) for p in fi.params[1:]]
            if name == "onMessage" and args:
                # the framework passes the inbound frame first, whatever the
                # parameter is called
                args[0] = ("param", "payload")
            paths = self.run_function(fi, WS, args)
        elif entry.startswith("server:"):
            name = entry[7:]
            fi = repo.require_method("Server", name)
            args = [("param", p) for p in fi.params[1:]]
            paths = self.run_function(fi, SERVER, args)
        elif entry == "tap:makeService":
            fi = repo.require_function("server_tap", "makeService")
            args = [("param", "config")]
            paths = self.run_function(fi, None, args, no_inline=DB_NOINLINE)
        elif entry == "timer":
            paths = self._timer_paths()
        elif entry.startswith("db:"):
            name = entry[3:]
            fi = repo.require_function("database", name)
            args = [("param", p) for p in fi.params]
            if args:
                # the public database entry points take the file path first,
                # whatever the parameter is called
                args[0] = ("param", "dbfile")
            paths = self.run_function(fi, None, args)
        elif entry.startswith("fn:"):
            mod, name = entry[3:].split(".", 1)
            fi = repo.require_function(mod, name)
            args = [("param", p) for p in fi.params]
            paths = self.run_function(fi, None, args)
        else:
            raise AnalysisError("unknown entry %s" % entry)
        if entry == "ws:onMessage":
            from .events import assign_handlers
            assign_handlers(paths)
        self._paths[entry] = paths
        self.timing[entry] = time.time() - t0
        return paths

    def timer_info(self):
        """the TimerService(...) ext event of makeService and its closure"""
        if self._timer is not None:
            return self._timer
        found = []
        for p in self.paths("tap:makeService"):
            for e, _ in p.flat():
                if e["k"] == "ext" and e["name"].endswith("TimerService"):
                    found.append((p, e))
        self._timer = found
        return found

    def _timer_paths(self):
        found = self.timer_info()
        if not found:
            raise AnalysisError("anchor vanished: no TimerService(...) call "
                                "reachable in makeService")
        p, e = found[0]
        clos = [a for a in e["args"] if a[0] == "closure"]
        if not clos:
            # an instance of a class of the package with __call__
            objs = [a for a in e["args"] if a[0] == "obj" and
                    self.repo.method(a[1], "__call__") is not None]
            if objs:
                fi = self.repo.method(objs[0][1], "__call__")
                self._timer_qualname = fi.qualname
                self._timer_fi = fi
                return self.run_function(fi, objs[0], [], heap=p.state.heap)
            raise AnalysisError("TimerService callable is neither a local closure nor an "
                                "instance of a class of the package with __call__")
        fi, defframe = self.interp.closures[clos[0][1]]
        for fr in reversed(getattr(self.interp, "closure_frames", {}).get(clos[0][1], [])):
            if fr.fid in p.state.envs:
                # the frame in which this path defined the closure
                defframe = fr
                break
        self._timer_qualname = fi.qualname
        self._timer_fi = fi
        env = p.state.envs.get(defframe.fid, {})
        return self.run_function(fi, None, [], cells=defframe.func, cell_env=env)

    def timer_fi(self):
        """FuncInfo of the callable given to TimerService"""
        self.paths("timer")
        return self._timer_fi

    def is_timer_entry(self, qualname):
        """qualname (Path.entry) is the callable given to TimerService"""
        self.paths("timer")
        return qualname == self._timer_qualname

    WS_ENTRIES = ["ws:onConnect", "ws:onOpen", "ws:onMessage", "ws:onClose"]
    SERVER_ENTRIES = ["server:startService", "server:stopService"]
    DB_ENTRIES = ["db:create_or_upgrade_channel_db", "db:create_or_upgrade_usage_db",
                  "db:open_existing_db", "db:create_channel_db", "db:create_usage_db"]

    def runtime_entries(self):
        return self.WS_ENTRIES + ["timer"] + self.SERVER_ENTRIES
