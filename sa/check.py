#!/usr/bin/env python3
"""CLI: python3 sa/check.py Cxx [--tier quick|thorough]

exit 0: every obligation discharged (or failed only on open known findings)
exit 1: VIOLATION property=<id> replay=<path>
exit 2: ANALYSIS-ERROR (the analyser could not model the tree)
"""
import importlib
import os
import sys
import time
import traceback

HERE = os.path.dirname(os.path.abspath(__file__))
sys.path.insert(0, os.path.dirname(HERE))

from sa.repo import AnalysisError, PlumbingViolation, Repo  # noqa: E402
from sa.engine import Model  # noqa: E402
from sa.report import Ctx, finish  # noqa: E402


KNOWN_SQL_OWNERS = ("Mailbox", "AppNamespace", "Server", "WebSocketServer")


def require_known_sql_owners(model):
    """The rules attribute every channel / usage statement of a runtime path to
    the namespace, mailbox or server object that runs it.  A statement run by
    an object of another class of the package (a store / recorder class split
    off from them) carries its own copies of the app id and the handles, which
    the scoping and plumbing rules do not follow: no verdict rather than a
    wrong one."""
    done = getattr(model, "_sql_owners_checked", False)
    if done:
        return
    from sa.events import each_event
    for _p, e, _l in each_event(model, model.runtime_entries(), ("sql",)):
        cls = e["func"].split(".")[0] if "." in e["func"] else None
        if cls is None or cls in KNOWN_SQL_OWNERS:
            continue
        if cls in model.repo.classes:
            raise AnalysisError("statement executed by a collaborator class %s (%s at %s:%d): "
                                "not modelled" % (cls, e["func"], e["site"][0], e["site"][1]))
    model._sql_owners_checked = True


def run_property(prop, tier, model=None, quiet=False):
    mod = importlib.import_module("sa.rules.%s" % prop.lower())
    model = model or Model()
    ctx = Ctx(model, prop, tier)
    try:
        if prop not in ("C19", "C20"):
            require_known_sql_owners(model)
        mod.run(ctx)
    except AnalysisError as e:
        if isinstance(e, PlumbingViolation):
            raise
        # the analysis could not be completed.  If a rule that did complete has
        # already found a violation (one that is not a listed known finding),
        # that verdict stands on its own and is reported; otherwise the tree
        # could not be modelled and the run is analysis-broken (exit 2).
        from sa.report import new_failures
        if not new_failures(ctx):
            raise
        ctx.note("analysis stopped after the violation(s) reported here: %s" % e)
        print("NOTE: %s analysis incomplete (%s); reporting what was decided before"
              % (prop, str(e)[:200]))
    return mod, ctx


def main(argv):
    if len(argv) < 2:
        print(__doc__)
        return 2
    prop = argv[1].upper()
    if "--explain" in argv:
        path = argv[argv.index("--explain") + 1]
        try:
            with open(path) as f:
                print(f.read())
            return 0
        except Exception as e:
            print("cannot read %s: %s" % (path, e))
            return 2
    tier = os.environ.get("VERIF_TIER", "quick")
    if "--tier" in argv:
        tier = argv[argv.index("--tier") + 1]
    seed = int(os.environ.get("VERIF_SEED", "0") or 0)
    t0 = time.time()
    try:
        mod, ctx = run_property(prop, tier)
        rc = 0
        if tier == "thorough":
            from sa import selftest
            selftest.run(prop, ctx)
            ctx.tier = "thorough"
        cmd = "python3 sa/check.py %s --tier %s" % (prop, tier)
        rc = finish(ctx, mod.LEVEL, mod.EXPLANATION, cmd, t0, seed)
        return rc
    except AnalysisError as e:
        from sa.repo import PlumbingViolation
        about = {"allow_list": ("C18",), "blur_usage": ("C16", "C18")}
        if isinstance(e, PlumbingViolation) and prop in about.get(e.role, ()):
            # the property is about this option, and the option is not wired
            mod = importlib.import_module("sa.rules.%s" % prop.lower())
            ctx = Ctx(e.model, prop, tier)
            rule = "R%s.plumb" % prop[1:]
            ctx.rule(rule, "the command-line option reaches the Server slot that the "
                     "behaviour is conditioned on")
            ctx.ob(rule, "option --%s reaches the server" % e.key, False,
                   "src/wormhole_mailbox_server/server_tap.py", "no constructor slot of Server "
                   "is fed from config[%r]: the option the operator sets does not control "
                   "what the server does (%s)" % (e.key, e.detail))
            cmd = "python3 sa/check.py %s --tier %s" % (prop, tier)
            return finish(ctx, mod.LEVEL, mod.EXPLANATION, cmd, t0, seed)
        print("ANALYSIS-ERROR property=%s %s" % (prop, e))
        return 2
    except Exception:
        print("ANALYSIS-ERROR property=%s internal error" % prop)
        traceback.print_exc()
        return 2


if __name__ == "__main__":
    try:
        rc = main(sys.argv)
        sys.stdout.flush()
    except BrokenPipeError:
        rc = 1
    sys.exit(rc)
