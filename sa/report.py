"""Obligations, known findings, evidence, verdict protocol (DESIGN section 4)."""
import json
import os
import re
import time

from .repo import AnalysisError
from .terms import show

VERIF = os.path.dirname(os.path.dirname(os.path.abspath(__file__)))
KNOWN = os.path.join(VERIF, "known_findings.json")
EVIDENCE_DIR = os.environ.get("VERIF_EVIDENCE_DIR") or os.path.join(VERIF, "evidence")


class Obligation(object):
    def __init__(self, rule, construct, ok, site="", detail="", path=None):
        self.rule = rule
        self.construct = construct
        self.ok = ok
        self.site = site
        self.detail = detail
        self.path = path or []

    def key(self):
        return (self.rule, self.construct)

    def as_dict(self):
        d = {"rule": self.rule, "construct": self.construct,
             "verdict": "discharged" if self.ok else "FAILED",
             "site": self.site}
        if self.detail:
            d["detail"] = self.detail
        if self.path and not self.ok:
            d["path"] = self.path[:40]
        return d


def site_of(e):
    s = e.get("site") if isinstance(e, dict) else e
    if isinstance(s, tuple):
        return "%s:%d" % (s[0], s[1])
    return str(s)


def render_event(e):
    k = e["k"]
    s = site_of(e)
    if k == "sql":
        return "%s SQL[%s] %s (%s)" % (s, e["db"], e["stmt"].normalized(),
                                       ", ".join(show(x)[:60] for x in e["params"]))
    if k == "commit":
        return "%s COMMIT[%s]" % (s, e["db"])
    if k == "send":
        from .events import frame_type
        return "%s SEND(%s)" % (s, frame_type(e))
    if k == "call":
        return "%s CALL %s" % (s, e["callee"])
    if k == "raise":
        return "%s RAISE %s" % (s, e["cls"])
    if k == "loop":
        return "%s LOOP over %s" % (s, show(e["iter"])[:60] if e["iter"] else "while")
    if k == "ext":
        return "%s EXT %s" % (s, e["name"])
    if k == "callback":
        return "%s CALLBACK %s" % (s, e["role"])
    if k == "setattr":
        return "%s SET %s.%s = %s" % (s, show(e["obj"])[:30], e["attr"], show(e["value"])[:50])
    if k in ("reg_set", "reg_del", "reg_get"):
        return "%s %s %s[%s]" % (s, k.upper(), show(e["reg"])[:50],
                                 show(e["key"])[:40] if e.get("key") else "")
    return "%s %s" % (s, k.upper())


def render_path(events, limit=60, skip=("ret", "ext", "pure", "benign_if",
                                        "index", "coll_add", "construct")):
    out = []
    for e in events:
        if e["k"] in skip:
            continue
        out.append(render_event(e))
        if len(out) >= limit:
            out.append("...")
            break
    return out


class Ctx(object):
    def __init__(self, model, prop, tier):
        self.model = model
        self.repo = model.repo
        self.prop = prop
        self.tier = tier
        self.obligations = []
        self.notes = []
        self.assumptions = []
        self.counts = {}
        self.rules_text = {}

    def rule(self, rid, text):
        self.rules_text[rid] = text

    def ob(self, rule, construct, ok, site="", detail="", path=None):
        if isinstance(site, dict):
            site = site_of(site)
        elif isinstance(site, tuple):
            site = "%s:%d" % (site[0], site[1])
        o = Obligation(rule, construct, bool(ok), site, detail, path)
        # identical obligations (same rule instance seen on several paths)
        # are merged; a failure wins
        for ex in self.obligations:
            if ex.key() == o.key():
                if ex.ok and not o.ok:
                    ex.ok = False
                    ex.detail = o.detail
                    ex.path = o.path
                    ex.site = o.site
                return ex
        self.obligations.append(o)
        return o

    def require(self, rule, n, minimum, what):
        """role-based minimum instance count: below it the rule would pass
        vacuously, so the analysis is declared broken"""
        self.counts["%s: %s" % (rule, what)] = n
        if n < minimum:
            raise AnalysisError("%s: found %d instance(s) of %s, need >= %d "
                                "(anchor vanished?)" % (rule, n, what, minimum))

    def note(self, text):
        if text not in self.notes:
            self.notes.append(text)

    def assume(self, text):
        if text not in self.assumptions:
            self.assumptions.append(text)


def load_known():
    if not os.path.exists(KNOWN):
        return []
    with open(KNOWN) as f:
        return json.load(f)["findings"]


def _nofunc(c):
    return re.sub(r"[A-Za-z_][\w.<>]*: ", "", c)


def new_failures(ctx):
    """failed obligations that no open known finding accounts for"""
    open_known = [k for k in load_known()
                  if k["property"] == ctx.prop and k.get("status") == "open"]
    out = []
    for o in ctx.obligations:
        if o.ok:
            continue
        if not any(k["rule"] == o.rule and (k["construct"] == o.construct or
                                            _nofunc(k["construct"]) == _nofunc(o.construct))
                   for k in open_known):
            out.append(o)
    return out


def finish(ctx, level, explanation, checker_cmd, t0, seed=0):
    """match failures against the known findings, write the evidence, print the
    verdict lines, return the exit code"""
    known = [k for k in load_known() if k["property"] == ctx.prop]
    open_known = [k for k in known if k.get("status") == "open"]
    failed = [o for o in ctx.obligations if not o.ok]
    new = []
    matched = []
    def nofunc(c):
        # the construct without qualified function names: a finding is
        # identified by its rule and statement / defect kind, so that renaming a
        # private helper does not turn a known finding into a new violation
        return re.sub(r"[A-Za-z_][\w.<>]*: ", "", c)

    for o in failed:
        hit = None
        for k in open_known:
            # the entry naming exactly this construct, else one that differs only
            # in the (renamed) function it sits in
            if k["rule"] == o.rule and k["construct"] == o.construct:
                hit = k
                break
        if hit is None:
            for k in open_known:
                if k["rule"] == o.rule and nofunc(k["construct"]) == nofunc(o.construct):
                    hit = k
                    break
        if hit:
            matched.append((o, hit))
        else:
            new.append(o)
    for (o, k) in matched:
        print("KNOWN-FINDING: property=%s rule=%s construct=%r %s" % (
            ctx.prop, o.rule, o.construct, k["what"]))
    nob = len(ctx.obligations)
    ndis = sum(1 for o in ctx.obligations if o.ok)
    eff_level = level
    if level == "proof" and ndis != nob:
        eff_level = "other"
    samples = [o.as_dict() for o in ctx.obligations[:6]]
    rules_seen = sorted(set(o.rule for o in ctx.obligations))
    by_rule = {}
    for o in ctx.obligations:
        r = by_rule.setdefault(o.rule, {"instances": 0, "discharged": 0})
        r["instances"] += 1
        r["discharged"] += 1 if o.ok else 0
    m = ctx.model
    analysed = {
        "files": m.repo.files_read,
        "entry_points": dict((k, len(v)) for k, v in m._paths.items()),
        "sql_statement_sites": len(m.interp.sql_sites),
        "loops_max_iterations_explored": dict(
            ("%s:%d" % (k[0], k[1]), v) for k, v in m.interp.loop_rounds.items()),
        "instance_counts": ctx.counts,
    }
    cov = {
        "obligations": nob,
        "discharged": ndis,
        "checker_cmd": checker_cmd,
        "trusted_base": [
            "this analyser (sa/*.py): front end, SQL parser, inlining abstract interpreter, rule predicates",
            "python3 ast module",
            "assumptions listed in 'assumptions'",
        ],
        "explanation": explanation,
        "rules": dict((r, ctx.rules_text.get(r, "")) for r in rules_seen),
        "per_rule": by_rule,
        "analysed": analysed,
        "samples": samples,
        "all_obligations": [o.as_dict() for o in ctx.obligations],
        "known_findings_reported": [
            {"rule": o.rule, "construct": o.construct, "what": k["what"]}
            for (o, k) in matched],
        "notes": ctx.notes,
        "selftest": getattr(ctx, "selftest", None),
        "evaluations": nob,
        "distinct_nontrivial": len(set(o.key() for o in ctx.obligations)),
        "rule": "one obligation per (rule, construct) instance found in /repo's "
                "current source; distinct = distinct (rule, construct) keys",
        "exhaustive": True,
    }
    ev = {
        "property_id": ctx.prop,
        "tier": ctx.tier,
        "seed": seed,
        "level": eff_level,
        "coverage": cov,
        "assumptions": ctx.assumptions,
        "wall_s": round(time.time() - t0, 3),
        "violations": len(new),
    }
    os.makedirs(EVIDENCE_DIR, exist_ok=True)
    with open(os.path.join(EVIDENCE_DIR, "%s.json" % ctx.prop), "w") as f:
        json.dump(ev, f, indent=1, sort_keys=True, default=str)
    print("%s tier=%s obligations=%d discharged=%d known=%d new-violations=%d "
          "wall=%.2fs" % (ctx.prop, ctx.tier, nob, ndis, len(matched), len(new),
                          time.time() - t0))
    if new:
        replay = os.path.join(EVIDENCE_DIR, "%s.violation.json" % ctx.prop)
        with open(replay, "w") as f:
            json.dump({"property": ctx.prop,
                       "violations": [o.as_dict() for o in new]}, f, indent=1,
                      default=str)
        for o in new:
            print("  FAILED %s at %s: %s -- %s" % (o.rule, o.site, o.construct,
                                                  o.detail))
        print("VIOLATION property=%s replay=%s" % (ctx.prop, replay))
        return 1
    else:
        vp = os.path.join(EVIDENCE_DIR, "%s.violation.json" % ctx.prop)
        if os.path.exists(vp):
            os.remove(vp)
    return 0
