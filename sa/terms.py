"""Provenance terms: hashable nested tuples.

('const', v) ('param', name) ('attr', obj, name) ('obj', cls, tag)
('sub', base, key) ('call', name, args, kwargs) ('cursor', site)
('row', site) ('rows', site) ('lastrowid', site) ('elem', coll, loopid)
('item', base, idx) ('binop', op, l, r) ('cmp', op, l, r) ('not', x)
('comp', kind, elt, iter, conds, site) ('closure', id) ('tuple', items)
('kwdict', items) ('coll', site, kind) ('cfg', name) ('db', name)
('conn', site, path) ('loopout', loopid, var) ('unknown', why)
('exc', cls, site)
"""


def const(v):
    return ("const", v)


NONE = ("const", None)
TRUE = ("const", True)
FALSE = ("const", False)


def is_const(t):
    return isinstance(t, tuple) and len(t) == 2 and t[0] == "const"


def walk(t):
    """yield every sub-term (tuples whose first item is a str tag)."""
    stack = [t]
    while stack:
        x = stack.pop()
        if isinstance(x, tuple):
            if x and isinstance(x[0], str):
                yield x
            for y in x:
                if isinstance(y, tuple):
                    stack.append(y)


def mentions(t, pred):
    for x in walk(t):
        if pred(x):
            return True
    return False


def strip_wrappers(t):
    """sorted(x) / list(x) / set(x) / tuple(x) / x.values() wrappers are
    transparent for 'what does this collection contain'."""
    while isinstance(t, tuple) and t and t[0] == "call" and \
            t[1] in ("sorted", "list", "set", "tuple", "frozenset", "iter",
                     "reversed") and len(t[2]) >= 1:
        t = t[2][0]
    return t


def strip_subsets(t):
    """like strip_wrappers, and a slice of a collection counts as the
    collection: sound wherever only 'every element of t is an element of the
    result' is used (membership / scoping), not where completeness matters"""
    while True:
        t2 = strip_wrappers(t)
        if isinstance(t2, tuple) and t2 and t2[0] == "slice":
            t2 = t2[1]
        if t2 == t:
            return t
        t = t2


def show(t, depth=0):
    """compact human-readable rendering"""
    if not isinstance(t, tuple) or not t:
        return repr(t)
    k = t[0]
    if depth > 6:
        return "..."
    d = depth + 1
    if k == "const":
        return repr(t[1])
    if k == "param":
        return t[1]
    if k == "attr":
        return "%s.%s" % (show(t[1], d), t[2])
    if k == "obj":
        return "<%s %s>" % (t[1], show(t[2], d) if isinstance(t[2], tuple) else t[2])
    if k == "sub":
        return "%s[%s]" % (show(t[1], d), show(t[2], d))
    if k == "call":
        return "%s(%s)" % (t[1], ", ".join(show(a, d) for a in t[2]))
    if k in ("row", "rows", "cursor", "lastrowid"):
        return "%s@%s" % (k, site_str(t[1]))
    if k == "elem":
        return "elem(%s)" % show(t[1], d)
    if k == "item":
        return "%s.%s" % (show(t[1], d), t[2])
    if k == "binop":
        return "(%s %s %s)" % (show(t[2], d), t[1], show(t[3], d))
    if k == "cmp":
        return "(%s %s %s)" % (show(t[2], d), t[1], show(t[3], d))
    if k == "not":
        return "not %s" % show(t[1], d)
    if k == "comp":
        return "[%s for %s%s]" % (show(t[2], d), show(t[3], d),
                                  "".join(" if " + show(c, d) for c in t[4]))
    if k == "tuple":
        return "(%s)" % ", ".join(show(a, d) for a in t[1])
    if k == "kwdict":
        return "{%s}" % ", ".join("%s: %s" % (a, show(b, d)) for a, b in t[1])
    if k == "cfg":
        return "cfg:%s" % t[1]
    if k == "db":
        return "db:%s" % t[1]
    if k == "coll":
        return "coll@%s" % site_str(t[1])
    if k == "closure":
        return "closure:%s" % (t[1],)
    if k == "idof":
        return "%s.%s{=%s}" % (show(t[1], d), t[2], show(t[3], d))
    if k == "loopvar":
        return "loopout(%s)" % t[2]
    return "%s(%s)" % (k, ", ".join(show(a, d) if isinstance(a, tuple) else repr(a) for a in t[1:]))


def site_str(site):
    if isinstance(site, tuple) and len(site) >= 2:
        return "%s:%s" % (site[0], site[1])
    return str(site)


def plain(t):
    """value view of a term: ('idof', obj, attr, value) -> value"""
    if not isinstance(t, tuple):
        return t
    if t and t[0] == "idof":
        return plain(t[3])
    if t and t[0] in ("const", "merge", "closure", "func", "class", "mod",
                      "builtin", "cfg", "db", "param"):
        return t
    changed = False
    out = []
    for x in t:
        if isinstance(x, tuple):
            y = plain(x)
            if y is not x:
                changed = True
            out.append(y)
        else:
            out.append(x)
    return tuple(out) if changed else t
