"""E1, loops: composite loop events, alternatives explored from every
reachable abstract state (closure), convergence checked."""
import ast
import os
import sys

from .repo import AnalysisError
from .interp import Outcome, NORMAL
from .terms import is_const, mentions

MAX_LOOP_STATES = 48


class LoopMixin(object):

    def st_For(self, node, state, frame):
        if node.orelse:
            raise AnalysisError("for/else not modelled (%s:%d)" % (
                frame.func.module, node.lineno))
        def go(s, it):
            self.refuse_opaque_iteration(it)
            from .terms import strip_wrappers as _sw
            t0 = _sw(it)
            if t0[0] == "call" and t0[1] in (".items", ".keys", ".values") and t0[2]:
                t0 = _sw(t0[2][0])
            if t0[0] in ("dictlit", "kwdict", "tuple") and isinstance(t0[1], tuple) and \
                    len(t0[1]) == 0:
                # a literal empty collection: no iteration
                return [(s, NORMAL)]
            if it[0] == "dbcur" and (it, "#result") in s.heap:
                it = s.heap[(it, "#result")]
            if it[0] == "cursor":
                it = ("rows", it[1])   # iterating a cursor = iterating its rows
            if it[0] == "const" and isinstance(it[1], tuple):
                it = ("tuple", tuple(("const", x) for x in it[1]))
            if it[0] == "tuple" and 0 < len(it[1]) <= 8 and all(is_const(x) for x in it[1]) \
                    and not all(isinstance(x[1], int) and not isinstance(x[1], bool)
                                for x in it[1]) \
                    and not any(isinstance(n, (ast.Break, ast.Continue))
                                for n in ast.walk(node)):
                # (a tuple of plain numbers -- sizes, say -- stays an ordinary loop
                # over its elements; unrolling serves names and SQL fragments)
                return self.unroll(node, s, frame, it[1])
            if it[0] == "tuple" and 0 < len(it[1]) <= 6 and \
                    all(x[0] == "tuple" and x[1] and is_const(x[1][0]) and
                        isinstance(x[1][0][1], str) for x in it[1]) \
                    and not any(isinstance(n, (ast.Break, ast.Continue))
                                for n in ast.walk(node)):
                # a display of (SQL text, parameters) pairs run by a helper
                return self.unroll(node, s, frame, it[1])
            return self.run_loop(node, s, frame, it)
        return self._each(node.iter, state, frame, go)

    def refuse_opaque_iteration(self, it):
        """a local dict filled under computed keys is opaque; a loop over it (or
        its items / keys / values) depends on what it holds: not modelled"""
        from .terms import strip_wrappers
        t = strip_wrappers(it)
        if t[0] == "call" and t[1] in (".items", ".keys", ".values") and t[2]:
            t = strip_wrappers(t[2][0])
        if t[0] == "opaquedict":
            raise AnalysisError("local dict %r is filled under computed keys (%s:%d) and "
                                "iterated: not modelled" % (t[1], t[2], t[3]))

    def st_While(self, node, state, frame):
        if node.orelse:
            raise AnalysisError("while/else not modelled")
        as_for = self._worklist_form(node, frame)
        if as_for is not None:
            return self.st_For(as_for, state, frame)
        return self.run_loop(node, state, frame, None)

    def _worklist_form(self, node, frame):
        """while L: x = L.pop(0) ; <body>   (L a local list that the body does
        not touch otherwise and that is dead after the loop) visits every element
        of L once: it is read as  for x in L: <body>"""
        t = node.test
        if not isinstance(t, ast.Name) or not node.body:
            return None
        first = node.body[0]
        if not (isinstance(first, ast.Assign) and len(first.targets) == 1 and
                isinstance(first.targets[0], ast.Name) and
                isinstance(first.value, ast.Call) and
                isinstance(first.value.func, ast.Attribute) and
                first.value.func.attr == "pop" and
                isinstance(first.value.func.value, ast.Name) and
                first.value.func.value.id == t.id and not first.value.keywords):
            return None
        args = first.value.args
        if len(args) > 1 or (args and not (isinstance(args[0], ast.Constant) and
                                           args[0].value in (0, -1))):
            return None
        front = bool(args) and args[0].value == 0
        L = t.id
        if L in frame.func.params:
            return None
        for st in node.body[1:]:
            for x in ast.walk(st):
                if isinstance(x, ast.Name) and x.id == L:
                    return None
        end = getattr(node, "end_lineno", node.lineno)
        for x in ast.walk(frame.func.node):
            if isinstance(x, ast.Name) and x.id == L and x.lineno > end:
                return None
        it = ast.Name(id=L, ctx=ast.Load()) if front else ast.Call(
            func=ast.Name(id="reversed", ctx=ast.Load()),
            args=[ast.Name(id=L, ctx=ast.Load())], keywords=[])
        new = ast.For(target=first.targets[0], iter=it, body=node.body[1:] or [ast.Pass()],
                      orelse=[], type_comment=None)
        ast.copy_location(new, node)
        ast.fix_missing_locations(new)
        for x in ast.walk(new.iter):
            ast.copy_location(x, node)
        return new

    def unroll(self, node, state, frame, items):
        """for x in (c1, c2, ...): body  -- executed once per constant"""
        res = [(state, NORMAL)]
        saved = self._unroll_tag
        for idx, item in enumerate(items):
            self._unroll_tag = saved * 10 + idx + 1
            nxt = []
            for (s, o) in res:
                if o.kind != "normal":
                    nxt.append((s, o))
                    continue
                for (s1, o1) in self.assign(node.target, item, s, frame, node):
                    nxt.extend(self.exec_block(node.body, s1, frame))
            res = nxt
        self._unroll_tag = saved
        return res

    _func_ranges = None

    def _func_range(self, qualname):
        if self._func_ranges is None:
            self._func_ranges = {}
            for f in self.repo.all_functions():
                self._func_ranges[f.qualname] = (
                    self.repo.modules[f.module].path, f.node.lineno,
                    getattr(f.node, "end_lineno", f.node.lineno))
        return self._func_ranges.get(qualname)

    def _assigned_names(self, node):
        names = set()
        for sub in ast.walk(node):
            if isinstance(sub, ast.Name) and isinstance(sub.ctx, (ast.Store, ast.Del)):
                names.add(sub.id)
        return names

    def _scrub(self, state, loopid, lo, hi, path, start=None, body_events=None):
        # statements executed during this iteration (also inside helpers the
        # body calls): their rows belong to this iteration's element
        body_sites = set()
        callee_ranges = set()   # (path, first line, last line) of functions the body ran
        if body_events is not None:
            from .engine import flat_events
            for x, _ in flat_events(body_events, True, (), True):
                if x["k"] in ("sql", "script", "sql_dynamic"):
                    body_sites.add(x["site"])
                if x["k"] == "call":
                    rng = self._func_range(x["callee"])
                    if rng is not None:
                        callee_ranges.add(rng)

        def local(t):
            if t[0] in ("row", "rows", "cursor", "lastrowid") and t[1] in body_sites:
                return True
            if t[0] == "coll" and isinstance(t[1], tuple) and any(
                    t[1][0] == rp and rlo <= t[1][1] <= rhi
                    for (rp, rlo, rhi) in callee_ranges):
                # a collection created by a helper the body called: it
                # belongs to this iteration
                return True
            if t[0] == "comp" and len(t) >= 6 and isinstance(t[5], tuple) and (
                    (t[5][0] == path and lo < t[5][1] <= hi) or any(
                        t[5][0] == rp and rlo <= t[5][1] <= rhi
                        for (rp, rlo, rhi) in callee_ranges)):
                # a comprehension evaluated during this iteration
                return True
            if t[0] == "elem" and len(t) > 2 and t[2] == loopid:
                return True
            if t[0] == "loopvar" and t[1] == loopid:
                return True
            if t[0] in ("row", "rows", "cursor", "lastrowid", "coll") and \
                    isinstance(t[1], tuple) and t[1][0] == path and lo < t[1][1] <= hi:
                return True
            return False
        for k in [k for k in state.facts if mentions(k, local)]:
            del state.facts[k]
        state.rowfacts = tuple(rf for rf in state.rowfacts
                               if not any(mentions(t, local) for (_, t) in rf[2]))
        state.fresh = tuple(fr for fr in state.fresh if not mentions(fr[2], local))
        for k in [k for k in state.sel if lo <= k[1] <= hi and k[0] == path]:
            del state.sel[k]
        if start is not None:
            # row facts established during the body describe this iteration only
            srf, sfr, ssel = start
            state.rowfacts = tuple(rf for rf in state.rowfacts if rf in srf)
            state.fresh = tuple(fr for fr in state.fresh if fr in sfr)
            for k in [k for k in state.sel if k not in ssel]:
                del state.sel[k]
        state.pc = tuple(c for c in state.pc if not mentions(c[0], local))
        # registry slots keyed by a loop-local value belong to this iteration's
        # element only
        for k in [k for k in state.regs if mentions(k[1], local)]:
            del state.regs[k]

    def _widen(self, s, frame, assigned, loopid, start_env=None, iterterm=None):
        """loop-assigned non-flag variables become stable 'loopvar' terms;
        `v = v + X` accumulators become ('accum', '+', base, X, iter, loop)"""
        env = s.envs[frame.fid]
        for nm in assigned:
            v = env.get(nm)
            if v is not None and v[0] == "opaquedict":
                continue   # already a stable, opaque value
            if v is not None and not (is_const(v) and
                                      isinstance(v[1], (bool, type(None)))):
                acc = None
                if start_env is not None and nm in start_env and v[0] == "binop" \
                        and v[1] == "+":
                    sv = start_env[nm]
                    x = None
                    if v[2] == sv:
                        x = v[3]
                    elif v[3] == sv:
                        x = v[2]
                    if x is not None:
                        base = sv[2] if sv[0] == "accum" and sv[5] == loopid else sv
                        if not (sv[0] == "accum" and sv[5] == loopid and sv[3] != x):
                            acc = ("accum", "+", base, x, iterterm, loopid)
                env[nm] = acc if acc is not None else ("loopvar", loopid, nm)

    def run_loop(self, node, state, frame, iterterm):
        is_for = isinstance(node, ast.For)
        loopid = self.site(frame, node)
        path = loopid[0]
        lo, hi = node.lineno, getattr(node, "end_lineno", node.lineno)
        pre_events = state.events
        alts = []
        loop_ev = {"k": "loop", "site": loopid, "func": frame.func.qualname,
                   "stack": state.stack, "iter": iterterm, "alts": alts,
                   "dirty": state.dirty, "wrote": state.wrote, "pc": state.pc,
                   "handlers": state.handlers, "for": is_for}
        results = []
        exits = {}
        seen = {}
        work = []
        assigned = self._assigned_names(node)
        accums = {}

        exit_classes = {}

        def add_exit(s, iters):
            a = s.abstract(frame)
            exit_classes.setdefault(a, set()).add("zero" if iters == 0 else "some")
            if a not in exits:
                exits[a] = (s, iters)

        def add_iter(s, iters):
            a = s.abstract(frame)
            if a not in seen:
                seen[a] = s
                work.append((s, iters))
                if len(seen) > MAX_LOOP_STATES:
                    if os.environ.get("VERIF_DEBUG_LOOP"):
                        ks = list(seen)
                        for i in range(5):
                            d = set(ks[-1][3]) ^ set(ks[-2][3])
                            f = set(ks[-1][4]) ^ set(ks[-2][4])
                        for ci in range(7):
                            sys.stderr.write("comp %d distinct %d\n" % (ci, len(set(k[ci] for k in ks))))
                        allf = {}
                        for k in ks:
                            for (t, v) in k[4]:
                                allf.setdefault(t, set()).add(v)
                        n = len(ks)
                        for t in allf:
                            c = sum(1 for k in ks if any(tt == t for tt, _ in k[4]))
                            if c != n:
                                sys.stderr.write("fact %s in %d/%d\n" % (str(t)[:200], c, n))
                        sys.stderr.write("LOOP heap diff %r\nfacts diff %r\nrowfacts %r\n" % (
                            sorted(map(str, d))[:6], sorted(map(str, f))[:6],
                            (ks[-1][5] != ks[-2][5], ks[-1][6] != ks[-2][6])))
                    raise AnalysisError(
                        "loop at %s:%d does not converge within %d abstract "
                        "states" % (path, node.lineno, MAX_LOOP_STATES))

        start = state.fork()
        start.events = []
        add_iter(start, 0)
        maxiters = 0
        while work:
            s, iters = work.pop(0)
            maxiters = max(maxiters, iters)
            starts = []
            if is_for:
                add_exit(s, iters)
                b = s.fork()
                b.events = []
                elem = ("elem", iterterm, loopid)
                for (b2, o) in self.assign(node.target, elem, b, frame, node):
                    starts.append(b2)
            else:
                b = s.fork()
                b.events = []
                for (b2, v) in self.branch(node.test, b, frame):
                    if isinstance(v, Outcome):
                        b2.events = pre_events + [loop_ev] + b2.events
                        results.append((b2, v))
                    elif v:
                        starts.append(b2)
                    else:
                        # events of the test evaluation are dropped for exits
                        b2.events = []
                        add_exit(b2, iters)
            for b2 in starts:
                pre_abs = (b2.dirty, b2.wrote)
                npc = len(b2.pc)
                start_env = dict(b2.envs[frame.fid])
                start_rf = (set(b2.rowfacts), set(b2.fresh), set(b2.sel))
                for (s2, o) in self.exec_block(node.body, b2, frame):
                    alt = {"pre": pre_abs, "events": s2.events, "out": o.kind,
                           "post": (s2.dirty, s2.wrote), "pc": s2.pc[npc:]}
                    alts.append(alt)
                    if o.kind in ("normal", "continue"):
                        s2.events = []
                        self._widen(s2, frame, assigned, loopid, start_env, iterterm)
                        for nm in assigned:
                            vv = s2.envs[frame.fid].get(nm)
                            if vv is not None and vv[0] == "accum" and vv[5] == loopid:
                                if nm in accums and accums[nm] != vv:
                                    accums[nm] = ("loopvar", loopid, nm)
                                else:
                                    accums[nm] = vv
                            elif nm in accums:
                                accums[nm] = ("loopvar", loopid, nm)
                        self._scrub(s2, loopid, lo, hi, path, start_rf, alt["events"])
                        add_iter(s2, iters + 1)
                    elif o.kind == "break":
                        s2.events = []
                        self._widen(s2, frame, assigned, loopid)
                        self._scrub(s2, loopid, lo, hi, path, start_rf, alt["events"])
                        add_exit(s2, iters + 1)
                    else:
                        s2.events = pre_events + [loop_ev] + \
                            [{"k": "iter", "site": loopid, "func": frame.func.qualname,
                              "stack": s2.stack, "dirty": s2.dirty, "wrote": s2.wrote,
                              "pc": s2.pc, "handlers": s2.handlers}] + s2.events
                        results.append((s2, o))
        self.loop_rounds[loopid] = max(self.loop_rounds.get(loopid, 0), maxiters)
        from .terms import strip_wrappers
        coll = strip_wrappers(iterterm) if (is_for and iterterm is not None) else None
        for a, (s, iters) in exits.items():
            s.events = pre_events + [loop_ev]
            if coll is not None and coll[0] == "coll" and len(exit_classes.get(a, ())) == 1:
                # a for loop runs at least once iff what it iterates is not
                # empty (only when this exit state is reached in one way)
                self.learn(coll, "some" in exit_classes[a], s)
            env_x = s.envs[frame.fid]
            self._widen(s, frame, assigned, loopid)
            # an accumulator denotes its base value after zero iterations too
            env_x.update(accums)
            results.append((s, NORMAL))
        return results
