"""C07 -- a nameplate lives exactly as long as someone holds it."""
from ..events import (all_events, is_app_id, is_own_mailbox_id, construct_of,
                      handler_paths, handler_for, frame_type, flat_events)
from ..report import render_path
from ..terms import show, plain, is_const, strip_wrappers, mentions
from .. import e3 as e3mod
from .. import scope as scopemod
from .. import guards
from ..repo import AnalysisError

from . import shared

LEVEL = "other"
EXPLANATION = (
    "Decides which statements can end a claim and by which key: every write to "
    "the claim table and every delete of a nameplate row, on every path, is keyed "
    "by a nameplate id with app-scoped provenance (and the claimed-flag update by "
    "nameplate id AND the caller's side); the deletion in release is reached only "
    "on the branch where, in the unfiltered side select taken after the update, "
    "no row is claimed; the `reclaimed` refusal happens before any write; the "
    "release handler answers `released` on every path that passes validation; "
    "close removes only the nameplates of its own mailbox. Listing contents over "
    "histories are not separately decided.")
EXPLANATION += ' Also decided: no start-up statement touches nameplates or claims.'


def is_nameplate_key(sc, t, before):
    """term denotes the row id of one nameplate of this app"""
    t0 = t
    if t[0] == "lastrowid":
        st = sc.interp.sql_sites.get(t[1])
        return st is not None and st.table == "nameplates" and bool(sc.scoped_value(t0, before))
    if t[0] == "sub" and t[2] == ("const", "id"):
        base = t[1]
        site = None
        if base[0] == "row":
            site = base[1]
        elif base[0] == "elem":
            r = strip_wrappers(base[1])
            if r[0] == "rows":
                site = r[1]
        st = sc.interp.sql_sites.get(site) if site else None
        return st is not None and st.table == "nameplates" and bool(sc.scoped_value(t0, before))
    if t[0] == "elem":
        coll = strip_wrappers(t[1])
        if coll[0] == "coll":
            adds = sc.interp.coll_adds.get(coll[1], [])
            return bool(adds) and all(is_nameplate_key(sc, a["elem"], []) for a in adds)
    return False


def run(ctx):
    model = ctx.model
    shared.r_remember(ctx, "R07.remember", "claim", "release",
                      "the side's claim row exists, but its bare `release` is refused (nothing "
                      "remembered): the claim is never ended and the nameplate outlives every "
                      "release")
    from .. import roles as _rm3
    shared.r_nocfg(ctx, "R07.nocfg", _rm3.get(model).release_op,
                   "a released nameplate stays listed (or a claim stays) under the other setting")
    from .. import roles as _rm2
    shared.r_ident(ctx, "R07.ident", (_rm2.get(model).claim_op, _rm2.get(model).release_op),
                   "the name that is stored differs from the name a later release / claim uses")
    shared.r_wire(ctx, "R07.wire")
    shared.r_present(ctx, "R07.present", ("claim", "release"),
                     "a release naming \"\" is refused (or ends the claim on another name) and "
                     "the claim it names stays")
    from .. import roles as _rolesmod
    shared.r_callers(ctx, "R07.callers", _rolesmod.get(model).release_op, ("release",),
                     "a claim is ended although its side sent no release")
    shared.r_collation(ctx, "R07.exact", ('nameplates', 'nameplate_sides'),
                       'releasing one name ends the claim on another')
    shared.r_lookup(ctx, "R07.lookup", ('nameplates', 'nameplate_sides'))
    shared.r_startup(ctx, "R07.startup", ('nameplates', 'nameplate_sides'),
                     "a claim is ended by something other than its own side's release, expiry or the deletion of the mailbox")
    from .. import roles as _roles
    R = _roles.get(model)
    sc = scopemod.get(model)
    ctx.rule("R07.writers", "writes to nameplate_sides / deletes of nameplates are keyed "
             "by an app-scoped nameplate id (claimed-flag update: id AND side)")
    ctx.rule("R07.guard", "release deletes the nameplate only when, after its update, no "
             "side row of that nameplate is claimed")
    ctx.rule("R07.reclaim", "ReclaimedError is raised before any write")
    ctx.rule("R07.answer", "the release handler sends `released` on every path that "
             "passes validation")
    ctx.rule("R07.close", "Mailbox.close deletes nameplates keyed by its own mailbox id only")
    nw = 0
    for site, samples in sorted(sc.samples.items()):
        for (p, e, before) in samples:
            st = e["stmt"]
            if e["db"] != "chan":
                continue
            if st.table == "nameplate_sides" and st.kind in ("insert", "update", "delete"):
                nw += 1
                src = e["src"]
                if st.kind == "insert":
                    key = src["set"].get("nameplates_id")
                    ok = key is not None and is_nameplate_key(sc, key, before)
                    why = "" if ok else "claim row is attached to %s" % show(key)[:60]
                else:
                    ok = False
                    why = ""
                    dnf = src["dnf"]
                    good = True
                    for conj in dnf:
                        hit = False
                        for (col, op, term) in conj:
                            if col == "nameplates_id" and op == "=" and \
                                    is_nameplate_key(sc, term, before):
                                hit = True
                            if col == "nameplates_id" and op == "in" and term[0] == "subselect" \
                                    and term[1] == "nameplates" and tuple(term[2]) == ("id",) \
                                    and term[3] is not None and \
                                    any((c == "mailbox_id" and is_own_mailbox_id(v)) or
                                        (c == "id" and is_nameplate_key(sc, v, before))
                                        for (c, v) in term[3]):
                                hit = True
                        if not hit:
                            good = False
                    ok = good and bool(dnf) and dnf != [[]]
                    if not ok:
                        why = "claim rows are selected by (%s), not by one app-scoped " \
                            "nameplate id: claims on other nameplates (and other apps) " \
                            "are affected" % (st.where.render() if st.where else "nothing")
                    if ok and st.kind == "update" and "claimed" in st.cols:
                        eq = src["where_eq"]
                        ok = eq is not None and set(eq) == {"nameplates_id", "side"}
                        if not ok:
                            why = "the claimed flag is cleared for (%s) instead of exactly " \
                                "(nameplate, side)" % (",".join(sorted(eq)) if eq else
                                                       st.where.render())
                ctx.ob("R07.writers", construct_of(e), ok, e, why,
                       None if ok else render_path(p.events))
            if st.table == "nameplates" and st.kind == "delete":
                nw += 1
                eq = e["src"]["where_eq"]
                ok = False
                why = ""
                if eq is not None and set(eq) == {"id"} and is_nameplate_key(sc, eq["id"], before):
                    ok = True
                elif eq is not None and set(eq) == {"mailbox_id"} and \
                        is_own_mailbox_id(eq["mailbox_id"]):
                    ok = True
                    ctx.ob("R07.close", construct_of(e), e["func"] == R.close_op, e,
                           "" if e["func"] == R.close_op else
                           "nameplates are deleted by mailbox id outside Mailbox.close")
                else:
                    why = "nameplates are deleted by (%s)" % (
                        st.where.render() if st.where else "no WHERE")
                ctx.ob("R07.writers", construct_of(e), ok, e, why)
            if st.table == "nameplates" and st.kind == "update":
                nw += 1
                ctx.ob("R07.writers", construct_of(e), False, e,
                       "a stored nameplate row is rewritten")
    ctx.require("R07.writers", nw, 4, "writes to nameplate_sides / nameplates deletes")
    # R07.close: the close operation removes a nameplate only as part of removing
    # its mailbox -- the transaction that deletes the nameplate rows also deletes
    # the mailboxes row of the operation's own id
    from ..events import linear_segments, seg_sql
    nc = 0
    seen_c = set()
    for en in model.runtime_entries():
        for p in model.paths(en):
            if p.outcome.kind != "return":
                continue       # an internal error: decided by R17.escape / C09
            for seg in linear_segments(p.events, "chan"):
                stmts = list(seg_sql(seg, "chan"))
                dels = [e for e, _l in stmts if e["stmt"].kind == "delete" and
                        e["stmt"].table == "nameplates" and
                        (e["func"] == R.close_op or R.close_op in e["stack"])]
                if not dels:
                    continue
                nc += 1
                with_box = any(
                    e["stmt"].kind == "delete" and e["stmt"].table == "mailboxes" and
                    e["src"]["where_eq"] is not None and
                    set(e["src"]["where_eq"]) == {"id"} and
                    is_own_mailbox_id(e["src"]["where_eq"]["id"])
                    for e, _l in stmts)
                key = (dels[0]["site"], with_box)
                if key in seen_c:
                    continue
                seen_c.add(key)
                ctx.ob("R07.close", construct_of(dels[0]) + " [with its mailbox]", with_box,
                       dels[0], "" if with_box else
                       "%s deletes the nameplate in a transaction that does not delete the "
                       "mailbox: the name disappears (and can be re-claimed onto a new "
                       "mailbox) while nobody released it and its mailbox still exists"
                       % R.close_op, None if with_box else render_path(p.events))
    ctx.require("R07.close", nc, 1, "transactions of the close operation that delete nameplates")
    # R07.guard
    h_rel = handler_for(model, "release")
    ng = 0
    for p in handler_paths(model, h_rel):
        upd = None
        sel_after = {}
        sel_any = {}
        seen_loops = []
        for e, loops in all_events(p):
            if e["k"] == "loop" and not loops:
                seen_loops.append(e)
            if e["k"] != "sql" or e["db"] != "chan":
                continue
            st = e["stmt"]
            if st.table == "nameplate_sides" and st.kind == "update":
                upd = e
            if st.table == "nameplate_sides" and st.kind == "select" and upd is not None:
                sel_after[("rows", e["site"])] = e
            if st.table == "nameplate_sides" and st.kind == "select":
                sel_any[("rows", e["site"])] = e
            if st.table == "nameplates" and st.kind == "delete":
                ng += 1
                cons = construct_of(e) + " [guard]"
                if upd is None:
                    # a repeated release: this side's flag is known to be clear
                    # already (a test of its rows' `claimed` was decided false)
                    own_clear = any(
                        v is False and mentions(t, lambda x: x == ("const", "claimed"))
                        for (t, v, _s) in e["pc"])
                    if own_clear and sel_any:
                        sel_after = dict(sel_any)
                    else:
                        ctx.ob("R07.guard", cons, False, e, "nameplate deleted without first "
                               "clearing this side's claim")
                        continue
                verdict = None
                for rows, sel in sel_after.items():
                    eq = sel["binds"]["where_eq"]
                    if eq is None or set(eq) != {"nameplates_id"} or \
                            not sel["stmt"].plain_rows:
                        continue
                    found, ok, text = guards.guard_verdict(e["pc"][len(sel["pc"]):], rows, "claimed", seen_loops)
                    if found:
                        verdict = (ok, text)
                if verdict is None:
                    # maybe guarded by a select taken before the update / filtered select
                    verdict = (False, "the deletion is not guarded by the claimed flags of an "
                               "unfiltered side select taken after the update")
                ctx.ob("R07.guard", cons, verdict[0], e, verdict[1],
                       None if verdict[0] else render_path(p.events))
    ctx.require("R07.guard", ng, 1, "nameplate deletions on release paths")
    # R07.reclaim
    nr = 0
    for p in model.paths("ws:onMessage"):
        for e, _ in all_events(p, ("raise",)):
            if e["cls"] == "ReclaimedError":
                nr += 1
                ok = not e["wrote"]
                ctx.ob("R07.reclaim", construct_of(e), ok, e,
                       "" if ok else "the refusal comes after stored state was changed",
                       None if ok else render_path(p.events))
    ctx.require("R07.reclaim", nr, 1, "ReclaimedError raise sites reached")
    # the refusal is decided by this side's own claim row being released
    from ..e3 import pc_truth
    for p in model.paths("ws:onMessage"):
        for e, _ in all_events(p, ("raise",)):
            if e["cls"] != "ReclaimedError":
                continue
            own = None
            for x, _ in all_events(p, ("sql",)):
                if x["stmt"].kind == "select" and x["stmt"].table == "nameplate_sides":
                    eq = x["binds"]["where_eq"]
                    if eq is not None and set(eq) == {"nameplates_id", "side"}:
                        own = ("row", x["site"])
            truth = pc_truth(e["pc"])
            ok = own is not None and truth.get(own) is True and \
                truth.get(("sub", own, ("const", "claimed"))) is False
            ctx.ob("R07.reclaim", construct_of(e) + " [condition]", ok, e,
                   "" if ok else "`reclaimed` is not decided by 'this side has a claim row "
                   "on this nameplate and it is released'")
    # R07.answer
    na = 0
    for p in handler_paths(model, h_rel):
        raised = any(e["cls"] == "Error" for e, _ in all_events(p, ("raise",)))
        if raised:
            continue
        na += 1
        sent = [frame_type(e) for e, _ in all_events(p, ("send",))]
        ok = p.outcome.kind == "return" and sent.count("released") == 1
        ctx.ob("R07.answer", "%s: answers released" % h_rel, ok,
               p.events[-1], "" if ok else "a release that passes validation ends with "
               "frames %s (%s)" % (sent, p.outcome.kind), None if ok else render_path(p.events))
    ctx.require("R07.answer", na, 2, "release paths that pass validation")

EXPLANATION += ' Batch 6: the close operation deletes nameplate rows only in the transaction that deletes its own mailbox row; field presence is decided by `in` / `is None` (R07.present); the deletion guard is also recognised in its loop spelling.'
