"""C11 -- restarting the server is invisible to reconnecting clients."""
import ast

from ..events import all_events, handler_of, is_listeners_reg
from ..report import render_path
from .. import e4 as e4mod
from ..repo import dotted

LEVEL = "other"
EXPLANATION = (
    "Decides 'all server state lives in the database' as an inventory plus a "
    "lifetime rule: the process-lifetime mutable state of server.py, "
    "server_websocket.py and web.py (module globals, class-level attributes, "
    "instance attributes of Server/AppNamespace/Mailbox written outside __init__ "
    "or holding containers, lazily created attributes, setattr) must be exactly "
    "the three registries; any further one that is read other than for logging is "
    "reported; connection state is initialised per protocol instance; the "
    "registries may influence behaviour only as get-or-create caches, listener "
    "fan-out and eviction, and every eviction must be holder-safe (rule U), "
    "because an evicted-while-held object makes the kept-server run differ from "
    "the rebuilt-server run. Not decided: full observational equivalence of the "
    "two runs.")
EXPLANATION += ' Also decided: every entry point returns with both databases clean (uncommitted writes are process state), nothing observable happens inside a loop over an object registry unless it is scoped by the listener tables, and a container that is provably a function of the listener tables is exempt from the inventory.'

LIFETIME_CLASSES = ("Server", "AppNamespace", "Mailbox", "WebSocketServerFactory",
                    "PrivacyEnhancedSite", "Root")
CONN_CLASS = "WebSocketServer"
MODS = ("server", "server_websocket", "web")


def _is_log_arg(node, parents):
    p = parents.get(node)
    while p is not None:
        if isinstance(p, ast.Call):
            d = dotted(p.func) or ""
            if d.startswith("log."):
                return True
        if isinstance(p, (ast.stmt,)):
            return False
        p = parents.get(p)
    return False


def run(ctx):
    repo = ctx.repo
    ctx.rule("R11.inv", "process-lifetime mutable state is exactly the registries "
             "Server._apps, AppNamespace._mailboxes, Mailbox._listeners; anything else "
             "that is read (other than for logging) is a violation")
    ctx.rule("R11.conn", "connection state lives in the per-connection protocol "
             "instance and is initialised in its __init__")
    ctx.rule("R11.reg", "registries are get-or-create caches; every eviction is "
             "holder-safe (rule U)")
    interp = ctx.model.interp
    # the listener tables are the one kind of state the property lets live in
    # memory -- *because* each entry is a live connection's subscription.  That
    # holds only while an entry is removed when its connection closes the mailbox
    # or goes away (same rule instances as R02.key)
    ctx.rule("R11.sub", "a listener entry exists only while its connection is subscribed "
             "(rule instances of R02.key): the listener tables hold nothing that a restart "
             "plus reconnects would not rebuild")
    from . import c02 as _c02
    from ..report import Ctx as _Ctx
    _sub = _Ctx(ctx.model, "C02", ctx.tier)
    _c02.run(_sub)
    _ns = 0
    for o in _sub.obligations:
        if o.rule == "R02.key":
            _ns += 1
            ctx.ob("R11.sub", o.construct, o.ok, o.site, o.detail +
                   ("" if o.ok else " -- the kept server goes on treating the mailbox as "
                    "subscribed (the sweep keeps refreshing it) while a server rebuilt from "
                    "the database expires it"))
    ctx.require("R11.sub", _ns, 2, "listener life-cycle obligations")
    expected = set(list(interp.registries.keys()) + [ctx.model.names.listeners])
    found_state = {}
    for mname in MODS:
        mod = repo.modules[mname]
        parents = {}
        for n in ast.walk(mod.tree):
            for c in ast.iter_child_nodes(n):
                parents[c] = n
        # module-level mutable globals
        for node in mod.tree.body:
            if isinstance(node, (ast.Assign, ast.AugAssign, ast.AnnAssign)):
                targets = node.targets if isinstance(node, ast.Assign) else [node.target]
                for t in targets:
                    if isinstance(t, ast.Name):
                        v = node.value
                        mutable = isinstance(v, (ast.Dict, ast.List, ast.Set, ast.ListComp,
                                                 ast.DictComp, ast.SetComp)) or \
                            (isinstance(v, ast.Call) and (dotted(v.func) or "") in (
                                "dict", "set", "list", "collections.defaultdict",
                                "defaultdict", "collections.OrderedDict", "OrderedDict",
                                "collections.Counter", "Counter", "collections.deque",
                                "deque", "itertools.count", "count"))
                        if mutable and isinstance(v, ast.Dict) and v.keys and \
                                all(isinstance(k, ast.Constant) for k in v.keys) and \
                                not interp._module_name_mutated(mod, t.id):
                            # a literal-keyed table nothing stores into: a
                            # constant, not state
                            mutable = False
                        if mutable:
                            found_state[("module " + mname, t.id)] = (mod, node)
        for node in ast.walk(mod.tree):
            if isinstance(node, ast.Global):
                for nm in node.names:
                    found_state[("module " + mname, nm)] = (mod, node)
        for cname, cd in mod.classes.items():
            # class-level attributes holding containers
            for an, v in cd["attrs"].items():
                if isinstance(v, (ast.Dict, ast.List, ast.Set)) or \
                        (isinstance(v, ast.Call) and (dotted(v.func) or "") in
                         ("dict", "set", "list")):
                    found_state[(cname, an)] = (mod, v)
            for meth in cd["methods"].values():
                for node in ast.walk(meth.node):
                    tgt = None
                    if isinstance(node, (ast.Assign, ast.AugAssign)):
                        targets = node.targets if isinstance(node, ast.Assign) else [node.target]
                        for t in targets:
                            base = t
                            while isinstance(base, ast.Subscript):
                                base = base.value
                            if isinstance(base, ast.Attribute) and \
                                    isinstance(base.value, ast.Name) and base.value.id == "self":
                                tgt = (base.attr, node, isinstance(t, ast.Subscript))
                            elif isinstance(base, ast.Attribute) and \
                                    isinstance(base.value, ast.Name) and \
                                    base.value.id in mod.classes:
                                # ClassName.attr = ... : class-level state
                                found_state[(base.value.id, base.attr)] = (mod, node)
                    if isinstance(node, ast.Call) and isinstance(node.func, ast.Name) and \
                            node.func.id == "setattr":
                        found_state[(cname, "<setattr>")] = (mod, node)
                    if tgt is None:
                        continue
                    attr, n, is_sub = tgt
                    if cname == CONN_CLASS:
                        continue
                    if cname not in LIFETIME_CLASSES:
                        continue
                    v = n.value if isinstance(n, ast.Assign) else None
                    container = isinstance(v, (ast.Dict, ast.List, ast.Set)) or \
                        (isinstance(v, ast.Call) and (dotted(v.func) or "") in
                         ("dict", "set", "list", "collections.defaultdict", "defaultdict"))
                    if meth.name != "__init__" or container or is_sub or \
                            isinstance(n, ast.AugAssign):
                        found_state[(cname, attr)] = (mod, n)
    ctx.require("R11.inv", len([k for k in found_state if k in expected]), 3,
                "registries found by the inventory")
    for key, (mod, node) in sorted(found_state.items()):
        if key in expected:
            ctx.ob("R11.inv", "%s.%s is a known registry" % key, True,
                   "%s:%d" % (mod.path, node.lineno))
            continue
        if key == ("PrivacyEnhancedSite", "logRequests") or key[1] in ("logRequests",):
            ctx.ob("R11.inv", "%s.%s (request logging flag)" % key, True,
                   "%s:%d" % (mod.path, node.lineno), "configuration, set once at start-up")
            continue
        if key in e4mod.get(ctx.model).bookkeeping:
            ctx.ob("R11.inv", "%s.%s is holder bookkeeping" % key, True,
                   "%s:%d" % (mod.path, node.lineno), "written by the retention site and "
                   "undone on disconnect (rule U(a)): zero whenever no connection exists, "
                   "in the kept and in the rebuilt server alike")
            continue
        if key[0] in LIFETIME_CLASSES and key in ctx.model.interp.container_attrs():
            from . import shared
            obs = shared.listener_index_obligations(ctx.model, key)
            if obs and all(o[2] for o in obs) and \
                    set(o[0] for o in obs) >= {"i", "ii", "iii"}:
                ctx.ob("R11.inv", "%s.%s is an index derived from the listener tables" % key,
                       True, "%s:%d" % (mod.path, node.lineno), "it grows only with a "
                       "listener registration, shrinks only when a mailbox has no listener "
                       "left and is updated wherever a listener is removed (%d path "
                       "obligations): empty whenever nobody is subscribed, in the kept and "
                       "in the rebuilt server alike" % len(obs))
                continue
        # is it read anywhere other than in logging?
        reads = []
        for m2 in MODS:
            mod2 = repo.modules[m2]
            parents = {}
            for n in ast.walk(mod2.tree):
                for c in ast.iter_child_nodes(n):
                    parents[c] = n
            for n in ast.walk(mod2.tree):
                hit = False
                if key[0].startswith("module "):
                    hit = isinstance(n, ast.Name) and n.id == key[1] and \
                        isinstance(n.ctx, ast.Load)
                else:
                    hit = isinstance(n, ast.Attribute) and n.attr == key[1] and \
                        isinstance(n.ctx, ast.Load)
                    # a Load that is the base of a subscript store / mutator
                    # call is a write, not a read
                    if hit:
                        par = parents.get(n)
                        if isinstance(par, ast.Subscript) and isinstance(par.ctx, ast.Store):
                            hit = False
                        if isinstance(par, ast.Attribute) and par.attr in (
                                "add", "append", "update", "pop", "clear", "remove",
                                "discard", "setdefault") and \
                                isinstance(parents.get(par), ast.Call) and \
                                isinstance(parents.get(parents.get(par)), ast.Expr):
                            hit = False
                if hit and not _is_log_arg(n, parents):
                    reads.append((mod2, n))
        ok = not reads
        how = "only written / logged"
        why = ""
        if reads and not key[0].startswith("module ") and key[1] != "<setattr>":
            # it is read: does anything channel-visible depend on what is read?
            # (value flow into statements / frames / registry keys, and the
            # trace-set comparison of E5 for every decision taken on it)
            from ..e5 import state_influence
            viol, st = state_influence(ctx.model, key[0], key[1])
            if not viol:
                ok = True
                how = ("read at %s:%d, but nothing channel-visible depends on it: no "
                       "statement, frame or registry key carries it (%d events) and the "
                       "projected traces agree for every decision taken on it (%d decisions, "
                       "%d comparisons)" % (reads[0][0].path, reads[0][1].lineno,
                                            st["events"], st["decisions"], st["groups"]))
            else:
                why = " (%s flow in %s: %s)" % (viol[0][0], viol[0][1], viol[0][2][:160])
        ctx.ob("R11.inv", "%s.%s is process-lifetime mutable state" % key, ok,
               "%s:%d" % (mod.path, node.lineno),
               how if ok else
               "state that survives reconnects but not a restart is read at %s:%d: after "
               "a restart the server answers differently from one whose clients merely "
               "reconnected%s" % (reads[0][0].path, reads[0][1].lineno, why))
    # lazily created attributes
    for mname in MODS:
        mod = repo.modules[mname]
        for node in ast.walk(mod.tree):
            if isinstance(node, ast.Call) and isinstance(node.func, ast.Name) and \
                    node.func.id == "hasattr":
                ctx.ob("R11.inv", "lazy attribute via hasattr in %s" % mname, False,
                       "%s:%d" % (mod.path, node.lineno),
                       "attribute created on first use is process-lifetime state")
    # R11.conn
    ent = repo.classes.get(CONN_CLASS)
    init = ent[1]["methods"].get("__init__")
    inits = set()
    if init is not None:
        for n in ast.walk(init.node):
            if isinstance(n, ast.Attribute) and isinstance(n.ctx, ast.Store) and \
                    isinstance(n.value, ast.Name) and n.value.id == "self":
                inits.add(n.attr)
    nconn = 0
    for meth in ent[1]["methods"].values():
        if meth.name == "__init__":
            continue
        for n in ast.walk(meth.node):
            if isinstance(n, ast.Attribute) and isinstance(n.ctx, ast.Store) and \
                    isinstance(n.value, ast.Name) and n.value.id == "self":
                nconn += 1
                ok = n.attr in inits or n.attr in ("_reactor",)
                ctx.ob("R11.conn", "%s.%s initialised per connection" % (CONN_CLASS, n.attr),
                       ok, "%s:%d" % (ent[0].path, n.lineno),
                       "" if ok else "connection attribute is not initialised in __init__")
    for an, v in ent[1]["attrs"].items():
        if isinstance(v, (ast.Dict, ast.List, ast.Set)):
            ctx.ob("R11.conn", "%s.%s class-level container" % (CONN_CLASS, an), False,
                   "%s:%d" % (ent[0].path, v.lineno), "shared by all connections")
    ctx.require("R11.conn", nconn, 5, "connection attribute stores in handlers")
    # R11.regdep: nothing observable may be control-dependent on whether an
    # object happens to be cached in an object registry
    _regdep(ctx)
    _durable(ctx)
    _sweep_inputs(ctx)
    # R11.reg
    e4 = e4mod.get(ctx.model)
    for f in e4.findings:
        if f.kind == "rule_u" and not ctx.model.is_timer_entry(e4.entry_of(f)):
            # evictions performed by client commands happen identically in the
            # kept-server and the rebuilt-server run (all connections were
            # dropped at the restart point); only timer-driven evictions can
            # tell the two runs apart
            continue
        ctx.ob("R11.reg", f.construct, f.ok, f.site, f.detail)
    ctx.require("R11.reg", len(e4.findings), 8, "registry rule instances")


def _sweep_inputs(ctx):
    """What the sweep is told (the current time, the cutoff) may depend on the
    clock read when the timer fires and on constants -- not on values fixed when
    the process started (a start-up timestamp captured by the timer callable):
    those differ between a server that kept running and one that was rebuilt."""
    from .. import roles as rolesmod
    from ..events import each_event
    from ..terms import walk, show
    model = ctx.model
    ctx.rule("R11.sweep", "the arguments of the sweep depend only on the clock read inside "
             "the timer callable and on constants")
    fi = model.timer_fi()
    mod = ctx.repo.modules[fi.module]
    lo, hi = fi.node.lineno, getattr(fi.node, "end_lineno", fi.node.lineno)
    R = rolesmod.get(model)
    n = 0
    seen = set()
    # clock / random reads that were executed while the service was being
    # built (before the timer ever fires)
    startup_sites = set()
    for sp in model.paths("tap:makeService"):
        for x, _ in all_events(sp, ("ext",)):
            startup_sites.add(x["site"])
    for p, e, loops in each_event(model, ["timer"], ("call",)):
        if e["callee"] != R.sweep_all:
            continue
        n += 1
        for a in list(e["args"]) + [v for _, v in e.get("kwargs", ())]:
            for x in walk(a):
                bad = None
                if x[0] == "call" and len(x) > 4 and isinstance(x[4], tuple):
                    site = x[4]
                    if site in startup_sites:
                        bad = "%s read at %s:%d" % (x[1], site[0], site[1])
                if x[0] in ("param",) or (x[0] == "unknown"):
                    bad = "the value %s" % show(x)[:40]
                    if x[0] == "param" and x[1] in ("config", "options"):
                        # the command line is the same for a restarted server
                        bad = None
                if bad and bad not in seen:
                    seen.add(bad)
                    ctx.ob("R11.sweep", "sweep argument depends on %s" % bad, False, e,
                           "the sweep's now / cutoff is computed from %s, a value fixed outside "
                           "the timer callable (at process start): a server that was restarted "
                           "sweeps with a different cutoff than one that kept running" % bad)
    ctx.ob("R11.sweep", "sweep arguments come from the timer callable's own clock reading",
           not seen, "", "%d sweep calls" % n)
    ctx.require("R11.sweep", n, 1, "calls of the sweep from the timer callable")


def _has_listener(c):
    """the path condition c holds when the listener table is NOT empty"""
    t, b, _s = c
    pos = True
    while t[0] in ("not", "truth"):
        if t[0] == "not":
            pos = not pos
        t = t[1]
    if t[0] == "reg":
        return b == pos
    if t[0] == "cmp" and t[2][0] == "call" and t[2][1] == "len" and t[3] == ("const", 0) \
            and t[1] in ("==", ">", "!="):
        nonempty_truth = {"==": False, ">": True, "!=": True}[t[1]]
        return b == (nonempty_truth if pos else not nonempty_truth)
    if t[0] == "cmp" and t[2][0] == "call" and t[2][1] == "len" and t[3] == ("const", 1) \
            and t[1] == ">=":
        return b == pos
    return False


def _durable(ctx):
    from . import shared
    shared.r_durable(ctx, "R11.durable", ("chan", "usage"),
                     "the kept server answers later commands from them, the rebuilt one "
                     "has lost them")


def _regdep(ctx):
    from ..events import each_event, frame_type, construct_of
    from ..e3 import pc_truth
    from ..terms import walk
    model = ctx.model
    interp = model.interp
    ctx.rule("R11.regdep", "no stored-state change, frame or raise is control-dependent "
             "on whether an object is cached in Server._apps / AppNamespace._mailboxes "
             "(the caches are empty after a restart; only listener sets may matter)")
    regs = set(interp.registries.keys())
    occ = {}
    for p, e, loops in each_event(model, model.runtime_entries(),
                                  ("sql", "commit", "send", "raise")):
        if e["k"] == "sql" and not e["stmt"].mutating:
            continue
        if e["k"] == "commit" and not e.get("was_dirty"):
            continue
        if e["k"] == "raise":
            # an exception that is caught right away (try: R[k] except KeyError)
            # is control flow, not an observable event
            flat = [x for x, _ in all_events(p)]
            try:
                i = next(j for j, x in enumerate(flat) if x is e)
            except StopIteration:
                i = None
            if i is not None and i + 1 < len(flat) and flat[i + 1]["k"] == "catch" and \
                    flat[i + 1]["cls"] == e["cls"]:
                continue
        pol = {}
        for tt, v in pc_truth(e["pc"]).items():
            for x in walk(tt):
                if x[0] == "reg" and x[1][0] == "obj" and (x[1][1], x[2]) in regs:
                    # only direct membership / emptiness tests
                    if tt[0] == "cmp" and tt[1] == "in" and tt[3] == x:
                        pol.setdefault((x[1][1], x[2]), set()).add(v)
                    elif tt == x:
                        pol.setdefault((x[1][1], x[2]), set()).add(v)
        key = (e["k"], e["site"], e["stack"])
        ent = occ.setdefault(key, {"event": e, "pols": []})
        ent["pols"].append(pol)
    n = 0
    for key, ent in occ.items():
        for r in regs:
            vals = [frozenset(pl.get(r, ())) for pl in ent["pols"]]
            if not vals or any(len(v) == 0 for v in vals):
                continue
            allv = set()
            for v in vals:
                allv |= v
            if len(allv) == 1:
                n += 1
                e = ent["event"]
                what = construct_of(e) if e["k"] != "send" else "%s: send(%s)" % (
                    e["stack"][-2] if len(e["stack"]) > 1 else e["func"], frame_type(e))
                ctx.ob("R11.regdep", "%s depends on %s.%s" % (what, r[0], r[1]), False, e,
                       "this happens only when the key is %s the in-memory registry: a "
                       "server rebuilt from the database (empty registry) behaves "
                       "differently from one that was kept running" % (
                           "in" if True in allv else "not in"))
    # loops over an object registry: what they do may depend on nothing but
    # the listener tables (empty in both runs after the restart point)
    from ..terms import strip_wrappers, mentions
    nloops = [0]

    def reg_of_iter(it):
        if it is None:
            return None
        t = strip_wrappers(it)
        if t[0] == "call" and t[1] in (".values", ".keys", ".items") and t[2]:
            t = t[2][0]
        if t[0] == "reg" and t[1][0] == "obj" and (t[1][1], t[2]) in regs:
            return (t[1][1], t[2])
        return None

    def walk_alt(events, base_pc_len, r, loop_ev):
        for x in events:
            if x["k"] == "loop":
                it = strip_wrappers(x["iter"]) if x.get("iter") else None
                inner = it
                if inner is not None and inner[0] == "call" and inner[2]:
                    inner = inner[2][0]
                if inner is not None and is_listeners_reg(inner):
                    continue        # per listener: vanishes with the restart
                for alt in x["alts"]:
                    walk_alt(alt["events"], base_pc_len, r, loop_ev)
                continue
            obs = (x["k"] == "sql" and x["stmt"].mutating) or \
                (x["k"] == "commit" and x.get("was_dirty")) or x["k"] in ("send", "raise")
            if not obs:
                continue
            # decided "this mailbox has a listener" (not merely tested)
            scoped = any(mentions(c[0], is_listeners_reg) and _has_listener(c)
                         for c in x["pc"][base_pc_len:])
            if not scoped:
                what = construct_of(x) if x["k"] != "send" else "send(%s)" % frame_type(x)
                ctx.ob("R11.regdep", "%s inside a loop over %s.%s" % (what, r[0], r[1]),
                       False, x, "the loop at %s:%d runs once per object cached in %s.%s: a "
                       "server rebuilt from the database has none, so this happens only in "
                       "the server that was kept running" % (
                           loop_ev["site"][0], loop_ev["site"][1], r[0], r[1]))

    seen_loops = set()
    for p, e, loops in each_event(model, model.runtime_entries(), ("loop",)):
        if id(e) in seen_loops:
            continue
        seen_loops.add(id(e))
        r = reg_of_iter(e.get("iter"))
        if r is None:
            continue
        nloops[0] += 1
        for alt in e["alts"]:
            walk_alt(alt["events"], len(e["pc"]), r, e)
    ctx.ob("R11.regdep", "loops over object registries analysed", True, "",
           "%d loops" % nloops[0])
    ctx.require("R11.regdep", nloops[0], 1, "loops over an object registry")
    ctx.ob("R11.regdep", "observable events analysed", True, "", "%d sites" % len(occ))
    ctx.counts["R11.regdep: observable event sites"] = len(occ)

EXPLANATION += ' Batch 6: R11.sub carries the listener life-cycle obligations of R02.key, the justification for treating the listener tables as re-established state.'
