"""C16 -- blurred usage timestamps never reveal exact client times."""
import ast

from ..events import all_events, construct_of
from ..terms import show, is_const, mentions
from ..e3 import pc_truth
from ..repo import AnalysisError, dotted
from . import shared

LEVEL = "proof"
EXPLANATION = (
    "Sanitiser dominance on the inlined data flow: every INSERT on the usage "
    "database that binds a client-activity timestamp column (started of the "
    "nameplate and mailbox records, connect_time of the client-version record; "
    "enumerated from the usage schema) is examined on every path and, for values "
    "merged over the branches of the pure summarisers, on every branch: with the "
    "blur predicate true the bound value is b * (t // b) (either operand order) "
    "with b the plumbed blur attribute; a path that writes such a column without "
    "consulting the blur predicate is a violation. The blur option is parsed to "
    "int and plumbed slot by slot to the namespaces (R-plumb). The arithmetic "
    "fact b*floor(t/b) <= t < b*floor(t/b)+b for b>0 is mathematics and is not "
    "checked.")
EXPLANATION += ' The value that is rounded down must be a recorded time (the clock, a stored `added`, an order statistic of them): arithmetic or a rounding function before the floor is reported.'

BLUR = ("cfg", "blur_usage")
SINK_COLS = {"nameplates": ("started",), "mailboxes": ("started",),
             "client_versions": ("connect_time",)}


def blur_form(v):
    """v == b * (t // b) -> t, else None"""
    if v[0] == "binop" and v[1] == "*":
        for a, b in ((v[2], v[3]), (v[3], v[2])):
            if a == BLUR and b[0] == "binop" and b[1] == "//" and b[3] == BLUR:
                return b[2]
    return None


# int / floor / float keep floor(t / b) unchanged for an integer interval b
TIME_CALLS = ("time.time", "sorted", "min", "list", "tuple", ".get", "int", "float",
              "math.floor", "floor")


def _stored_sources(interp, raw, out):
    """(table, column) of the channel rows a rounded value is read from"""
    from ..terms import walk
    for x in walk(raw):
        if x[0] == "sub" and x[2][0] == "const" and isinstance(x[2][1], str):
            for y in walk(x[1]):
                if y[0] in ("rows", "row") and len(y) > 1:
                    st = interp.sql_sites.get(y[1])
                    if st is not None and st.kind == "select":
                        out.add((st.table, x[2][1]))


def _not_a_recorded_time(raw):
    """The blur must be applied to a time as it was taken or stored: the clock,
    a stored `added` value or an order statistic of them.  Arithmetic or a
    rounding function in between (round, int, ceil, + offset ...) moves the
    value across interval boundaries before it is rounded down."""
    from ..terms import walk
    for x in walk(raw):
        if x[0] == "binop":
            return "arithmetic (%s) is applied before the rounding" % x[1]
        if x[0] == "call" and x[1] not in TIME_CALLS:
            return "%s() is applied before the rounding" % x[1]
    return None


def _client_time_in(model, e):
    """what in the bound values of usage statement `e` derives from client
    activity (None if nothing does)"""
    from ..terms import walk
    from ..events import each_event
    stmts = getattr(model, "_stmt_by_site", None)
    if stmts is None:
        stmts = {}
        for _p, x, _l in each_event(model, model.runtime_entries(), ("sql",)):
            stmts[x["site"][:2]] = x
        model._stmt_by_site = stmts
    for col, v in sorted(e["binds"]["set"].items()):
        for x in walk(v):
            if not isinstance(x, tuple) or not x:
                continue
            if x[0] == "call" and x[1] == "time.time" and len(x) >= 5 and \
                    "websocket" in str(x[4][0]):
                return "in `%s` the clock read at the arrival of a client message" % col
            if x[0] in ("row", "rows", "cursor") and len(x) >= 2 and isinstance(x[1], tuple):
                src = stmts.get(x[1][:2])
                if src is not None and src["db"] == "chan" and not all(
                        c == "COUNT()" for c in src["stmt"].cols):
                    return "in `%s` data read from the channel database (%s)" % (
                        col, src["stmt"].normalized()[:60])
            if x[0] == "param" or (x[0] == "attr" and isinstance(x[2], str) and
                                   x[2] in ("server_rx",)):
                return "in `%s` a value handed in by a caller (%s)" % (col, show(x)[:40])
    return None


def run(ctx):
    model = ctx.model
    interp = model.interp
    ctx.rule("R16.sinks", "every usage INSERT binding started / connect_time")
    ctx.rule("R16.dom", "with blur configured the bound value is b*(t//b) on every "
             "path and branch")
    ctx.rule("R16.plumb", "--blur-usage -> int -> makeService -> make_server -> Server "
             "-> AppNamespace, slot by slot")
    usage = ctx.repo.usage_schema()
    for tbl, cols in SINK_COLS.items():
        t = usage.tables.get(tbl)
        if t is None or any(c not in t.colnames() for c in cols):
            raise AnalysisError("R16.sinks: usage schema lacks %s.%s" % (tbl, cols))
    nsinks = 0
    first_cols = set()
    seen_tables = set()
    from ..events import each_event
    if True:
        if True:
            for p, e, loops in each_event(model, model.runtime_entries(), ("sql",)):
                if e["db"] != "usage" or e["stmt"].kind not in ("insert", "update"):
                    continue
                tbl = e["stmt"].table
                for col in SINK_COLS.get(tbl, ()):
                    if col not in e["binds"]["set"]:
                        continue
                    nsinks += 1
                    seen_tables.add(tbl)
                    v = e["binds"]["set"][col]
                    from ..events import expand_merges
                    alts = expand_merges(interp, v, tuple(e["pc"]))
                    bad = None
                    for (pc, val) in alts:
                        pol = pc_truth(pc).get(BLUR)
                        if pol is None:
                            bad = "the value %s is written without consulting the blur " \
                                "setting" % show(val)[:60]
                            break
                        if pol:
                            raw = blur_form(val)
                            if raw is None:
                                bad = "with blur configured the stored value is %s, not " \
                                    "blur*(t//blur)" % show(val)[:80]
                                break
                            if mentions(raw, lambda x: x == BLUR):
                                bad = "odd blur expression %s" % show(val)[:80]
                                break
                            _stored_sources(interp, raw, first_cols)
                            odd = _not_a_recorded_time(raw)
                            if odd:
                                bad = "the value that is rounded down is %s: %s, so the " \
                                    "stored time is not the true time rounded DOWN to the " \
                                    "interval" % (show(raw)[:60], odd)
                                break
                    ctx.ob("R16.dom", "%s.%s at %s" % (tbl, col, construct_of(e)),
                           bad is None, e, bad or "")
    ctx.require("R16.sinks", nsinks, 3, "usage INSERTs binding a timestamp column")
    # R16.first: a stored arrival time that a record's start is computed from is
    # the time of the *first* arrival only if it is written once, when its row
    # is created: an UPDATE of that column moves the start to a later arrival
    ctx.rule("R16.first", "the stored arrival times that `started` is rounded from are "
             "written only by the INSERT that creates their row")
    nfirst = 0
    for (tbl, col) in sorted(first_cols):
        nfirst += 1
        ups = [e for _p, e, _l in each_event(model, model.runtime_entries(), ("sql",))
               if e["db"] == "chan" and e["stmt"].kind == "update" and
               e["stmt"].table == tbl and col in e["stmt"].cols]
        ctx.ob("R16.first", "`%s`.`%s` is never rewritten" % (tbl, col), not ups,
               ups[0] if ups else "", "" if not ups else
               "%s rewrites the arrival time a usage record's start is computed from: the "
               "recorded start is then a later arrival, not the true start rounded down"
               % construct_of(ups[0]))
    ctx.require("R16.first", nfirst, 2, "stored arrival-time columns feeding `started`")
    for tbl in SINK_COLS:
        ctx.ob("R16.sinks", "records of usage `%s` are written somewhere" % tbl,
               tbl in seen_tables, "", "" if tbl in seen_tables else
               "no INSERT into usage `%s` reached: the sink enumeration is incomplete" % tbl)
    # any other usage column fed by a raw client time?  (a new record path)
    if True:
        if True:
            for p, e, loops in each_event(model, model.runtime_entries(), ("sql",)):
                if e["db"] != "usage" or e["stmt"].kind != "insert":
                    continue
                tbl = e["stmt"].table
                if tbl in SINK_COLS or tbl == "current":
                    continue
                # a further usage table is fine as long as nothing it stores is
                # (derived from) a client-activity time: the clock read when a
                # client message arrives, or anything a channel row holds other
                # than a COUNT
                why = _client_time_in(model, e)
                ctx.ob("R16.sinks", "further usage table written: %s" % construct_of(e),
                       why is None, e, "no bound value derives from a client arrival time "
                       "or from stored channel data" if why is None else
                       "a usage record outside the enumerated sinks stores %s, which is not "
                       "known to be blurred" % why)
    # R16.plumb
    shared.r_plumb(ctx)
    for o in ctx.obligations:
        if o.rule == "R-plumb":
            o.rule = "R16.plumb"
    ctx.rules_text["R16.plumb"] = ctx.rules_text.get("R-plumb", "")
    tap = ctx.repo.modules["server_tap"]
    opt = ctx.repo.method("Options", "opt_blur_usage")
    ok = False
    if opt is not None:
        # locals that hold int(...) (the conversion may be validated before it
        # is stored)
        int_names = set()
        other = set()
        for n in ast.walk(opt.node):
            if isinstance(n, ast.Assign) and len(n.targets) == 1 and \
                    isinstance(n.targets[0], ast.Name):
                if isinstance(n.value, ast.Call) and dotted(n.value.func) == "int":
                    int_names.add(n.targets[0].id)
                else:
                    other.add(n.targets[0].id)
        int_names -= other
        for n in ast.walk(opt.node):
            if isinstance(n, ast.Assign) and isinstance(n.targets[0], ast.Subscript) and \
                    ((isinstance(n.value, ast.Call) and dotted(n.value.func) == "int") or
                     (isinstance(n.value, ast.Name) and n.value.id in int_names)):
                k = n.targets[0].slice
                if isinstance(k, ast.Constant) and k.value == "blur-usage":
                    ok = True
    ctx.ob("R16.plumb", "Options.opt_blur_usage stores int(arg) under 'blur-usage'", ok,
           tap.path, "" if ok else "the option is not parsed to an integer")
    ctx.assume("b * floor(t / b) <= t < b * floor(t / b) + b for every b > 0 (arithmetic)")
    ctx.assume("`//` on the stored times is floor division (int or float operands)")

EXPLANATION += ' Batch 6: the stored arrival times that `started` is rounded from are never the target of an UPDATE (R16.first).'
