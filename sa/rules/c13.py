"""C13 -- idle channels are swept completely and the store returns to empty."""
import ast

from ..events import (all_events, construct_of, handler_paths, handler_for,
                      flat_events)
from ..report import render_path
from ..terms import show, plain, is_const, strip_wrappers, mentions, walk
from .. import e3 as e3mod
from .. import e4 as e4mod
from ..repo import AnalysisError, dotted
from .c04 import fold

from . import shared

LEVEL = "other"
EXPLANATION = (
    "Decides completeness of the sweep: classification is exhaustive (every "
    "mailbox row lands in exactly one set); for an old mailbox one transaction "
    "deletes from all five tables; the set of apps swept is the union of the app "
    "ids of every channel table that has an app_id column, read from the database "
    "(not from the in-memory registry), and the loop reaches the per-app sweep on "
    "every iteration; nothing can be stored out of the sweep's reach (rows of "
    "`messages`, reachable only through their mailbox, are inserted only through "
    "handles that rule U(b) invalidates when the mailbox row dies); the timer is "
    "attached to the returned service with a constant period and the sweep call "
    "sits in a try/except Exception that does not re-raise; no may-raise site in "
    "the sweep. Not decided: wall-clock behaviour of the LoopingCall.")
EXPLANATION += ' Also decided: no parent INSERT is silently skipped (conflict clause on a key wider than one app), and no registry deletion in the sweep can raise KeyError.'

FIVE = ("nameplate_sides", "nameplates", "messages", "mailbox_sides", "mailboxes")


def _unloop(t):
    """the term with loop identities of element terms removed, so that the same
    condition on 'the current row' compares equal across two loops"""
    if not isinstance(t, tuple):
        return t
    if t and t[0] == "elem" and len(t) == 3:
        return ("elem", _unloop(t[1]), None)
    return tuple(_unloop(x) for x in t)


def _deleting_loop(loop_ev):
    """a loop of the sweep in (or under) which channel rows are deleted"""
    for alt in loop_ev["alts"]:
        for x, _ in flat_events(alt["events"]):
            if x["k"] == "sql" and x["db"] == "chan" and x["stmt"].kind == "delete":
                return True
    return False


def _in_sweep(e, R):
    """the per-app sweep itself or a helper method of the same class that it calls"""
    if e["func"] == R.sweep_app:
        return True
    cls = R.sweep_app.split(".")[0]
    return R.sweep_app in e["stack"] and e["func"].split(".")[0] == cls


def run(ctx):
    model = ctx.model
    shared.import_rule(ctx, "C06", ("R06.scope",), "R13.scope",
                       "every statement of a namespace is confined to its own app (same rule "
                       "instances as R06.scope)",
                       "rows are attached to or shared with another app's mailbox: the owning "
                       "app's sweep deletes the mailbox under the other app's subscriber, whose "
                       "later rows (messages without a mailbox) no sweep ever finds", minimum=10)
    shared.r_collation(ctx, "R13.exact", FIVE,
                       "the sweep enumerates application ids / channel ids that are no "
                       "longer the strings it stored (mixed types cannot be ordered, keyed "
                       "deletes miss their rows)")
    shared.r_full_loops(ctx, "R13.all", "idle channels beyond that point survive the sweep "
                        "that should have removed them", only=_deleting_loop)
    shared.r_convert(ctx, "R13.convert", ["timer"],
                     "the sweep stops with ValueError at the first name it cannot convert; "
                     "the apps after it are not swept")
    shared.r_durable(ctx, "R13.durable", ("chan",),
                     "what the sweep deleted is still in the database file (another connection, a restart)")
    ctx.rule("R13.timer", "TimerService(constant period, f) is parented to the returned "
             "service; f wraps the sweep in try/except Exception without re-raise")
    if not model.timer_info():
        # makeService reached its end (paths exist) without scheduling the sweep
        npaths = len(model.paths("tap:makeService"))
        ctx.ob("R13.timer", "the sweep is scheduled by makeService", False, "",
               "no TimerService(...) call is reachable in makeService (%d paths): expired "
               "channels are never swept" % npaths)
        return
    from .. import roles as _roles
    try:
        R = _roles.get(model)
    except AnalysisError as exc:
        if "does not reach a per-app sweep" in str(exc) and model.paths("timer"):
            # the timer callable was analysed (its paths exist) and calls no sweep
            ctx.ob("R13.timer", "the timer callable runs the sweep", False, "",
                   "%s: expired channels are never swept" % exc)
            return
        raise
    interp = model.interp
    ctx.rule("R13.exh", "every mailbox row is classified into exactly one set")
    ctx.rule("R13.cover", "an old mailbox is deleted from all five tables in one "
             "transaction")
    ctx.rule("R13.apps", "the swept app set is read from every channel table with an "
             "app_id column; the loop reaches the per-app sweep on every iteration")
    ctx.rule("R13.reach", "rows reachable only through their mailbox are inserted only "
             "through live handles (rule U(b))")
    ctx.rule("R13.timer", "TimerService(constant period, f) is parented to the returned "
             "service; f wraps the sweep in try/except Exception without re-raise")
    ctx.rule("R13.noraise", "no may-raise site in the sweep")
    timer = model.paths("timer")
    # R13.exh
    nexh = 0
    done = set()
    by_rows = {}      # rows term of a SELECT FROM mailboxes -> loops over it
    for p in timer:
        for e, loops in all_events(p, ("loop",)):
            if id(e) in done or not _in_sweep(e, R) or not e["iter"]:
                continue
            done.add(id(e))
            it = strip_wrappers(e["iter"])
            if it[0] == "rows":
                st = interp.sql_sites.get(it[1])
                if st is not None and st.table == "mailboxes":
                    by_rows.setdefault(it, []).append((p, e))
    for it, lps in sorted(by_rows.items(), key=lambda kv: kv[0][1]):
        st = interp.sql_sites.get(it[1])
        adding = []       # (loop, alt, [coll_add events]) of iterations that classify
        for (p, e) in lps:
            for alt in e["alts"]:
                adds = [x for x, _ in flat_events(alt["events"]) if x["k"] == "coll_add"]
                if adds or len(set(x["site"] for (_p, x) in lps)) == 1:
                    adding.append((e, alt, adds))
        if not any(adds for (_e, _a, adds) in adding):
            continue          # loops that only report (no classification here)
        nexh += 1
        e0 = adding[0][0]
        one_loop = len(set(e["site"] for (e, _a, _x) in adding)) == 1
        if one_loop:
            # the explicit form: every iteration of the one classifying loop
            # puts the row in exactly one set
            for (e, alt, adds) in adding:
                ok = len(adds) == 1 and alt["out"] == "normal"
                ctx.ob("R13.exh", "every mailbox row lands in exactly one set", ok, e,
                       "" if ok else "an iteration adds the mailbox to %d sets: idle "
                       "mailboxes can be skipped forever" % len(adds))
        else:
            # several passes over the same rows (filtering comprehensions): the
            # conditions under which a pass keeps the row must be complementary
            def lits(alt):
                out = []
                for (t, b, _s) in alt["pc"]:
                    while t[0] in ("not", "truth"):
                        if t[0] == "not":
                            b = not b
                        t = t[1]
                    out.append((_unloop(t), b))
                return out
            conds = []
            seen_c = set()
            for (e, alt, adds) in adding:
                if not adds:
                    continue
                k = (e["site"], tuple(lits(alt)))
                if k in seen_c:
                    continue
                seen_c.add(k)
                conds.append((lits(alt), adds))
            ok = len(conds) == 2 and all(len(c) == 1 and len(a) == 1 for c, a in conds) and \
                conds[0][0][0][0] == conds[1][0][0][0] and \
                conds[0][0][0][1] != conds[1][0][0][1] and \
                conds[0][1][0]["coll"] != conds[1][1][0]["coll"] and \
                all(alt["out"] == "normal" for (_e, alt, _x) in adding)
            ctx.ob("R13.exh", "every mailbox row lands in exactly one set", ok, e0,
                   "" if ok else "the passes over the mailbox rows keep a row under "
                   "conditions that are not complementary: some rows land in no set (idle "
                   "mailboxes can be skipped forever) or in both")
        # the select is keyed by the app only
        p = lps[0][0]
        sel = None
        for x, _ in all_events(p, ("sql",)):
            if x["site"] == it[1]:
                sel = x
        eq = sel["binds"]["where_eq"] if sel else None
        ok = eq is not None and set(eq) == {"app_id"}
        ctx.ob("R13.exh", "classification reads all mailboxes of the app", ok,
               sel or e0, "" if ok else "classification select is %s" %
               st.normalized())
    ctx.require("R13.exh", nexh, 1, "classification loops")
    # R13.cover
    ncov = 0
    for (p, e, prior, later, loops) in e3mod.walk_transactions(model, ["timer"]):
        st = e["stmt"]
        if st.kind == "delete" and st.table == "mailboxes":
            ncov += 1
            tables = set(x["stmt"].table for x in e3mod.sql_in(prior)
                         if x["stmt"].kind == "delete")
            tables.add("mailboxes")
            missing = [t for t in FIVE if t not in tables]
            ctx.ob("R13.cover", "%s: sweep transaction deletes all five tables" % e["func"],
                   not missing, e, "" if not missing else
                   "the sweep leaves rows of %s behind" % missing)
    ctx.require("R13.cover", ncov, 1, "mailbox deletions in the sweep")
    # R13.apps
    chan = ctx.repo.channel_schema()
    app_tables = sorted(t.name for t in chan.tables.values() if "app_id" in t.colnames())
    napps = 0
    for p in timer[:4]:
        for e, loops in all_events(p, ("loop",)):
            if e["func"] != R.sweep_all or loops:
                continue
            # the app loop is the one whose body reaches the per-app sweep
            if not any(x["k"] == "call" and x["callee"] == R.sweep_app
                       for alt in e["alts"] for x, _ in flat_events(alt["events"])):
                continue
            napps += 1
            if e["iter"] is None:
                raise AnalysisError("R13.apps: the per-app sweep is driven by a while loop "
                                    "(%s:%d) whose iteration set is not understood"
                                    % e["site"][:2])
            it = strip_wrappers(e["iter"])
            # a set filled by loops over selects, or one comprehension over a select
            elems = None
            if it[0] == "coll":
                elems = [a["elem"] for a in interp.coll_adds.get(it[1], [])]
            elif it[0] == "comp" and not it[4]:
                elems = [("sub", ("elem", it[3]), it[2][2])] if (
                    it[2][0] == "sub" and it[2][1][0] == "elem") else None
            okdb = elems is not None
            ctx.ob("R13.apps", "sweep iterates the database-derived app set", okdb, e,
                   "" if okdb else "the sweep iterates %s: apps that have rows but no "
                   "in-memory object are never swept" % show(e["iter"])[:60])
            if okdb:
                srcs = set()
                for el in elems:
                    if el[0] == "sub" and el[2] == ("const", "app_id") and el[1][0] == "elem":
                        r = strip_wrappers(el[1][1])
                        if r[0] == "rows":
                            st = interp.sql_sites.get(r[1])
                            for m in ([st] + list(st.extra.get("union", []))
                                      if st is not None and st.kind == "select" else []):
                                if m.where is None and not m.extra.get("joins"):
                                    srcs.add(m.table)
                missing = [t for t in app_tables if t not in srcs]
                ctx.ob("R13.apps", "app set unions %s" % ",".join(app_tables), not missing, e,
                       "" if not missing else "apps that only have rows in %s are never "
                       "swept" % missing)
            every = all(alt["out"] in ("normal", "continue") and any(
                x["k"] == "call" and x["callee"] == R.sweep_app
                for x, _ in flat_events(alt["events"])) for alt in e["alts"])
            ctx.ob("R13.apps", "every iteration reaches the per-app sweep", every and
                   bool(e["alts"]), e, "" if every else "some iteration skips the per-app "
                   "sweep or leaves the loop early: later apps are not swept")
    ctx.require("R13.apps", napps, 1, "app loops of the sweep")
    # R13.reach
    e4 = e4mod.get(model)
    nr = 0
    for f in e4.findings:
        if f.kind == "rule_u" and model.names.reg_name("mailboxes") in f.construct:
            nr += 1
            ctx.ob("R13.reach", f.construct, f.ok, f.site, f.detail +
                   ("" if f.ok else " -- a message added through the stale handle has no "
                    "mailbox row; the sweep reaches messages only through mailboxes, so the "
                    "row is never deleted"))
    ctx.require("R13.reach", nr, 1, "rule-U instances for the mailbox registry")
    # every INSERT into messages goes through a Mailbox method
    for en in model.runtime_entries():
        for p in model.paths(en):
            for e, _ in all_events(p, ("sql",)):
                if e["stmt"].kind == "insert" and e["stmt"].table == "messages":
                    ok = e["func"].startswith("Mailbox.")
                    ctx.ob("R13.reach", construct_of(e), ok, e,
                           "" if ok else "messages are inserted outside the Mailbox handle")
    # R13.orphan: the sweep finds a channel's rows through its app's mailboxes /
    # nameplates row; an INSERT that is silently skipped (conflict clause on a
    # key wider than one app) lets the caller go on writing child rows that no
    # row of this app leads to
    ctx.rule("R13.orphan", "no parent INSERT is silently skipped (OR IGNORE / OR REPLACE "
             "on a key wider than one app): child rows written afterwards would belong to "
             "no mailbox of this app and never be swept")
    e3o = e3mod.get(model)
    norph = 0
    for f in e3o.by_kind("unique"):
        norph += 1
        if "!conflict-clause" in f.construct:
            ctx.ob("R13.orphan", f.construct, f.ok, f.site, f.detail +
                   ("" if f.ok else " -- messages / side records written after the skipped "
                    "INSERT have no mailbox row of their app: no sweep ever deletes them"))
    ctx.ob("R13.orphan", "guarded INSERTs examined", True, "", "%d" % norph)
    ctx.require("R13.orphan", norph, 4, "guarded INSERTs")
    # R13.pin: a listener that outlives its connection's close / disconnect
    # makes every sweep re-stamp the mailbox, which then never expires
    ctx.rule("R13.pin", "listeners are removed on close and on disconnect (same rule "
             "instances as R02.key): a leaked listener pins its mailbox forever")
    from . import c02
    from ..report import Ctx
    sub = Ctx(model, "C02", ctx.tier)
    c02.run(sub)
    npin = 0
    for o in sub.obligations:
        if o.rule == "R02.key" and ("removed" in o.construct):
            npin += 1
            ctx.ob("R13.pin", o.construct, o.ok, o.site, o.detail +
                   ("" if o.ok else " -- the sweep touches every mailbox that has a "
                    "listener, so this mailbox, its messages and its nameplate never expire"))
    ctx.require("R13.pin", npin, 2, "listener removal obligations")
    # R13.timer
    info = model.timer_info()
    if not info:
        raise AnalysisError("R13.timer: no TimerService(...) call reachable in makeService")
    for (p, tev) in info:
        period = fold(tev["args"][0]) if tev["args"] else None
        okp = period is not None and is_const(period) and period[1] > 0
        from .shared import config_option as _cfgopt
        _pc = _cfgopt(period) if period is not None else None
        if _pc is not None:
            _d = fold(_pc[1]) if _pc[1] is not None else None
            okp = _d is None or (is_const(_d) and (_d[1] is None or _d[1] > 0))
            ctx.note("the timer period is the option %r: only its default is checked" % _pc[0])
        ctx.ob("R13.timer", "timer period is a positive constant", okp, tev,
               "" if okp else "period is %s" % show(period)[:40])
        # result parented to the returned service
        res = None
        parented = None
        evs = [e for e, _ in all_events(p)]
        idx = evs.index(tev)
        for e in evs[idx:]:
            if e["k"] == "ext" and e["name"] == ".setServiceParent" and \
                    e["recv"][0] == "call" and e["recv"][1].endswith("TimerService"):
                parented = e["args"][0] if e["args"] else None
        ret = p.outcome.value
        ok = parented is not None and ret is not None and parented == ret
        ctx.ob("R13.timer", "timer is attached to the returned service", ok, tev,
               "" if ok else "the TimerService is %s" % (
                   "never given a parent" if parented is None else
                   "parented to %s, not to the returned service" % show(parented)[:40]))
    # try/except around the sweep call in the timer callable
    fi = model.timer_fi()
    found = False
    # the Try may sit in the timer callable itself or in a helper it calls: look
    # in every function that is on the stack when the sweep is called
    cand_nodes = [fi.node]
    for p0 in timer[:1]:
        for e0, _ in all_events(p0, ("call",)):
            if e0["callee"] == R.sweep_all:
                for q in e0["stack"]:
                    for f2 in ctx.repo.all_functions():
                        if f2.qualname == q and f2.node not in cand_nodes:
                            cand_nodes.append(f2.node)
    try_nodes = []
    for cn in cand_nodes:
        for node in ast.walk(cn):
            if isinstance(node, ast.Try) and node not in try_nodes:
                try_nodes.append(node)
    for node in try_nodes:
        if isinstance(node, ast.Try):
            calls = [n for b in node.body for n in ast.walk(b)
                     if isinstance(n, ast.Call) and isinstance(n.func, ast.Attribute)
                     and n.func.attr == R.sweep_all.split(".")[-1]]
            if not calls:
                continue
            found = True
            catches = False
            reraises = False
            for h in node.handlers:
                names = []
                if h.type is None:
                    names = ["BaseException"]
                elif isinstance(h.type, ast.Tuple):
                    names = [dotted(x) for x in h.type.elts]
                else:
                    names = [dotted(h.type)]
                if "Exception" in names or "BaseException" in names:
                    catches = True
                    for n in ast.walk(h):
                        if isinstance(n, ast.Raise):
                            reraises = True
            ok = catches and not reraises
            ctx.ob("R13.timer", "sweep call is wrapped in try/except Exception without "
                   "re-raise", ok, "%s:%d" % (ctx.repo.modules[fi.module].path, node.lineno),
                   "" if ok else ("the handler re-raises" if reraises else
                                  "the handler does not catch Exception") +
                   ": one failing sweep stops the LoopingCall for the life of the service")
    if not found:
        ctx.ob("R13.timer", "sweep call is wrapped in try/except Exception without re-raise",
               False, "%s:%d" % (ctx.repo.modules[fi.module].path, fi.node.lineno),
               "the sweep is called outside any try: one failing sweep stops the "
               "LoopingCall for the life of the service")
    # the sweep call event really has the handler on its stack
    for p in timer[:1]:
        for e, _ in all_events(p, ("call",)):
            if e["callee"] == R.sweep_all:
                ok = any("Exception" in h[0] or "BaseException" in h[0] for h in e["handlers"])
                ctx.ob("R13.timer", "sweep runs under an Exception handler (event stack)", ok, e)
    # R13.noraise
    e3 = e3mod.get(model)
    for f in e3.may_raise():
        if any(s in (R.sweep_all, R.sweep_app) for x in e3.occurrences(f) for s in x["stack"]):
            ctx.ob("R13.noraise", "may-raise %s at %s" % (f.may_raise, f.construct), False,
                   f.site, f.detail + "; the sweep aborts at this app and never empties "
                   "the apps sorted after it", render_path(f.path.events) if f.path else None)
    ctx.ob("R13.noraise", "sweep paths analysed", True, "", "%d paths" % len(timer))

EXPLANATION += ' Batch 6: loops under which rows are deleted run over whole collections (R13.all); several passes over the mailbox rows must keep rows under complementary conditions; no unguarded numeric conversion in the sweep (R13.convert); text columns keep text (R13.exact).'
