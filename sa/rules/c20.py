"""C20 -- schema upgrade keeps every usage record and can be retried."""
import re

from ..events import all_events, construct_of, flat_events
from ..report import render_path
from ..terms import show, is_const, mentions, walk
from .. import sql as sqlmod
from ..repo import AnalysisError
from .c19 import fs_events, facts, DBFILE

LEVEL = "other"
EXPLANATION = (
    "Decides: on every path of the open-or-upgrade entry points each upgrade "
    "script execution is preceded by copy(dbfile, X) with X a different path "
    "derived from dbfile and no mutating event before the copy; upgrade scripts "
    "contain only CREATE TABLE/INDEX of new names and DELETE/INSERT/UPDATE on "
    "`version` (no DROP/ALTER-drop/other DML: records cannot be lost); schema "
    "algebra: applying the upgrade script's DDL to the previous schema yields "
    "exactly the fresh schema of the new version, and the version row ends at the "
    "new version; the script is one transaction or every statement is re-runnable "
    "with an atomic version rewrite (retry after interruption); the version "
    "counter advances only after script + commit. Not decided: byte identity of "
    "the backup (shutil.copy semantics), content of records for arbitrary rows.")


def run(ctx):
    model = ctx.model
    repo = ctx.repo
    ctx.rule("R20.backup", "every upgrade script run is preceded by copy(dbfile, other "
             "path derived from dbfile), nothing mutates before the copy")
    ctx.rule("R20.safe", "upgrade scripts only create new tables/indexes and rewrite "
             "`version`")
    ctx.rule("R20.equal", "previous schema + upgrade DDL = fresh schema of the new "
             "version; version row ends at the new version")
    ctx.rule("R20.retry", "upgrade script is one transaction, or every statement is "
             "re-runnable and the version rewrite is atomic")
    ctx.rule("R20.loop", "the version counter advances only after script + commit, one "
             "version at a time")
    targets = repo.target_versions()
    # R20.backup / R20.loop on paths
    nup = 0
    for en in ("db:create_or_upgrade_channel_db", "db:create_or_upgrade_usage_db"):
        for p in model.paths(en):
            exists, mem = facts(p)
            if mem is True:
                continue  # ':memory:' has no file to back up
            fs = fs_events(p)
            copied = None
            mutated_before = None
            for (k, e, loops) in fs:
                if k == "copy" and e["args"] and e["args"][0] == DBFILE:
                    dst = e["args"][1] if len(e["args"]) > 1 else None
                    okd = dst is not None and dst != DBFILE and \
                        mentions(dst, lambda x: x == DBFILE)
                    copied = e
                    ctx.ob("R20.backup", "%s: backup copy goes next to dbfile" % en[3:], okd,
                           e, "" if okd else "the backup destination is %s" % show(dst)[:60])
                    if mutated_before is not None:
                        ctx.ob("R20.backup", "%s: nothing mutates before the backup" % en[3:],
                               False, mutated_before, "the database is modified before the "
                               "backup copy is taken")
                if k in ("script", "sqlmut") and exists is True and copied is None and \
                        mutated_before is None:
                    mutated_before = e
                if k == "script" and _is_upgrade_script(e):
                    nup += 1
                    ok = copied is not None
                    ctx.ob("R20.backup", "%s: upgrade script runs only after the backup copy"
                           % en[3:], ok, e, "" if ok else "the upgrade script runs on a path "
                           "on which no backup of the old file was taken",
                           None if ok else render_path(p.events))
            # R20.retry: what an interrupted upgrade leaves on disk is the backup
            # and the (transactionally unchanged) database -- any other file
            # it creates or moves is still there when the server is started again
            if any(k == "script" and _is_upgrade_script(e) for (k, e, _l) in fs):
                others = [(k, e) for (k, e, _l) in fs if k in ("fsother", "rename", "mkstemp")]
                ctx.ob("R20.retry", "%s: an upgrade touches no file but the database and its "
                       "backup" % en[3:], not others, others[0][1] if others else p.events[-1],
                       "" if not others else "the upgrade path also does %s(%s): a crash "
                       "during the upgrade leaves that behind, and the retry starts from a "
                       "directory the first attempt did not see" % (
                           others[0][1].get("name", others[0][0]),
                           ", ".join(show(a)[:30] for a in others[0][1].get("args", ())[:2])),
                       render_path(p.events) if others else None)
            # R20.loop
            for e, loops in all_events(p, ("loop",)):
                if e["func"] != "_get_db":
                    continue
                for alt in e["alts"]:
                    flat = [x for x, _ in flat_events(alt["events"])]
                    dyn = [x for x in flat if x["k"] == "sql_dynamic" and _is_upgrade_script(x)]
                    if dyn:
                        begun = any(x["k"] == "sql" and x["stmt"].kind == "begin"
                                    for x in flat[:flat.index(dyn[0])])
                        ctx.ob("R20.retry", "%s: upgrade statements run inside one explicit "
                               "transaction" % en[3:], begun, dyn[0],
                               "" if begun else "the statements of the upgrade script are "
                               "executed one by one through execute(); Python's sqlite3 opens "
                               "an implicit transaction only before INSERT/UPDATE/DELETE, so "
                               "each CREATE TABLE/INDEX is committed on its own and an "
                               "interrupted upgrade cannot be retried")
                    seq = ["script" if x["k"] in ("script", "sql_dynamic") else "commit"
                           for x in flat if x["k"] in ("script", "commit") or
                           (x["k"] == "sql_dynamic" and _is_upgrade_script(x))]
                    seq = [k for i, k in enumerate(seq) if i == 0 or k != seq[i - 1]]
                    scripts = [x for x in flat if x["k"] == "script"] or dyn
                    if not scripts:
                        continue
                    ok = seq[:2] == ["script", "commit"]
                    ctx.ob("R20.loop", "%s: script then commit in each upgrade step" % en[3:],
                           ok, scripts[0], "" if ok else "an upgrade step does %s" % seq)
                    s = scripts[0]["script"] if scripts[0]["k"] == "script" else scripts[0]["sql"]
                    step1 = mentions(s, lambda x: x[0] == "binop" and x[1] == "+" and
                                     x[3] == ("const", 1))
                    ctx.ob("R20.loop", "%s: upgrades one version at a time" % en[3:], step1,
                           scripts[0], "" if step1 else "upgrade script is %s" % show(s)[:80])
    ctx.require("R20.backup", nup, 1, "upgrade script executions on paths")
    # scripts
    nscripts = 0
    for name, target in sorted(targets.items()):
        for v in range(2, target + 1):
            prev_fn = "%s-v%d.sql" % (name, v - 1)
            new_fn = "%s-v%d.sql" % (name, v)
            up_fn = "upgrade-%s-to-v%d.sql" % (name, v)
            for fn in (prev_fn, new_fn, up_fn):
                ok = fn in repo.schema_texts
                ctx.ob("R20.equal", "file %s exists" % fn, ok, "",
                       "" if ok else "needed to upgrade %s to v%d" % (name, v))
            if not all(fn in repo.schema_texts for fn in (prev_fn, new_fn, up_fn)):
                continue
            nscripts += 1
            try:
                prev, _ = sqlmod.schema_from_script(repo.schema_texts[prev_fn], prev_fn)
                new, _ = sqlmod.schema_from_script(repo.schema_texts[new_fn], new_fn)
                stmts = sqlmod.parse_script(repo.schema_texts[up_fn])
            except sqlmod.SqlUnparsed as ex:
                raise AnalysisError("cannot parse upgrade material for %s v%d: %s" % (name, v, ex))
            _script_rules(ctx, up_fn, stmts, prev, new, v)
    # stray upgrade scripts (e.g. beyond the target) are parsed too
    for fn in sorted(repo.schema_texts):
        m = re.match(r"upgrade-(\w+)-to-v(\d+)\.sql$", fn)
        if m and (m.group(1) not in targets or int(m.group(2)) > targets[m.group(1)]):
            ctx.note("upgrade script %s is beyond the target version; not analysed" % fn)
    if targets.get("usage", 1) >= 2:
        ctx.require("R20.safe", nscripts, 1, "upgrade scripts for the target versions")


def _is_upgrade_script(e):
    term = e["script"] if e["k"] == "script" else e["sql"]
    return mentions(term, lambda x: is_const(x) and isinstance(x[1], str) and
                    "upgrade-" in x[1])


def _script_rules(ctx, fn, stmts, prev, new, v):
    site = "src/wormhole_mailbox_server/db-schemas/%s" % fn
    # R20.safe
    bad = []
    for st in stmts:
        if st.kind == "create_table":
            if st.table in prev.tables and not st.extra.get("if_not_exists"):
                bad.append("re-creates existing table %s" % st.table)
        elif st.kind == "create_index":
            pass
        elif st.kind in ("insert", "update", "delete"):
            if st.table != "version":
                bad.append("%s on `%s`" % (st.kind.upper(), st.table))
        elif st.kind in ("begin", "commit"):
            pass
        elif st.kind == "alter" and st.extra.get("action") == "add_column":
            pass
        else:
            bad.append("%s %s" % (st.kind.upper(), st.table or ""))
    ctx.ob("R20.safe", "%s only adds schema and rewrites `version`" % fn, not bad, site,
           "" if not bad else "the script can destroy records: %s" % "; ".join(bad))
    # R20.equal
    work = sqlmod.Schema(prev.name)
    for tname in prev.order:
        work.tables[tname] = prev.tables[tname]
        work.order.append(tname)
    version_rows = None  # None = untouched (old value), set = known values
    err = None
    try:
        for st in stmts:
            if work.apply(st):
                continue
            if st.table == "version":
                if st.kind == "delete" and st.where is None:
                    version_rows = set()
                elif st.kind == "insert":
                    val = st.values[st.cols.index("version")] if "version" in st.cols else None
                    if version_rows is None:
                        version_rows = {"old"}
                    version_rows.add(val.value if val is not None and val.kind == "lit" else "?")
                elif st.kind == "update" and st.where is None and "version" in st.cols:
                    val = st.values[st.cols.index("version")]
                    version_rows = {val.value if val.kind == "lit" else "?"}
    except sqlmod.SqlUnparsed as ex:
        err = str(ex)
    same = err is None and work.signature() == new.signature()
    detail = ""
    if not same:
        if err:
            detail = err
        else:
            a = dict((t.name, t.signature()) for t in work.tables.values())
            b = dict((t.name, t.signature()) for t in new.tables.values())
            diffs = [n for n in sorted(set(a) | set(b)) if a.get(n) != b.get(n)]
            detail = "after the upgrade the schema differs from a fresh v%d database in " \
                "table(s) %s" % (v, diffs)
    ctx.ob("R20.equal", "%s: upgraded schema = fresh v%d schema" % (fn, v), same, site, detail)
    okv = version_rows == {v}
    ctx.ob("R20.equal", "%s: version row ends at %d" % (fn, v), okv, site,
           "" if okv else "after the script the version table holds %s" % (
               sorted(map(str, version_rows)) if version_rows is not None else "the old value"))
    # R20.retry
    kinds = [st.kind for st in stmts]
    wrapped = len(kinds) >= 2 and kinds[0] == "begin" and kinds[-1] == "commit" and \
        "commit" not in kinds[1:-1] and "begin" not in kinds[1:-1]
    rerunnable = all(
        (st.kind in ("create_table", "create_index") and st.extra.get("if_not_exists")) or
        st.kind in ("begin", "commit") or st.table == "version" for st in stmts)
    # atomic version rewrite: a single UPDATE, or delete+insert inside BEGIN..COMMIT
    vstm = [st for st in stmts if st.table == "version"]
    atomic_version = (len(vstm) == 1 and vstm[0].kind == "update") or wrapped or \
        _version_block_wrapped(stmts)
    ok = wrapped or (rerunnable and atomic_version)
    ctx.ob("R20.retry", "%s can be re-run after an interruption" % fn, ok, site,
           "" if ok else "executescript() runs the statements in autocommit mode: the "
           "script is not wrapped in BEGIN..COMMIT%s%s, so a crash part-way leaves a "
           "database on which the next start fails (table already exists / empty version "
           "table)" % ("" if not rerunnable else " (statements are re-runnable)",
                       "" if atomic_version else " and the version row is deleted and "
                       "re-inserted non-atomically"))


def _version_block_wrapped(stmts):
    """the statements touching `version` sit together inside one BEGIN..COMMIT"""
    idx = [i for i, st in enumerate(stmts) if st.table == "version"]
    if not idx:
        return True
    lo, hi = idx[0], idx[-1]
    before = [st.kind for st in stmts[:lo]]
    after = [st.kind for st in stmts[hi + 1:]]
    opened = "begin" in before and (len(before) - 1 - before[::-1].index("begin")) > \
        (len(before) - 1 - before[::-1].index("commit") if "commit" in before else -1)
    closed = "commit" in after
    inner = [st.kind for st in stmts[lo:hi + 1]]
    return opened and closed and "commit" not in inner

EXPLANATION += ' Batch 6: a path that runs an upgrade script has no file-system event besides exists, connect and the backup copy.'
