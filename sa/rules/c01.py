"""C01 -- opening a mailbox replays every stored message, and nothing else."""
from ..events import (is_conn_side, all_events, is_app_id, is_own_mailbox_id, is_client_value,
                      construct_of, handler_paths, handler_for, frame_type,
                      frame_fields, flat_events)
from ..report import render_path
from ..terms import show, plain, is_const, strip_wrappers
from .. import e3 as e3mod
from .. import e4 as e4mod
from ..repo import AnalysisError

from . import shared

LEVEL = "other"
EXPLANATION = (
    "Decides the structural clauses: (key) the replay loop of the open handler is "
    "fed by exactly one SELECT on the message log keyed by the Mailbox's own app "
    "id and own mailbox id, with no other filter, and sends every element "
    "unconditionally; (fields) add-frame key -> INSERT column -> row column -> "
    "message-frame key is the identity relabelling, hop by hop, on the inlined "
    "data flow; (codel) message rows are deleted exactly in the transactions that "
    "delete their mailbox row, by the same key; (live) the INSERT into the message "
    "log is reachable only through handles that the registry rule U keeps valid. "
    "Not decided: that SQLite returns what was stored, delivery by Autobahn.")
EXPLANATION += ' Also decided: every entry point exits with the channel DB clean (what was acknowledged survives a restart), no start-up statement touches the message log, and the replay select returns every matching row as stored.'


def replay_select(ctx, p, loop):
    """the SELECT feeding the replay loop, through the collected list"""
    it = strip_wrappers(loop["iter"])
    interp = ctx.model.interp
    sources = []
    if it[0] == "coll":
        adds = interp.coll_adds.get(it[1], [])
        for a in adds:
            sources.append(a)
    elif it[0] == "rows":
        return it[1], []
    elif it[0] == "comp":
        # [f(row) for row in rows]: collected by a comprehension
        if it[4]:
            return None, []          # filtered in Python
        r = strip_wrappers(it[3])
        if r[0] == "rows":
            return r[1], []
        return None, []
    sites = set()
    for a in sources:
        el = a["elem"]
        for x in _walk(el):
            if x[0] == "elem":
                r = strip_wrappers(x[1])
                if r[0] == "rows":
                    sites.add(r[1])
    if len(sites) != 1:
        return None, sources
    return sites.pop(), sources


def _walk(t):
    from ..terms import walk
    return walk(t)


def run(ctx):
    model = ctx.model
    shared.import_rule(ctx, "C02", ("R02.order",), "R01.order",
                       "an added message is stored (and committed) before it is handed to "
                       "the subscribers (same rule instances as R02.order)",
                       "a delivery that fails (a subscriber in its closing handshake) aborts "
                       "the add before the message is stored: it was acknowledged, is never "
                       "replayed, and a later open does not get it")
    shared.r_wire(ctx, "R01.wire")
    shared.r_collation(ctx, "R01.exact", ('messages', 'mailboxes'),
                       'an open replays (and a close deletes) the messages of another mailbox')
    shared.r_durable(ctx, "R01.durable", ("chan",),
                     'after a restart the stored messages (or the deletion of a mailbox) are not what the clients were told')
    shared.r_startup(ctx, "R01.startup", ('messages',),
                     'stored messages are removed or changed by something other than the deletion of their mailbox')
    interp = model.interp
    ctx.rule("R01.key", "the replay loop is fed by one SELECT on `messages` keyed "
             "exactly by own app id AND own mailbox id (no LIMIT, no other filter), "
             "every row is collected and every element is sent unconditionally")
    ctx.rule("R01.fields", "add frame -> INSERT columns and row columns -> message "
             "frame are the identity relabelling (side<-bind side, phase, body, id/msg_id)")
    ctx.rule("R01.codel", "every transaction deleting a mailboxes row deletes the "
             "messages of that mailbox id, and messages are deleted only there")
    ctx.rule("R01.live", "messages are inserted only through Mailbox handles kept "
             "valid by registry rule U")
    h_open = handler_for(model, "open")
    h_add = handler_for(model, "add")
    nloops = 0
    for p in handler_paths(model, h_open):
        for e, loops in all_events(p, ("loop",)):
            if e["func"] != "WebSocketServer." + h_open:
                continue
            sends = [x for alt in e["alts"] for x, _ in flat_events(alt["events"])
                     if x["k"] == "send" and frame_type(x) == "message"]
            if not sends:
                continue
            nloops += 1
            site, sources = replay_select(ctx, p, e)
            cons = "%s: replay loop" % h_open
            if site is None:
                ctx.ob("R01.key", cons, False, e, "the replayed collection is not fed by "
                       "exactly one SELECT")
                continue
            st = interp.sql_sites[site]
            # find an event sample of that select on this path for bindings
            sel = None
            for x, _ in all_events(p, ("sql",)):
                if x["site"] == site:
                    sel = x
            if sel is None:
                ctx.ob("R01.key", cons, False, e, "select feeding the replay not on the path")
                continue
            eq = sel["src"]["where_eq"]
            ok = st.table == "messages" and eq is not None and \
                set(eq) == {"app_id", "mailbox_id"} and is_app_id(eq["app_id"]) and \
                is_own_mailbox_id(eq["mailbox_id"]) and st.plain_rows
            ctx.ob("R01.key", "%s <- %s" % (cons, construct_of(sel)), ok, sel,
                   "" if ok else "replay must read `messages` WHERE app_id=<own app> AND "
                   "mailbox_id=<own mailbox> and nothing else; found %s%s" % (
                       st.normalized(), "" if st.plain_rows else " [LIMIT / GROUP BY / DISTINCT / computed columns: not every stored row is returned as stored]"))
            # unconditional collection
            lo_hi = None
            for a in sources:
                cond_in_loop = [c for c in a["pc"] if c[2][0] == a["site"][0] and
                                _in_same_loop(ctx, a, c)]
                okc = not cond_in_loop
                ctx.ob("R01.key", "%s: every selected row is collected" % a["func"], okc,
                       a["site"], "" if okc else "rows are filtered in Python (%s) before "
                       "being replayed" % show(cond_in_loop[0][0])[:80])
            # unconditional send
            okall = all(any(x["k"] == "send" and frame_type(x) == "message"
                            for x, _ in flat_events(alt["events"]))
                        for alt in e["alts"] if alt["out"] in ("normal", "continue"))
            nocont = all(alt["out"] == "normal" for alt in e["alts"])
            ctx.ob("R01.key", "%s: every element is sent" % cons, okall and nocont, e,
                   "" if (okall and nocont) else "some iteration of the replay loop sends "
                   "nothing or leaves the loop early")
            # field identity of the replayed frame
            want = {"side": "side", "phase": "phase", "body": "body", "id": "msg_id"}
            for s in sends[:1]:
                ff = frame_fields(s) or {}
                for fk, col in sorted(want.items()):
                    v = ff.get(fk)
                    okf = v is not None and v[0] == "sub" and v[2] == ("const", col) and \
                        v[1][0] == "elem" and strip_wrappers(v[1][1]) == ("rows", site)
                    ctx.ob("R01.fields", "replayed frame %s <- row.%s" % (fk, col), okf, s,
                           "" if okf else "frame key %r carries %s" % (
                               fk, show(v)[:60] if v else "nothing"))
    ctx.require("R01.key", nloops, 1, "replay loops in the open handler")
    # INSERT side of the field pipeline
    nins = 0
    for p in handler_paths(model, h_add):
        for e, _ in all_events(p, ("sql",)):
            if e["stmt"].kind == "insert" and e["stmt"].table == "messages":
                nins += 1
                s = e["src"]["set"]

                def msgfield(v, key):
                    if v is None:
                        return False
                    if v[0] == "sub" and v[2] == ("const", key) and is_client_value(v[1]):
                        return True
                    if v[0] == "call" and v[1] == ".get" and len(v[2]) >= 2 and \
                            v[2][1] == ("const", key) and is_client_value(v[2][0]):
                        return True
                    return False
                checks = [
                    ("side", s.get("side") is not None and s["side"][0] == "attr" and
                     is_conn_side(s["side"])),
                    ("phase", msgfield(s.get("phase"), "phase")),
                    ("body", msgfield(s.get("body"), "body")),
                    ("msg_id", msgfield(s.get("msg_id"), "id")),
                    ("app_id", s.get("app_id") is not None and is_app_id(s["app_id"])),
                    ("mailbox_id", s.get("mailbox_id") is not None and
                     is_own_mailbox_id(s["mailbox_id"])),
                ]
                for col, okc in checks:
                    ctx.ob("R01.fields", "INSERT messages.%s <- add command" % col, okc, e,
                           "" if okc else "column %s is bound to %s" % (
                               col, show(s.get(col))[:60] if s.get(col) else "nothing"))
    ctx.require("R01.fields", nins, 1, "INSERT into the message log on add paths")
    # co-deletion
    nret = 0
    ndel = 0
    for (p, e, prior, later, loops) in e3mod.walk_transactions(model):
        st = e["stmt"]
        if st.kind != "delete":
            continue
        if st.table == "mailboxes":
            nret += 1
            eq = e["binds"]["where_eq"]
            key = eq.get("id") if eq else None
            ok = False
            if key is not None:
                for x in e3mod.sql_in(prior):
                    if x["stmt"].kind == "delete" and x["stmt"].table == "messages":
                        meq = x["binds"]["where_eq"]
                        if meq and meq.get("mailbox_id") == key and \
                                set(meq) <= {"mailbox_id", "app_id"}:
                            ok = True
            ctx.ob("R01.codel", "%s [with its messages]" % construct_of(e), ok, e,
                   "" if ok else "the mailbox row is deleted without deleting the messages "
                   "of that mailbox id in the same transaction: a later open of the id "
                   "would replay them", render_path(p.events) if not ok else None)
        if st.table == "messages":
            ndel += 1
            eq = e["binds"]["where_eq"]
            key = eq.get("mailbox_id") if eq else None
            ok = False
            if key is not None and set(eq) <= {"mailbox_id", "app_id"}:
                for x in later:
                    if x["k"] == "sql" and x["stmt"].kind == "delete" and \
                            x["stmt"].table == "mailboxes":
                        peq = x["binds"]["where_eq"]
                        if peq and peq.get("id") == key:
                            ok = True
            ctx.ob("R01.codel", "%s [only with its mailbox]" % construct_of(e), ok, e,
                   "" if ok else "messages are deleted by a key other than the id of the "
                   "mailbox row deleted in the same transaction (%s)" % (
                       st.where.render() if st.where else "no WHERE"),
                   render_path(p.events) if not ok else None)
    ctx.require("R01.codel", nret, 1, "mailbox retirement sites (DELETE FROM mailboxes)")
    ctx.require("R01.codel", ndel, 1, "DELETE FROM messages sites")
    # live handles
    e4 = e4mod.get(model)
    n4 = 0
    for f in e4.findings:
        if f.kind == "rule_u" and model.names.reg_name("mailboxes") in f.construct:
            n4 += 1
            ctx.ob("R01.live", f.construct, f.ok, f.site, f.detail +
                   ("" if f.ok else " -- a message added through the stale handle is "
                    "stored under a mailbox id whose row is gone and is replayed to "
                    "whoever opens that id next"))
    ctx.require("R01.live", n4, 1, "rule-U instances for the mailbox registry")
    ctx.note("ORDER BY of the replay query is not constrained (the protocol leaves "
             "replay order open)")


def _in_same_loop(ctx, add, cond):
    """the path condition `cond` was introduced inside the function that fills
    the collection, before the add: a Python-side filter on what is collected"""
    return cond[2][0] == add["site"][0] and cond[2][1] <= add["site"][1] and \
        _cond_func_line_in(ctx, add, cond)


def _cond_func_line_in(ctx, add, cond):
    fi = None
    for f in ctx.repo.all_functions():
        if f.qualname == add["func"]:
            fi = f
    if fi is None:
        return True
    lo = fi.node.lineno
    hi = getattr(fi.node, "end_lineno", lo)
    return lo <= cond[2][1] <= hi

EXPLANATION += ' Batch 6: columns that receive client text must have TEXT or no affinity (what is replayed is what was stored).'
