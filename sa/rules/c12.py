"""C12 -- expiry never removes a channel that is active or has a subscriber."""
from ..events import (all_events, is_own_mailbox_id, construct_of, handler_paths,
                      handler_for, frame_type, flat_events)
from ..report import render_path
from ..terms import show, plain, is_const, mentions, walk
from ..terms import strip_wrappers as _strip_plain


def strip_wrappers(t):
    """for "never removes an active channel" a slice of the expired set is as
    good as the set: its elements are elements of the set (that a sweep then
    leaves some for later is C13's concern, rule R13.all)"""
    while True:
        t2 = _strip_plain(t)
        if isinstance(t2, tuple) and t2 and t2[0] == "slice":
            t2 = t2[1]
        if t2 == t:
            return t
        t = t2
from ..e3 import pc_truth
from .. import e4 as e4mod
from .. import scope as scopemod
from ..repo import AnalysisError
from .c04 import fold

_R = None
LEVEL = "other"
EXPLANATION = (
    "Decides: every non-error path of claim/allocate/open/add writes "
    "mailboxes.updated of that mailbox with the command's receive time; the sweep "
    "re-stamps every registry mailbox that has listeners (plain non-emptiness "
    "test) and commits before the classifying select; a mailbox enters the delete "
    "set only on the branch where updated > cutoff is false; the timer passes "
    "(now, now - C) with C a positive constant larger than the period, in that "
    "order down to the per-app sweep; every delete of the sweep is keyed by an "
    "element of the old sets (never by app or unkeyed); all listeners are visible "
    "to the sweep (registry rule U for the app registry). Not decided: the "
    "'expiration minus one period' arithmetic beyond the constant ordering.")
EXPLANATION += ' Also decided: subscriptions are keyed by their connection, and when the sweep stamps from an index of subscribed mailboxes, that index covers every mailbox with a listener.'


def _is_refresh_loop(loop_ev):
    """a loop of the sweep in which `mailboxes.updated` is stamped"""
    for alt in loop_ev["alts"]:
        for x, _ in flat_events(alt["events"]):
            if x["k"] == "sql" and x["db"] == "chan" and x["stmt"].kind == "update" and \
                    x["stmt"].table == "mailboxes" and "updated" in x["stmt"].cols:
                return True
    return False


def run(ctx):
    model = ctx.model
    from .. import roles as _roles
    R = _roles.get(model)
    global _R
    _R = R
    interp = model.interp
    from . import shared as _sh
    _sh.r_collation(ctx, "R12.exact", ("nameplates", "nameplate_sides", "mailboxes",
                                       "mailbox_sides", "messages"),
                    "a sweep delete keyed by the id of an expired channel also removes "
                    "rows of a live channel whose id SQLite considers equal")
    _sh.r_full_loops(ctx, "R12.all", "a subscribed mailbox that comes later is not "
                     "refreshed and expires while a client is still connected to it",
                     only=_is_refresh_loop)
    ctx.rule("R12.stamp", "claim/allocate/open/add stamp mailboxes.updated of their "
             "mailbox with the command's time on every non-error path")
    ctx.rule("R12.touch", "the sweep stamps every mailbox with listeners and commits "
             "before classifying")
    ctx.rule("R12.cmp", "a mailbox is put in the delete set only when updated > cutoff "
             "is false")
    ctx.rule("R12.cutoff", "timer passes (now, now - C), C > period > 0, same order "
             "down to prune")
    ctx.rule("R12.keys", "every sweep delete is keyed by an element of the old sets")
    ctx.rule("R12.vis", "all listeners are visible to the sweep (rule U on the app "
             "registry)")
    # R12.stamp
    for name in ("claim", "allocate", "open", "add"):
        h = handler_for(model, name)
        n = 0
        for p in handler_paths(model, h):
            if any(e["cls"] == "Error" for e, _ in all_events(p, ("raise",))):
                continue
            if p.outcome.kind != "return":
                continue
            n += 1
            rx = None
            for e, _ in all_events(p, ("call",)):
                if e["callee"] == "WebSocketServer." + h:
                    for a in e["args"]:
                        if a[0] == "call" and a[1] == "time.time":
                            rx = a
            stamped = False
            for e, _ in all_events(p, ("sql",)):
                st = e["stmt"]
                if st.table != "mailboxes" or e["db"] != "chan":
                    continue
                if st.kind == "update" and "updated" in st.cols:
                    v = e["binds"]["set"]["updated"]
                    eq = e["binds"]["where_eq"]
                    if rx is not None and v == rx and eq is not None and set(eq) == {"id"}:
                        stamped = True
                if st.kind == "insert" and e["binds"]["set"].get("updated") == rx and rx:
                    stamped = True
            ctx.ob("R12.stamp", "%s stamps its mailbox" % h, stamped, p.events[-1],
                   "" if stamped else "a successful %s leaves mailboxes.updated untouched: "
                   "the next sweep may expire a channel that was just used" % name,
                   None if stamped else render_path(p.events))
        ctx.require("R12.stamp", n, 1, "successful %s paths" % name)
    # the sweep
    timer = model.paths("timer")
    prune_calls = 0
    touch_ok = None
    from ..events import each_event as _each
    for p, e, loops in _each(model, ["timer"], ("call",)):
        if e["callee"] == R.sweep_app:
            prune_calls += 1
    ctx.require("R12.touch", prune_calls, 1, "calls of the per-app sweep on timer paths")
    done = set()
    ntouch = 0
    ncmp = 0
    nkeys = 0
    sc = scopemod.get(model)
    from ..events import each_event
    # facts needed by the classification rule, computed once
    old_param = None
    old_coll = None
    for p, e, loops in each_event(model, ["timer"], ("call", "sql")):
        if e["k"] == "call" and e["callee"] == R.sweep_app and len(e["args"]) >= 2:
            old_param = e["args"][1]
        if e["k"] == "sql" and e["stmt"].kind == "delete" and \
                e["stmt"].table == "mailboxes" and R.sweep_app in e["stack"]:
            tt = (e["binds"]["where_eq"] or {}).get("id")
            if tt is not None and tt[0] == "elem":
                old_coll = strip_wrappers(tt[1])
    if True:
        for p, e, loops in each_event(model, ["timer"], ("loop",)):
            if id(e) in done or R.sweep_app not in (e["func"],) + tuple(e["stack"]):
                continue
            done.add(id(e))
            it = strip_wrappers(e["iter"]) if e["iter"] else None
            if it is None:
                continue
            # (a) the touch loop: iterates the registry's Mailbox objects
            if it[0] == "call" and it[1] == ".values" and it[2][0][0] == "reg" and \
                    it[2][0][2] == model.names.mailboxes[1]:
                ntouch += 1
                touched_alts = 0
                for alt in e["alts"]:
                    ups = [x for x, _ in flat_events(alt["events"])
                           if x["k"] == "sql" and x["stmt"].kind == "update" and
                           x["stmt"].table == "mailboxes"]
                    conds = [c for c in _alt_pc(alt, e) if mentions(
                        c[0], lambda x: x[0] == "reg" and x[2] == model.names.listeners[1])]
                    if ups:
                        touched_alts += 1
                        okc = len(conds) == 1 and _nonempty_test(conds[0])
                        ctx.ob("R12.touch", "sweep touches every mailbox with listeners", okc,
                               ups[0], "" if okc else "the touch is conditioned on %s, not on "
                               "'has at least one listener'" % (
                                   show(conds[0][0])[:80] if conds else "nothing"))
                        u = ups[0]
                        eq = u["src"]["where_eq"]
                        okk = eq is not None and set(eq) == {"id"} and \
                            is_own_mailbox_id(eq["id"]) and "updated" in u["stmt"].cols
                        ctx.ob("R12.touch", "touch is keyed by the mailbox's own id", okk, u,
                               "" if okk else "touch statement is %s" % u["stmt"].normalized())
                    else:
                        # an alternative without touch must be the no-listener one
                        okn = len(conds) >= 1 and all(not _pol_nonempty(c) for c in conds)
                        ctx.ob("R12.touch", "untouched only when there is no listener", okn, e,
                               "" if okn else "a mailbox with listeners can go through the "
                               "sweep without being stamped")
                if touched_alts == 0:
                    ctx.ob("R12.touch", "sweep touches every mailbox with listeners", False, e,
                           "the sweep never stamps subscribed mailboxes")
            # (b) classification loop: over SELECT mailboxes
            if it[0] == "rows":
                st = interp.sql_sites.get(it[1])
                if st is not None and st.table == "mailboxes":
                    _classification(ctx, model, p, e, it, old_param, old_coll)
                    ncmp += 1
            # (c) delete loops
            for alt in e["alts"]:
                for x, _ in flat_events(alt["events"]):
                    if x["k"] == "sql" and x["stmt"].kind == "delete" and x["db"] == "chan":
                        nkeys += 1
                        eq = x["src"]["where_eq"]
                        ok = eq is not None and len(eq) == 1
                        why = ""
                        if ok:
                            (col, term), = eq.items()
                            ok = term[0] == "elem" and strip_wrappers(term[1])[0] == "coll" \
                                and strip_wrappers(term[1]) == it and col != "app_id"
                        if not ok:
                            why = "the sweep deletes `%s` rows selected by (%s) instead of by " \
                                "the element of the expired set it iterates" % (
                                    x["stmt"].table,
                                    x["stmt"].where.render() if x["stmt"].where else "no WHERE")
                        ctx.ob("R12.keys", construct_of(x), ok, x, why)
    # deletes outside loops in prune
    for p, e, loops in each_event(model, ["timer"], ("sql",)):
        if R.sweep_app in (e["func"],) + tuple(e["stack"]) and e["stmt"].kind == "delete" and \
                e["db"] == "chan" and not any(
                    R.sweep_app in (l["func"],) + tuple(l["stack"]) for l in loops):
            ctx.ob("R12.keys", construct_of(e), False, e,
                   "a sweep delete outside the per-element loops")
    if ntouch == 0:
        ntouch = _touch_by_index(ctx, model, R)
    ctx.require("R12.touch", ntouch, 1, "touch loops over the mailbox registry")
    ctx.require("R12.cmp", ncmp, 1, "classification loops")
    ctx.require("R12.keys", nkeys, 3, "delete statements in the sweep")
    # touch commit precedes classification
    for p in timer[:1]:
        _touch_commit_order(ctx, p)
    # R12.cutoff
    _cutoff(ctx, model)
    # R12.sub: `has a listener` is what protects a subscribed channel; it must
    # stay true exactly as long as the subscribing connection is there
    ctx.rule("R12.sub", "a subscription is keyed by its connection (same rule instances "
             "as R02.key): nothing but that connection's own close / disconnect removes it")
    from . import c02
    from ..report import Ctx
    sub = Ctx(model, "C02", ctx.tier)
    c02.run(sub)
    nsub = 0
    for o in sub.obligations:
        if o.rule == "R02.key" and "keyed by the connection" in o.construct:
            nsub += 1
            ctx.ob("R12.sub", o.construct, o.ok, o.site, o.detail +
                   ("" if o.ok else " -- another connection that uses the same key removes "
                    "this one's listener when it goes away; the still-subscribed channel "
                    "is then no longer stamped by the sweep and expires"))
    ctx.require("R12.sub", nsub, 1, "listener registrations")
    # R12.vis
    e4 = e4mod.get(model)
    nv = 0
    for f in e4.findings:
        if f.kind == "rule_u" and (model.names.reg_name("apps") in f.construct or
                                   model.names.reg_name("mailboxes") in f.construct):
            nv += 1
            ctx.ob("R12.vis", f.construct, f.ok, f.site, f.detail +
                   ("" if f.ok else " -- listeners registered through the dropped object "
                    "are invisible to later sweeps, which then expire a subscribed mailbox"))
        if f.kind in ("construct_once", "registry_key", "get_or_create", "owner_only"):
            ctx.ob("R12.vis", f.construct, f.ok, f.site, f.detail)
    ctx.require("R12.vis", nv, 1, "rule-U instances for the app registry")


def _alt_pc(alt, loop_ev):
    """conditions introduced inside the loop body on this alternative"""
    return alt["pc"]


def _pol_nonempty(c):
    """the condition holds when the listener collection is non-empty"""
    t, b, site = c
    v = _nonempty_value(t)
    if v is None:
        return True
    return v == b


def _nonempty_value(t):
    """truth value of t when the collection is non-empty, None if t is not a
    plain non-emptiness test"""
    if t[0] == "not":
        v = _nonempty_value(t[1])
        return None if v is None else (not v)
    if t[0] == "truth":
        return _nonempty_value(t[1])
    if t[0] == "reg":
        return True
    if t[0] == "cmp" and t[2][0] == "call" and t[2][1] == "len" and \
            t[2][2][0][0] == "reg" and is_const(t[3]):
        c = t[3][1]
        if (t[1], c) in ((">", 0), (">=", 1)):
            return True
        if (t[1], c) in (("==", 0), ("<", 1), ("<=", 0)):
            return False
    return None


def _nonempty_test(c):
    t, b, site = c
    v = _nonempty_value(t)
    return v is not None and v == b


def _classification(ctx, model, p, loop, rows, old_param, old_coll):
    interp = model.interp
    for alt in loop["alts"]:
        adds = [x for x, _ in flat_events(alt["events"]) if x["k"] == "coll_add"]
        # (that every row lands in *some* set is C13's concern, R13.exh; here a
        # row must not land in two -- the live set and the delete set)
        ok1 = len(adds) <= 1 and alt["out"] == "normal"
        ctx.ob("R12.cmp", "no mailbox row lands in two sets", ok1, loop,
               "" if ok1 else "an iteration of the classification adds the mailbox to %d "
               "sets" % len(adds))
    if old_coll is None or old_coll[0] != "coll":
        ctx.ob("R12.cmp", "delete set is a collection filled by the classification", False,
               loop, "the mailbox delete loop does not iterate a classified set")
        return
    adds = interp.coll_adds.get(old_coll[1], [])
    okall = bool(adds)
    detail = ""
    for a in adds:
        el = a["elem"]
        row = el[1] if el[0] == "sub" else None
        if not (el[0] == "sub" and el[2] == ("const", "id") and row[0] == "elem" and
                strip_wrappers(row[1]) == rows):
            okall = False
            detail = "the delete set receives %s" % show(el)[:60]
            break
        upd = ("sub", row, ("const", "updated"))
        truth = pc_truth(a["pc"])
        hit = False
        for t, v in truth.items():
            if t[0] != "cmp":
                continue
            op, l, r = t[1], t[2], t[3]
            if l == upd and old_param is not None and r == old_param:
                # in the delete set iff NOT (updated > old)
                if (op in (">", ">=") and v is False) or (op in ("<", "<=") and v is True):
                    hit = True
                else:
                    detail = "mailboxes with updated %s cutoff == %s are expired" % (op, v)
            if r == upd and old_param is not None and l == old_param:
                if (op in ("<", "<=") and v is False) or (op in (">", ">=") and v is True):
                    hit = True
                else:
                    detail = "mailboxes with cutoff %s updated == %s are expired" % (op, v)
        if not hit:
            okall = False
            if not detail:
                detail = "membership in the delete set does not depend on " \
                    "row.updated vs the cutoff parameter"
            break
    ctx.ob("R12.cmp", "old set = rows whose updated is not newer than the cutoff", okall,
           loop, detail)


def _touch_commit_order(ctx, p):
    """inside prune: touch loop, then COMMIT(chan), then the classifying select"""
    for e, loops in all_events(p, ("loop",)):
        if e["func"] == _R.sweep_all:
            for alt in e["alts"]:
                seq = []
                for x in alt["events"]:
                    pass
                state = 0
                okk = False
                evs = [x for x, ls in flat_events(alt["events"], False)]
                for x in evs:
                    if x["func"] != _R.sweep_app and not (
                            x["k"] in ("sql", "commit", "loop") and _R.sweep_app in x["stack"]
                            and x.get("func", "").split(".")[0] not in ("Mailbox",)):
                        # (statements run for the sweep by a query helper count
                        # as the sweep's own)
                        continue
                    if x["k"] == "loop" and state == 0 and any(
                            _alt_touches(a) for a in x["alts"]):
                        state = 1
                    elif x["k"] == "commit" and x["db"] == "chan" and state == 1:
                        state = 2
                    elif x["k"] == "sql" and x["stmt"].kind == "select" and \
                            x["stmt"].table == "mailboxes":
                        okk = state == 2 or not _alt_touches(alt)
                        break
                if any(x["func"] == _R.sweep_app for x in evs):
                    ctx.ob("R12.touch", "touches are committed before the classifying select",
                           okk, e, "" if okk else "the classification reads mailboxes.updated "
                           "before the listener stamps are written and committed")


def _alt_touches(alt):
    for x, _ in flat_events(alt["events"]):
        if x["k"] == "sql" and x["stmt"].kind == "update" and x["stmt"].table == "mailboxes":
            return True
    return False


def _cutoff(ctx, model):
    info = model.timer_info()
    if not info:
        raise AnalysisError("R12.cutoff: TimerService call not found")
    p0, tev = info[0]
    period = fold(tev["args"][0]) if tev["args"] else None
    okp = period is not None and is_const(period) and isinstance(period[1], (int, float)) \
        and period[1] > 0
    from .shared import config_option
    pcfg = config_option(period) if period is not None else None
    if pcfg is not None:
        # an option: its default is checked; that the option parser admits only
        # positive values is not decided here
        d = fold(pcfg[1]) if pcfg[1] is not None else None
        okp = d is None or (is_const(d) and (d[1] is None or (
            isinstance(d[1], (int, float)) and d[1] > 0)))
        period = d if (d is not None and is_const(d) and d[1] is not None) else None
        ctx.note("the sweep period is the option %r (default %s): only the default is "
                 "checked" % (pcfg[0], show(d) if d is not None else "none"))
    ctx.ob("R12.cutoff", "sweep period is a positive constant", okp, tev,
           "" if okp else "period is %s" % show(period))
    n = 0
    from ..events import each_event
    prune_calls = [x for _, x, _ in each_event(model, ["timer"], ("call",))
                   if x["callee"] == _R.sweep_app]
    for p, e, _ in each_event(model, ["timer"], ("call",)):
        if True:
            if e["callee"] == _R.sweep_all:
                n += 1
                a = e["args"]
                ok = False
                why = "sweep is called with %s" % ", ".join(show(x)[:40] for x in a)
                if len(a) >= 2 and a[0][0] == "call" and a[0][1] == "time.time":
                    old = a[1]
                    if old[0] == "binop" and old[1] == "-" and old[2] == a[0]:
                        c = fold(old[3])
                        ccfg = config_option(c)
                        if ccfg is not None or (pcfg is not None and is_const(c)):
                            # C and / or the period are options: the defaults are
                            # compared; the relation between given values is the
                            # option parser's business and is not decided
                            dc = fold(ccfg[1]) if (ccfg and ccfg[1] is not None) else (
                                c if is_const(c) else None)
                            if dc is not None and is_const(dc) and \
                                    isinstance(dc[1], (int, float)) and period is not None:
                                ok = dc[1] > 0 and dc[1] > period[1]
                                why = "default expiration time %s is not larger than the " \
                                    "default sweep period %s" % (dc[1], period[1])
                            else:
                                ok = True
                        elif is_const(c) and isinstance(c[1], (int, float)):
                            if c[1] > 0 and okp and period is not None and c[1] > period[1]:
                                ok = True
                            else:
                                why = "expiration time %s is not larger than the sweep " \
                                    "period %s" % (c[1], period[1] if okp else "?")
                    elif old[0] == "binop" and old[1] == "+":
                        why = "the cutoff is now + C: every mailbox is older than the cutoff"
                ctx.ob("R12.cutoff", "timer passes (now, now - C) with C > period", ok, e,
                       "" if ok else why)
                # down to prune in the same order
                for x in prune_calls:
                    if True:
                        oko = len(x["args"]) >= 2 and x["args"][0] == a[0] and x["args"][1] == a[1]
                        ctx.ob("R12.cutoff", "prune_all_apps passes (now, old) unchanged", oko,
                               x, "" if oko else "per-app sweep receives (%s)" % ", ".join(
                                   show(y)[:30] for y in x["args"]))
    ctx.require("R12.cutoff", n, 1, "calls of the sweep from the timer callable")


def _touch_by_index(ctx, model, R):
    """The sweep stamps the mailboxes named by a container S of the namespace
    instead of walking the Mailbox registry.  S must then be exactly `ids of
    mailboxes with at least one listener`:
      (i)  every listener registration adds the mailbox's own id to S on the
           same path;
      (ii) an id leaves S only when the listener table of that mailbox is known
           to be empty (tested on the path, or cleared before).
    Returns the number of touch loops of that form."""
    from ..events import each_event, is_listeners_reg
    interp = model.interp
    lattr = model.names.listeners[1]
    found = 0
    index_attr = None
    done = set()
    for p, e, loops in each_event(model, ["timer"], ("loop",)):
        if id(e) in done or not (e["func"] == R.sweep_app or (
                R.sweep_app in e["stack"] and
                e["func"].split(".")[0] == R.sweep_app.split(".")[0])):
            continue
        done.add(id(e))
        it = strip_wrappers(e["iter"]) if e["iter"] else None
        if it is None or it[0] != "reg" or it[1][0] != "obj" or \
                (it[1][1], it[2]) in interp.registries:
            continue
        ups = [x for alt in e["alts"] for x, _ in flat_events(alt["events"])
               if x["k"] == "sql" and x["stmt"].kind == "update" and
               x["stmt"].table == "mailboxes" and "updated" in x["stmt"].cols]
        if not ups:
            continue
        found += 1
        index_attr = (it[1][1], it[2])
        ctx.ob("R12.touch", "sweep stamps the mailboxes listed in %s.%s" % index_attr, True,
               ups[0], "derived index; obligations (i)/(ii) below")
    if not found:
        return 0
    from . import shared
    nreg = 0
    seen = set()
    for (clause, label, ok, ev, detail, path) in shared.listener_index_obligations(
            model, index_attr):
        if clause == "iii":
            continue     # needed for `derived state` (C11), not for coverage
        if clause == "i":
            nreg += 1
        key = (label, ok)
        if key in seen:
            continue
        seen.add(key)
        ctx.ob("R12.touch", label, ok, ev, detail + ("" if ok else ": the sweep stops "
               "stamping a subscribed mailbox, which then expires"),
               None if ok else render_path(path.events))
    ctx.require("R12.touch", nreg, 1, "listener registrations")
    return found

EXPLANATION += ' Batch 6: the loop that stamps `updated` visits every mailbox (R12.all); text columns keep text (R12.exact).'
