"""C04 -- allocate returns a free, shortest-available nameplate and holds it."""
from ..events import (is_conn_side, all_events, is_app_id, construct_of, handler_paths,
                      handler_for, frame_type, frame_fields, flat_events)
from ..report import render_path
from ..terms import show, plain, is_const, strip_wrappers, mentions, walk
from ..e3 import pc_truth
from ..repo import AnalysisError

from . import shared

LEVEL = "other"
EXPLANATION = (
    "Decides: (free) the in-use set of the allocator is the set of names of ALL "
    "nameplates rows of the caller's app (one SELECT keyed by own app id only, no "
    "configuration-dependent accessor) and every value the finder can return is "
    "guarded by `not in` that set; (shortest, well-formed) the loop nest is "
    "constant-folded: sizes 1,2,3 ascending, candidate ranges exactly "
    "[10^(k-1), 10^k), first non-empty size returns, longer candidates only after "
    "all three and within [1000, 10^6), candidates formatted as %d of a positive "
    "int; (held) the allocator claims the same id for the caller's side before "
    "returning and the handler answers afterwards with that id. Not decided: "
    "uniformity of the random choice, behaviour at exhaustion (C17).")


def subst(t, var, val):
    if t == var:
        return val
    if not isinstance(t, tuple):
        return t
    return tuple(subst(x, var, val) if isinstance(x, tuple) else x for x in t)


def fold(t):
    if not isinstance(t, tuple) or not t:
        return t
    if t[0] == "binop":
        l, r = fold(t[2]), fold(t[3])
        if is_const(l) and is_const(r):
            try:
                a, b = l[1], r[1]
                op = t[1]
                if op == "+":
                    return ("const", a + b)
                if op == "-":
                    return ("const", a - b)
                if op == "*":
                    return ("const", a * b)
                if op == "**":
                    return ("const", a ** b)
                if op == "//":
                    return ("const", a // b)
            except Exception:
                pass
        return ("binop", t[1], l, r)
    return t


def range_bounds(it):
    if it[0] == "call" and it[1] == "range":
        a = it[2]
        if len(a) == 1:
            return ("const", 0), a[0]
        if len(a) >= 2:
            return a[0], a[1]
    return None


def describe_candidates(interp, coll_term):
    """normalise the choice set of the short sizes, whether it was built by a
    loop adding to a set or by a comprehension.
    -> list of {value, guards: [(term, polarity)], int_elem, range} or None"""
    x = strip_wrappers(coll_term)
    out = []
    if x[0] == "coll":
        adds = interp.coll_adds.get(x[1], [])
        if not adds:
            return None
        for a in adds:
            out.append({"value": a["elem"], "guards": list(pc_truth(a["pc"]).items()),
                        "site": a["site"]})
    elif x[0] == "comp":
        elt, it, conds = x[2], strip_wrappers(x[3]), x[4]
        guards = []
        for c in conds:
            guards.extend(pc_truth(((c, True, None),)).items())
        value = elt
        # element of an inner generator: the value is the generator's element
        # expression; guards on the variable are guards on that value
        alias = None
        if elt[0] == "elem" and strip_wrappers(elt[1])[0] == "comp":
            inner = strip_wrappers(elt[1])
            if inner[4]:
                return None
            alias = elt
            value = inner[2]
        guards = [(_subst_term(g, alias, value) if alias else g, v) for g, v in guards]
        out.append({"value": value, "guards": guards, "site": x[5]})
    else:
        return None
    for d in out:
        v = d["value"]
        d["int_elem"] = None
        d["range"] = None
        item = None
        if v[0] == "binop" and v[1] == "%" and v[2] == ("const", "%d"):
            item = v[3]
        elif v[0] == "call" and v[1] == "str" and len(v[2]) == 1:
            item = v[2][0]
        if item is not None and item[0] == "elem":
            d["int_elem"] = item
            d["range"] = range_bounds(strip_wrappers(item[1])) if item[1] else None
    return out


def _subst_term(t, old, new):
    if t == old:
        return new
    if not isinstance(t, tuple):
        return t
    return tuple(_subst_term(x, old, new) if isinstance(x, tuple) else x for x in t)


def run(ctx):
    model = ctx.model
    shared.import_rule(ctx, "C07", ("R07.callers", "R07.writers"), "R04.held",
                       "the rows the allocator reads as `in use` are removed by nothing but "
                       "their holders' release, the closing of their mailbox or expiry (same "
                       "rule instances as R07.callers, R07.writers)",
                       "a nameplate that a side still holds loses its row, so the allocator "
                       "takes it for free and hands it to another side", minimum=3)
    from .. import roles as _rm3
    shared.r_nocfg(ctx, "R04.nocfg", _rm3.get(model).release_op,
                   "a released nameplate keeps its row under the other setting and is never "
                   "handed out again")
    shared.r_lookup(ctx, "R04.lookup", ("nameplates", "nameplate_sides"))
    ctx.rule("R04.src", "the allocator's in-use set is the names of all nameplates rows "
             "of the own app (unfiltered, not the listing-gated accessor)")
    ctx.rule("R04.guard", "every value the finder returns is guarded by `not in` that set")
    ctx.rule("R04.tiling", "sizes 1,2,3 ascending with ranges [10^(k-1),10^k); first "
             "non-empty size returns; longer candidates only afterwards, in [1000,10^6); "
             "%d formatting of positive ints")
    ctx.rule("R04.hold", "the allocator claims the returned id for the caller's side "
             "before the handler answers `allocated` with it")
    h = handler_for(model, "allocate")
    paths = handler_paths(model, h)
    if not paths:
        raise AnalysisError("no paths for the allocate handler")
    # anchors by role: the claim operation is what the claim handler calls on
    # the namespace; the allocator is what the allocate handler calls
    CLAIM = None
    hc = handler_for(model, "claim")
    for p in handler_paths(model, hc):
        for e, _ in all_events(p, ("call",)):
            if e["func"].startswith("WebSocketServer.") and e["callee"].startswith("AppNamespace."):
                CLAIM = e["callee"]
                break
        if CLAIM:
            break
    ALLOC = None
    for p in paths:
        for e, _ in all_events(p, ("call",)):
            if e["func"].startswith("WebSocketServer.") and e["callee"].startswith("AppNamespace."):
                ALLOC = e["callee"]
                break
        if ALLOC:
            break
    if CLAIM is None or ALLOC is None:
        raise AnalysisError("R04: cannot find the claim / allocate operations of the "
                            "namespace from their handlers")
    # locate the finder: the callee of the allocator that returns the candidate
    nsrc = 0
    nret = 0
    nhold = 0
    tiling_done = False
    for p in paths:
        evs = [e for e, _ in all_events(p)]
        claim_call = None
        for e in evs:
            if e["k"] == "call" and e["callee"] == CLAIM:
                claim_call = e
        # in-use set: last select on nameplates before the claim
        sel = None
        for e in evs:
            if claim_call is not None and e is claim_call:
                break
            if e["k"] == "sql" and e["stmt"].kind == "select" and e["stmt"].table == "nameplates":
                sel = e
        if not any(e["k"] == "call" and e["callee"] == ALLOC
                   for e in evs):
            continue  # refused before allocating (validation error)
        if sel is None:
            ctx.ob("R04.src", "%s: in-use set" % h, False, evs[0],
                   "the allocator does not read the nameplates table")
            continue
        nsrc += 1
        eq = sel["src"]["where_eq"]
        ok = eq is not None and set(eq) == {"app_id"} and is_app_id(eq["app_id"]) and \
            ("name" in sel["stmt"].cols or "*" in sel["stmt"].cols) and \
            sel["stmt"].all_rows
        ctx.ob("R04.src", construct_of(sel), ok, sel,
               "" if ok else "the in-use set is read by %s" % sel["stmt"].normalized())
        rows = ("rows", sel["site"])
        # membership conditions and config taint inside the finder
        finder_rets = [e for e in evs if e["k"] == "ret" and claim_call is not None and
                       evs.index(e) < evs.index(claim_call) and
                       e["callee"].startswith("AppNamespace.") and
                       e["callee"] not in ("AppNamespace._get_nameplate_ids",
                                           "AppNamespace.get_nameplate_ids")]
        tainted = [c for c in (claim_call["pc"] if claim_call else ())
                   if mentions(c[0], lambda x: x[0] == "cfg" and x[1] == "allow_list")]
        ctx.ob("R04.src", "%s: allocator does not depend on the listing option" % h,
               not tainted, sel, "" if not tainted else "the in-use set depends on the "
               "listing configuration: with listing disallowed every nameplate looks free")
        if claim_call is None:
            continue
        cand = claim_call["args"][0] if claim_call["args"] else None
        if cand is None:
            continue
        # the in-use set term X: appears in `in` conditions with the rows
        def inuse_of(cond):
            t = cond
            if t[0] == "cmp" and t[1] == "in":
                s = strip_wrappers(t[3])
                if s[0] == "comp" and strip_wrappers(s[3]) == rows and not s[4] and \
                        s[2][0] == "sub" and s[2][2] == ("const", "name"):
                    return t[2]
                if s == rows:
                    return None
            return None
        nret += 1
        c = plain(cand)
        okg = False
        why = "the candidate %s is not tested against the in-use set" % show(c)[:60]
        if c[0] == "call" and c[1] == "random.choice":
            desc = describe_candidates(model.interp, c[2][0])
            if desc:
                okg = True
                for d in desc:
                    hit = False
                    for t, v in d["guards"]:
                        if inuse_of(t) == d["value"] and v is False:
                            hit = True
                    if not hit:
                        okg = False
                        why = "candidates are added to the choice set without the " \
                            "`not in` test against the in-use names"
        else:
            truth = pc_truth(claim_call["pc"])
            for t, v in truth.items():
                if inuse_of(t) == c and v is False:
                    okg = True
        ctx.ob("R04.guard", "%s: candidate %s" % (h, "from the short ranges" if
                                                  c[1] == "random.choice" else "long"),
               okg, claim_call, "" if okg else why, None if okg else render_path(p.events))
        # R04.hold
        nhold += 1
        side = claim_call["args"][1] if len(claim_call["args"]) > 1 else None
        oks = side is not None and is_conn_side(side)
        ctx.ob("R04.hold", "%s: claims the candidate for the caller's side" % h, oks,
               claim_call, "" if oks else "the allocator claims for %s" % show(side)[:60])
        for e in evs:
            if e["k"] == "send" and frame_type(e) == "allocated":
                ff = frame_fields(e) or {}
                after = any(x["k"] == "ret" and x["callee"] == CLAIM
                            for x in evs[:evs.index(e)])
                okf = after and plain(ff.get("nameplate", ("const", None))) == c
                ctx.ob("R04.hold", "%s: allocated frame carries the claimed id, after the "
                       "claim" % h, okf, e, "" if okf else
                       ("answered before the claim" if not after else
                        "allocated.nameplate is %s but %s was claimed" % (
                            show(ff.get("nameplate"))[:40], show(c)[:40])))
        # R04.tiling (structure is the same on every path: check once)
        if not tiling_done:
            tiling_done = _tiling(ctx, p, evs, sel, claim_call, h)
    ctx.require("R04.src", nsrc, 1, "allocate paths reading the in-use set")
    ctx.require("R04.guard", nret, 2, "allocate paths reaching the claim")
    ctx.require("R04.hold", nhold, 2, "allocate paths reaching the claim")
    if not tiling_done:
        raise AnalysisError("R04.tiling: candidate loops of the allocator not found")
    # a path that returns from the allocator without claiming
    for p in paths:
        evs = [e for e, _ in all_events(p)]
        sent = any(e["k"] == "send" and frame_type(e) == "allocated" for e in evs)
        claimed = any(e["k"] == "ret" and e["callee"] == CLAIM
                      for e in evs)
        if sent:
            ctx.ob("R04.hold", "%s: every answered allocate claimed first" % h, claimed,
                   evs[-1], "" if claimed else "allocated is sent on a path that never "
                   "claimed the nameplate")


def _tiling(ctx, p, evs, sel, claim_call, h):
    model = ctx.model
    i0 = evs.index(sel)
    i1 = evs.index(claim_call)
    loops = [e for e in p.events_between(sel, claim_call)] if hasattr(p, "events_between") else None
    # top-level loops of the finder between the select and the claim
    tops = []
    for e, ls in all_events(p, ("loop",)):
        if e in evs[i0:i1] and not ls:
            tops.append(e)
    if not tops:
        return False
    outer = tops[0]
    from ..terms import walk as _walk
    if outer["iter"] is not None and any(isinstance(x, tuple) and x and x[0] == "unknown"
                                         for x in _walk(outer["iter"])):
        # e.g. a table of candidates computed at import time: what it holds is
        # not modelled, so there is no verdict (not a violation)
        raise AnalysisError("R04.tiling: the allocator iterates a value the analysis does "
                            "not model (%s)" % show(outer["iter"])[:60])
    b = range_bounds(outer["iter"]) if outer["iter"] else None
    ok = b is not None and is_const(b[0]) and is_const(b[1]) and \
        list(range(b[0][1], b[1][1])) == [1, 2, 3]
    if not ok and outer["iter"] is not None:
        it0 = outer["iter"]
        if it0[0] == "const" and isinstance(it0[1], tuple):
            it0 = ("tuple", tuple(("const", x) for x in it0[1]))
        if it0[0] == "tuple" and [x[1] for x in it0[1] if is_const(x)] == [1, 2, 3] and \
                len(it0[1]) == 3:
            ok = True      # the sizes spelled out as a constant (1, 2, 3)
    if not ok and any(isinstance(e.get("site"), tuple) and e["site"][2] >= 1000
                      for e in evs[i0:i1]):
        # the size loop runs over a constant tuple and was unrolled: the
        # tiling rule reads loops, so it has no verdict on this shape
        raise AnalysisError("R04.tiling: the allocator's size loop iterates a constant "
                            "tuple (unrolled); this shape is not modelled")
    ctx.ob("R04.tiling", "sizes are 1,2,3 ascending", ok, outer,
           "" if ok else "size loop iterates %s" % show(outer["iter"])[:60])
    # the choice set of each size: candidate ranges and formatting
    cand = plain(claim_call["args"][0]) if claim_call["args"] else None
    desc = None
    for pth in model.paths("ws:onMessage"):
        for e2, _ in all_events(pth, ("call",)):
            if e2["callee"] == claim_call["callee"] and e2["args"]:
                c2 = plain(e2["args"][0])
                if c2[0] == "call" and c2[1] == "random.choice":
                    desc = describe_candidates(model.interp, c2[2][0])
        if desc:
            break
    size = ("elem", outer["iter"], outer["site"])
    if not desc:
        ctx.ob("R04.tiling", "candidate ranges [10^(k-1),10^k)", False, outer,
               "the choice set of the short sizes is not understood")
        return True
    good = True
    detail = ""
    okf = True
    for d in desc:
        if d["int_elem"] is None:
            okf = False
            detail = "candidates are %s" % show(d["value"])[:60]
            continue
        ib = d["range"]
        if ib is None:
            good = False
            detail = "candidates iterate %s" % show(d["int_elem"][1])[:60]
            continue
        for k in (1, 2, 3):
            lo = fold(subst(ib[0], size, ("const", k)))
            hi = fold(subst(ib[1], size, ("const", k)))
            if lo != ("const", 10 ** (k - 1)) or hi != ("const", 10 ** k):
                good = False
                detail = "for %d digits the candidates are range(%s, %s)" % (
                    k, show(lo), show(hi))
                break
    ctx.ob("R04.tiling", "candidate ranges [10^(k-1),10^k)", good, outer, detail if not good else "")
    ctx.ob("R04.tiling", "candidates are %d-formatted ints", okf, outer,
           "" if okf else detail)
    # a size is passed over only when it has no free candidate
    from ..e3 import pc_truth as _pct
    okskip = True
    why = ""
    for alt in outer["alts"]:
        if alt["out"] == "return":
            continue
        conds = _pct(alt["pc"])
        empties = [tt for tt, v in conds.items()
                   if v is False and strip_wrappers(tt)[0] in ("coll", "comp")]
        others = [tt for tt, v in conds.items()
                  if not (strip_wrappers(tt)[0] in ("coll", "comp")) and
                  not (tt[0] == "cmp" and tt[1] == "in")]
        if not empties or others:
            okskip = False
            why = "a digit length can be skipped for another reason than 'no free " \
                "candidate of that length' (%s)" % (
                    show(others[0])[:70] if others else "no emptiness test")
    ctx.ob("R04.tiling", "a size is skipped only when it has no free candidate", okskip,
           outer, why)
    # first non-empty size returns
    ret_alts = [a for a in outer["alts"] if a["out"] == "return"]
    okr = bool(ret_alts)
    ctx.ob("R04.tiling", "the first non-empty size returns", okr, outer,
           "" if okr else "the size loop never returns a candidate")
    # long candidates
    long_ok = False
    detail = "no fallback loop after the short sizes"
    for lp in tops[1:]:
        for alt in lp["alts"]:
            for e, _ in flat_events(alt["events"]):
                if e["k"] == "ext" and e["name"] == "random.randrange" and len(e["args"]) >= 2:
                    lo, hi = fold(e["args"][0]), fold(e["args"][1])
                    long_ok = is_const(lo) and is_const(hi) and lo[1] >= 1000 and \
                        hi[1] <= 10 ** 6 and lo[1] < hi[1]
                    detail = "" if long_ok else "fallback candidates come from " \
                        "randrange(%s, %s)" % (show(lo), show(hi))
    if len(tops) > 1:
        ctx.ob("R04.tiling", "longer candidates only after all short sizes, in [1000,10^6)",
               long_ok, tops[1], detail)
    return True
