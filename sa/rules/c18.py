"""C18 -- listing and usage options change nothing but what they advertise."""
from ..events import (all_events, construct_of, handler_paths, handler_for,
                      frame_type, frame_fields, handler_of, is_app_id)
from ..report import render_path
from ..terms import show, is_const, strip_wrappers, mentions, walk
from ..e3 import pc_truth
from .. import e3 as e3mod
from .. import e5 as e5mod
from ..repo import AnalysisError

LEVEL = "proof"
EXPLANATION = (
    "Non-interference by trace-set projection (E5): for each configuration "
    "source (listing allowed, usage database present, blur interval, request "
    "logging) and each runtime entry point, the abstract event paths on which the "
    "source was decided true and those on which it was decided false are projected "
    "onto their channel-visible events (mutating channel-DB statements with their "
    "bound terms, effective channel commits, frames with their fields except the "
    "one advertised answer, raises, registry and connection-attribute writes, "
    "listener callbacks), recursively for loop alternatives; the projected sets "
    "must be equal, so neither control nor data of anything channel-visible "
    "depends on the source. May-raise sites that exist only under a source are "
    "reported. The listing-gated accessor is used only by the list handler, and "
    "the list answer is the 1:1 image of SELECT DISTINCT name FROM nameplates "
    "WHERE app_id = own app (empty when disallowed).")


def run(ctx):
    model = ctx.model
    ctx.rule("R18.taint", "projected channel-visible trace sets are equal under source "
             "true / false, for every source and entry point (incl. loop alternatives); "
             "no may-raise site exists only under a source")
    ctx.rule("R18.gate", "the listing option is consulted only by the list handler")
    ctx.rule("R18.list", "the list answer is exactly the distinct names of the own "
             "app's nameplates when allowed, and [] when disallowed")
    e5 = e5mod.E5(model)
    for en in model.runtime_entries():
        for src in e5mod.SOURCES:
            e5.compare_paths(en, src)
    for (src, where, detail, sample) in e5.violations:
        ctx.ob("R18.taint", "%s influences %s" % (src, where), False, "", detail)
    for en in model.runtime_entries():
        ctx.ob("R18.taint", "%s: no channel-visible dependence on configuration" % en,
               not any(w.startswith(en) for (_, w, _, _) in e5.violations), "",
               "%d paths" % len(model.paths(en)))
    ctx.counts["R18.taint: true/false groups compared"] = e5.groups_compared
    if e5.groups_compared < 4:
        raise AnalysisError("R18.taint: only %d configuration-dependent groups found; "
                            "expected the usage-DB and listing branches" % e5.groups_compared)
    # may-raise sites inside configuration-dependent regions
    e3 = e3mod.get(model)
    for f in e3.may_raise():
        truth = pc_truth(f.event["pc"])
        srcs = [t[1] for t, v in truth.items() if t[0] == "cfg" and v is True]
        if srcs:
            ctx.ob("R18.taint", "may-raise %s at %s only with %s" % (
                f.may_raise, f.construct, ",".join(sorted(srcs))), False, f.site,
                f.detail + "; the failure (and what it aborts) happens only under this "
                "configuration", render_path(f.path.events) if f.path else None)
    for f in e3.by_kind("nullhandle"):
        ctx.ob("R18.taint", "may-raise %s at %s" % (f.may_raise, f.construct), False, f.site,
               f.detail + "; the command (and everything it would have done to the channel "
               "store) fails exactly when no usage database is configured",
               render_path(f.path.events) if f.path else None)
    # R18.gate
    h_list = handler_for(model, "list")
    from . import shared
    shared.r_convert(ctx, "R18.convert", ["ws:onMessage"],
                     "with listing allowed the list command fails for some stored names "
                     "instead of advertising them; with listing disallowed it does not",
                     handler=h_list)
    ngate = 0
    for en in model.runtime_entries():
        for p in model.paths(en):
            if pc_truth(p.pc).get(("cfg", "allow_list")) is None:
                continue
            ngate += 1
            ok = en == "ws:onMessage" and handler_of(p) == h_list
            ctx.ob("R18.gate", "listing option consulted by %s" % (handler_of(p) or en), ok,
                   p.events[-1] if p.events else "", "" if ok else
                   "the listing configuration influences %s" % (handler_of(p) or en))
    ctx.require("R18.gate", ngate, 2, "paths that consult the listing option")
    # R18.list
    nl = 0
    for p in handler_paths(model, h_list):
        allow = pc_truth(p.pc).get(("cfg", "allow_list"))
        for e, _ in all_events(p, ("send",)):
            if frame_type(e) != "nameplates":
                continue
            nl += 1
            v = (frame_fields(e) or {}).get("nameplates")
            ok, why = _list_shape(ctx, p, v, allow)
            ctx.ob("R18.list", "list answer (listing %s)" % (
                "allowed" if allow else "disallowed" if allow is False else "not consulted"),
                ok, e, why)
    ctx.require("R18.list", nl, 2, "list answers")


def _list_shape(ctx, p, v, allow):
    if allow is None:
        return False, "the list answer does not depend on the listing option"
    if v is not None and v[0] == "coll":
        # nameplates = []; for nid in ids: nameplates.append({"id": nid})
        adds = [a for a in ctx.model.interp.coll_adds.get(v[1], [])
                if tuple(a["pc"][:len(p.pc)]) == tuple(p.pc[:len(a["pc"])])]
        if len(adds) == 1 and adds[0]["elem"][0] == "dictlit":
            el = adds[0]["elem"]
            inner = el[1][0][1] if len(el[1]) == 1 else None
            extra = [c for c in adds[0]["pc"][len(p.pc):]]
            in_loop_conds = [c for c in adds[0]["pc"]
                             if c[2] is not None and c[2][0] == adds[0]["site"][0] and
                             abs(c[2][1] - adds[0]["site"][1]) <= 3 and
                             c[2][1] > v[1][1]]
            if inner is not None and inner[0] == "elem" and not in_loop_conds:
                v = ("comp", "list", el, inner[1], (), adds[0]["site"])
            if allow is False and inner is not None and inner[0] == "elem":
                src = strip_wrappers(inner[1])
                if src[0] == "coll" and not ctx.model.interp.coll_adds.get(src[1]):
                    return True, ""
        elif not adds and allow is False:
            return True, ""
    if v is None or v[0] != "comp" or v[4]:
        return False, "the answer is %s" % show(v)[:80]
    elt, it = v[2], strip_wrappers(v[3])
    # element: {"id": <name>}
    okelt = elt[0] == "dictlit" and len(elt[1]) == 1 and elt[1][0][0] == ("const", "id") and \
        elt[1][0][1][0] == "elem"
    if not okelt:
        return False, "list entries are %s" % show(elt)[:60]
    if allow is False:
        if it[0] == "coll" and not ctx.model.interp.coll_adds.get(it[1]):
            return True, ""
        return False, "with listing disallowed the answer is built from %s" % show(it)[:60]
    if it[0] != "comp" or it[4]:
        return False, "the listed names are filtered: %s" % show(it)[:80]
    names, rows = it[2], strip_wrappers(it[3])
    if not (names[0] == "sub" and names[2] == ("const", "name") and rows[0] == "rows"):
        return False, "the listed values are %s" % show(names)[:60]
    sel = None
    for e, _ in all_events(p, ("sql",)):
        if e["site"] == rows[1]:
            sel = e
    if sel is None:
        return False, "select feeding the list not found"
    eq = sel["src"]["where_eq"]
    ok = sel["stmt"].table == "nameplates" and eq is not None and set(eq) == {"app_id"} \
        and is_app_id(eq["app_id"]) and sel["stmt"].all_rows
    return ok, "" if ok else "names are read by %s" % sel["stmt"].normalized()

EXPLANATION += ' Batch 6: no unguarded int()/float() in the list handler (R18.convert).'
