"""C03 -- a nameplate leads all its claimants to one stable, unshared mailbox."""
from ..events import (all_events, is_app_id, construct_of, handler_paths,
                      handler_for, frame_type, frame_fields, flat_events,
                      is_client_value, handler_of)
from ..report import render_path
from ..terms import show, plain, is_const, strip_wrappers, mentions, walk
from .. import e3 as e3mod
from . import shared
from ..repo import AnalysisError

LEVEL = "other"
EXPLANATION = (
    "Decides: (app,name) is unique (guard select keyed exactly (app_id,name), "
    "absent branch, handlers atomic); the id answered by a claim is, on every "
    "path, either the id just generated AND stored in the new row, or the stored "
    "mailbox_id of the row selected by (own app, name); stored nameplate rows are "
    "never updated; new ids carry >= 64 bits from os.urandom through injective "
    "encodings; the creation branch always calls the generator. Not decided: "
    "probabilistic distinctness of random ids.")
EXPLANATION += ' Also decided: the retirement phase of release is reachable from the half-done state, every entry point exits clean, and no start-up statement touches nameplates or mailboxes.'

INJECTIVE = (".lower", ".decode", "base64.b32encode", "base64.b16encode",
             "base64.b64encode", "base64.urlsafe_b64encode", "binascii.hexlify",
             ".hex", "bytes_to_hexstr", "str")
PADDING_STRIP = (".strip", ".rstrip")


def entropy_bytes(t):
    """peel injective encodings; -> number of urandom bytes or None"""
    seen = 0
    while seen < 12:
        seen += 1
        if t[0] != "call":
            return None
        name = t[1]
        if name == "os.urandom":
            a = t[2][0] if t[2] else None
            if a is not None and is_const(a) and isinstance(a[1], int):
                return a[1]
            return None
        if name in INJECTIVE and t[2]:
            t = t[2][0]
            continue
        if name in PADDING_STRIP and len(t[2]) == 2 and is_const(t[2][1]) and \
                t[2][1][1] in (b"=", "="):
            t = t[2][0]
            continue
        return None
    return None


def run(ctx):
    model = ctx.model
    shared.import_rule(ctx, "C07", ("R07.writers", "R07.lookup"), "R03.live",
                       "claim rows and nameplate rows are changed / deleted only through one "
                       "app-scoped nameplate id (same rule instances as R07.writers, R07.lookup)",
                       "a nameplate that is still held is retired from elsewhere (another "
                       "nameplate's or another app's release): the holder's next claim creates "
                       "a new nameplate and is told a different mailbox id", minimum=3)
    from .. import roles as _rm2
    shared.r_ident(ctx, "R03.ident", (_rm2.get(model).claim_op, _rm2.get(model).release_op),
                   "two different names lead to one nameplate, or one name to two")
    shared.r_wire(ctx, "R03.wire")
    from .. import roles as _rolesmod
    shared.r_callers(ctx, "R03.callers", _rolesmod.get(model).release_op, ("release",),
                     "a live nameplate is retired although no claimant released it; the next "
                     "claim of the name gets a fresh mailbox")
    shared.r_collation(ctx, "R03.exact", ('nameplates', 'mailboxes'),
                       'two different names share one nameplate row and one mailbox')
    shared.r_lookup(ctx, "R03.lookup", ('nameplates',))
    shared.r_durable(ctx, "R03.durable", ("chan",),
                     "after a restart the nameplate's mailbox binding is not the one the claimants were told")
    shared.r_startup(ctx, "R03.startup", ('nameplates', 'mailboxes'),
                     'a live nameplate loses its row (and with it its mailbox id) although no side released it')
    from .. import roles as _roles
    R = _roles.get(model)
    interp = model.interp
    ctx.rule("R03.unique", "INSERT INTO nameplates lies in the absent branch of a "
             "select keyed exactly (app_id, name); handlers are atomic")
    ctx.rule("R03.ret", "claim returns the id just generated and stored, or the "
             "stored id of the row selected by (own app, name); the handler answers "
             "with that value")
    ctx.rule("R03.immut", "no UPDATE touches the nameplates table")
    ctx.rule("R03.entropy", "new mailbox ids are os.urandom(k>=8) through injective "
             "encodings")
    ctx.rule("R03.create", "the creation branch stores a freshly generated id")
    e3 = e3mod.get(model)
    nu = 0
    for f in e3.by_kind("unique"):
        if f.event["stmt"].table == "nameplates":
            nu += 1
            ctx.ob("R03.unique", f.construct, f.ok, f.site, f.detail)
    ctx.require("R03.unique", nu, 1, "guarded INSERTs into nameplates")
    shared.r_atomic(ctx)
    # R03.ret
    h = handler_for(model, "claim")
    nret = 0
    for p in handler_paths(model, h):
        ins = None
        ret = None
        for e, _ in all_events(p):
            if e["k"] == "sql" and e["stmt"].kind == "insert" and e["stmt"].table == "nameplates":
                ins = e
            if e["k"] == "ret" and e["callee"] == R.claim_op:
                ret = e
        if ret is None:
            continue
        nret += 1
        v = ret["value"]
        ok = False
        why = "claim returns %s" % show(v)[:80]
        if ins is not None:
            stored = ins["binds"]["set"].get("mailbox_id")
            if stored == plain(v) and mentions(v, lambda x: x[0] == "call" and x[1] == "os.urandom"):
                ok = True
            else:
                why = "the creation path returns %s but stores %s" % (
                    show(v)[:50], show(stored)[:50] if stored else "nothing")
        else:
            if v[0] == "sub" and v[2] == ("const", "mailbox_id") and v[1][0] == "row":
                sel = None
                for e, _ in all_events(p, ("sql",)):
                    if e["site"] == v[1][1]:
                        sel = e
                if sel is not None:
                    eq = sel["src"]["where_eq"]
                    ok = sel["stmt"].table == "nameplates" and eq is not None and \
                        set(eq) == {"app_id", "name"} and is_app_id(eq["app_id"]) and \
                        is_client_value(eq["name"])
                    if not ok:
                        why = "the returned id is read from a row selected by (%s)" % (
                            sel["stmt"].where.render() if sel["stmt"].where else "nothing")
        ctx.ob("R03.ret", "claim_nameplate returns the stored id (%s)" % (
            "created" if ins is not None else "existing"), ok, ret, "" if ok else why,
            None if ok else render_path(p.events))
        # the frame carries that value
        for e, _ in all_events(p, ("send",)):
            if frame_type(e) == "claimed":
                ff = frame_fields(e) or {}
                okf = plain(ff.get("mailbox", ("const", None))) == plain(v)
                ctx.ob("R03.ret", "%s: claimed.mailbox is the returned id" % h, okf, e,
                       "" if okf else "claimed frame carries %s" % show(ff.get("mailbox"))[:60])
    ctx.require("R03.ret", nret, 2, "returning paths of claim_nameplate in the claim handler")
    # every `claimed` answer, wherever it is sent, carries the value the claim
    # operation returned on that very path (never a remembered one)
    for en in model.runtime_entries():
        for p in model.paths(en):
            rets = [e for e, _ in all_events(p, ("ret",))
                    if e["callee"] == R.claim_op]
            for e, _ in all_events(p, ("send",)):
                if frame_type(e) != "claimed":
                    continue
                ff = frame_fields(e) or {}
                mv = plain(ff.get("mailbox", ("const", None)))
                ok = bool(rets) and any(plain(r["value"]) == mv for r in rets)
                ctx.ob("R03.ret", "claimed.mailbox comes from the claim made on this path "
                       "(%s)" % e["func"].replace("WebSocketServer.send", handler_of(p) or en),
                       ok, e, "" if ok else "a `claimed` answer carries %s, which is not "
                       "the id returned by claiming the nameplate now (a remembered value "
                       "can belong to a retired incarnation)" % show(mv)[:60],
                       None if ok else render_path(p.events))
    # R03.immut
    nimm = 0
    for en in model.runtime_entries():
        for p in model.paths(en):
            for e, _ in all_events(p, ("sql",)):
                if e["db"] == "chan" and e["stmt"].table == "nameplates":
                    nimm += 1
                    if e["stmt"].kind == "update":
                        ctx.ob("R03.immut", construct_of(e), False, e,
                               "a stored nameplate row is rewritten: claimants of one "
                               "nameplate can be told different mailbox ids")
    ctx.ob("R03.immut", "no UPDATE on nameplates", True)
    ctx.require("R03.immut", nimm, 4, "statements on the nameplates table")
    # R03.entropy / R03.create
    nc = 0
    for p in handler_paths(model, h) + handler_paths(model, handler_for(model, "allocate")):
        for e, _ in all_events(p, ("sql",)):
            if e["stmt"].kind == "insert" and e["stmt"].table == "nameplates":
                nc += 1
                v = e["binds"]["set"].get("mailbox_id")
                n = entropy_bytes(v) if v is not None else None
                ok = n is not None and n >= 8
                ctx.ob("R03.entropy", construct_of(e) + " [id entropy]", ok, e,
                       "" if ok else ("the new mailbox id is %s" % show(v)[:80] if n is None
                                      else "only %d random bytes" % n))
                fresh = v is not None and any(
                    x["k"] == "ext" and x["name"] == "os.urandom"
                    for x, _ in all_events(p, ("ext",)))
                ctx.ob("R03.create", construct_of(e) + " [fresh id]", fresh and n is not None,
                       e, "" if (fresh and n is not None) else "the creation branch does "
                       "not generate a new id")
    ctx.require("R03.create", nc, 1, "INSERTs into nameplates")
    # a nameplate whose last claim was released must really be retired, also
    # when the release is re-sent after a crash between its two commits:
    # otherwise the next claimant of the name inherits the old mailbox id
    from .c10 import _resume
    from ..report import Ctx
    sub = Ctx(model, "C10", ctx.tier)
    _resume(sub)
    ctx.rule("R03.retire", "the retirement phase of release is reachable from the "
             "half-done state (same rule as R10.resume): a released name gets a fresh "
             "mailbox in its next incarnation")
    for o in sub.obligations:
        if "nameplates" in o.construct:
            ctx.ob("R03.retire", o.construct, o.ok, o.site, o.detail)
    ctx.assume("fresh 64-bit random ids do not collide with stored ones (probabilistic; "
               "not decided)")

EXPLANATION += ' Batch 6: columns that receive client text must have TEXT or no affinity.'
