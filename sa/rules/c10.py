"""C10 -- any crash leaves a database the server can restart from and clean up."""
from ..events import all_events, construct_of
from ..report import render_path
from .. import e3 as e3mod
from .. import roles as rolesmod
from . import shared

LEVEL = "other"
EXPLANATION = (
    "Crash points are commit boundaries (R-atomic + SQLite atomic commit), so "
    "'what a crash can leave' is any prefix of the committed transactions of a "
    "path. Decides: every transaction is FK-closed (insert side: parent known to "
    "exist; delete side: children deleted in the same transaction), so the "
    "start-up foreign_key_check passes; no duplicate (app,name) / (nameplate,side) "
    "/ mailbox id / (mailbox,side) rows can be committed (uniqueness guards, "
    "deferred default transactions); the child-non-empty invariants the sweep's "
    "summaries rely on are crash-stable or their consumers guard the empty case; "
    "no may-raise site lies on any sweep path. Not decided: equality of the "
    "resumed run with the uncrashed run (two-run equivalence over histories).")


def _null_columns(ctx):
    """The sweep computes with stored values (`row["updated"] > old`,
    `now - row["updated"]`).  Every committed row must therefore carry a value
    in such a column: each INSERT into the table binds it (to something other
    than None), or the schema gives it NOT NULL / a default."""
    from ..events import each_event, construct_of
    from ..terms import walk, strip_wrappers
    model = ctx.model
    interp = model.interp
    ctx.rule("R10.null", "columns the sweep computes with are bound by every INSERT into "
             "their table")
    chan = ctx.repo.channel_schema()
    used = {}

    def note(t, e):
        for x in walk(t):
            if x[0] in ("cmp", "binop") and x[1] in ("<", ">", "<=", ">=", "-", "+", "//", "*"):
                for side in x[2:4]:
                    if isinstance(side, tuple) and side[0] == "sub" and \
                            side[2][0] == "const" and isinstance(side[2][1], str):
                        base = side[1]
                        rows = None
                        if base[0] == "elem":
                            rows = strip_wrappers(base[1])
                        elif base[0] == "row":
                            rows = base
                        if rows is not None and rows[0] in ("rows", "row"):
                            st = interp.sql_sites.get(rows[1])
                            if st is not None and st.kind == "select" and st.table in chan.tables:
                                used.setdefault((st.table, side[2][1]), e)
    for p in model.paths("timer"):
        for e, _ in all_events(p):
            for (t, b, site) in e.get("pc", ()):
                note(t, e)
            if e["k"] == "sql":
                for v in e["params"]:
                    note(v, e)
    n = 0
    for (table, col), ev in sorted(used.items()):
        cdef = chan.tables[table].col(col)
        if cdef is None or cdef.get("notnull") or cdef.get("pk"):
            continue
        seen = set()
        for p, e, loops in each_event(model, model.runtime_entries(), ("sql",)):
            if e["db"] != "chan" or e["stmt"].kind != "insert" or e["stmt"].table != table:
                continue
            if e["site"] in seen:
                continue
            seen.add(e["site"])
            n += 1
            v = e["binds"]["set"].get(col)
            ok = v is not None and v != ("const", None)
            ctx.ob("R10.null", "%s binds `%s`" % (construct_of(e), col), ok, e,
                   "" if ok else "a `%s` row is committed with `%s` NULL; if the process "
                   "dies before a later statement fills it in, the sweep computes with NULL "
                   "(%s) and raises on every run" % (table, col, "%s:%d" % ev["site"][:2]))
    ctx.require("R10.null", n, 1, "INSERTs into tables whose columns the sweep computes with")


def _orphans(ctx, rule="R10.orphan", text=None):
    """messages (which have no declared foreign key) are found by the sweep only
    through their mailbox row: they must go in the transaction that deletes it"""
    from . import c01
    from ..report import Ctx
    sub = Ctx(ctx.model, "C01", ctx.tier)
    c01.run(sub)
    ctx.rule(rule, text or "message rows are deleted in the transaction that deletes their "
             "mailbox row (same rule instances as R01.codel): a crash between two "
             "transactions would leave rows no sweep finds")
    n = 0
    for o in sub.obligations:
        if o.rule == "R01.codel":
            n += 1
            ctx.ob(rule, o.construct, o.ok, o.site, o.detail)
    ctx.require(rule, n, 1, "mailbox deletions")


def _sweep_reaches_all(ctx):
    """after a crash nobody may return: what is left is emptied only if the
    sweep finds its work in the database, not in objects that a restart lost
    (same rule instances as R13.apps)"""
    from . import c13
    from ..report import Ctx
    sub = Ctx(ctx.model, "C13", ctx.tier)
    c13.run(sub)
    ctx.rule("R10.apps", "the sweep enumerates the applications from the database and visits "
             "every one of them (same rule instances as R13.apps): "
             "the store left by a crash is emptied although no client returns")
    n = 0
    for o in sub.obligations:
        if o.rule == "R13.apps":
            n += 1
            ctx.ob("R10.apps", o.construct, o.ok, o.site, o.detail)
    ctx.require("R10.apps", n, 2, "app loops of the sweep")


def run(ctx):
    model = ctx.model
    _null_columns(ctx)
    _orphans(ctx)
    _sweep_reaches_all(ctx)
    shared.r_durable(ctx, "R10.durable", ("chan", "usage"),
                     "an acknowledged command whose effect a crash loses is not re-sent by the client: the stored state diverges from the crash-free one")
    ctx.rule("R10.fk", "every transaction is FK-closed (E3 insert side and delete side)")
    ctx.rule("R10.dup", "every INSERT into a keyed table is in the absent branch of a "
             "guard select keyed exactly by the key")
    ctx.rule("R10.inv", "every transaction inserting a parent row inserts its first side "
             "row; side rows are deleted only with their parent; consumers of 'first "
             "side row' are guarded or rely on a crash-stable invariant")
    ctx.rule("R10.sweep", "no may-raise site on any sweep path")
    ctx.rule("R10.conn", "connections use SQLite's default deferred transactions")
    e3 = e3mod.get(model)
    e3.require_proved()
    n = {"fk": 0, "dup": 0, "inv": 0}
    for f in e3.findings:
        pth = render_path(f.path.events) if (f.path and not f.ok) else None
        if f.kind in ("fk_insert", "fk_delete"):
            n["fk"] += 1
            ctx.ob("R10.fk", f.construct, f.ok, f.site, f.detail, pth)
        elif f.kind == "unique":
            n["dup"] += 1
            if not f.ok and "declared unique key" in f.detail:
                # the guard is wider than a key the database itself enforces:
                # no duplicate can be stored (the INSERT fails instead; that
                # failure is reported under C06 / C17)
                ctx.ob("R10.dup", f.construct, True, f.site,
                       "duplicates are excluded by the declared key itself")
                continue
            ctx.ob("R10.dup", f.construct, f.ok, f.site, f.detail, pth)
        elif f.kind == "parent_insert":
            n["inv"] += 1
            if not f.ok:
                # the invariant is not crash-stable: acceptable iff every
                # consumer of 'first side row' guards the empty case
                ptab = f.event["stmt"].table
                bad = [c for inv, cs in e3.unguarded_consumers.items()
                       if inv[0] == ptab for c in cs]
                ctx.ob("R10.inv", f.construct, not bad, f.site,
                       (f.detail + "; every consumer guards the empty case") if not bad
                       else f.detail + "; unguarded consumer: " + bad[0], pth)
            else:
                ctx.ob("R10.inv", f.construct, True, f.site, f.detail)
        elif f.kind in ("child_delete", "index"):
            n["inv"] += 1
            ctx.ob("R10.inv", f.construct, f.ok, f.site, f.detail, pth)
    ctx.require("R10.fk", n["fk"], 4, "FK obligations")
    ctx.require("R10.dup", n["dup"], 3, "uniqueness guards")
    ctx.require("R10.inv", n["inv"], 4, "invariant obligations")
    ns = 0
    for f in e3.may_raise():
        if f.path is not None and model.is_timer_entry(f.path.entry) or \
                any(s in (rolesmod.get(model).sweep_all, rolesmod.get(model).sweep_app)
                    for x in e3.occurrences(f) for s in x["stack"]):
            ns += 1
            ctx.ob("R10.sweep", "may-raise %s at %s" % (f.may_raise, f.construct), False,
                   f.site, f.detail + "; prune_all_apps has no per-app isolation, so the "
                   "exception stops the sweep for every app sorted after this one, on "
                   "every later sweep", render_path(f.path.events) if f.path else None)
    ctx.ob("R10.sweep", "sweep paths analysed", True, "",
           "%d paths of the timer callable" % len(model.paths("timer")))
    _resume(ctx)
    shared.r_conn(ctx, "R10.conn")
    shared.r_atomic(ctx)
    ctx.assume("SQLite commits atomically; with foreign_keys=ON a violating statement "
               "fails immediately (constraints are not deferred)")


def _resume(ctx):
    """two-phase operations (flag update + commit, then retirement in a second
    transaction): a crash between the phases leaves this side's flag already
    cleared, so the re-sent command must still reach the retirement phase"""
    from ..events import handler_for, handler_paths
    from ..e3 import pc_truth
    from ..terms import walk, show
    model = ctx.model
    ctx.rule("R10.resume", "the retirement phase of close/release does not require this "
             "side's own flag to be still set (it is already cleared after a crash "
             "between the two commits)")
    n = 0
    for (cmd, side_tbl, flag, parent) in (("close", "mailbox_sides", "opened", "mailboxes"),
                                          ("release", "nameplate_sides", "claimed",
                                           "nameplates")):
        h = handler_for(model, cmd)
        for p in handler_paths(model, h):
            own = set()
            for e, _ in all_events(p, ("sql",)):
                if e["db"] != "chan":
                    continue
                st = e["stmt"]
                if st.kind == "select" and st.table == side_tbl:
                    eq = e["binds"]["where_eq"]
                    if eq is not None and "side" in eq and len(eq) == 2:
                        own.add(("row", e["site"]))
                if st.kind == "delete" and st.table == parent:
                    n += 1
                    bad = None
                    for tt, v in pc_truth(e["pc"]).items():
                        if v is not True:
                            continue
                        for x in walk(tt):
                            if x[0] == "sub" and x[1] in own and x[2] == ("const", flag) \
                                    and tt[0] in ("sub", "truth"):
                                bad = tt
                    ctx.ob("R10.resume", "%s reaches its retirement phase from the "
                           "half-done state" % construct_of(e), bad is None, e,
                           "" if bad is None else "the deletion is reached only if this "
                           "side's own `%s` flag is still set (%s): after a crash between "
                           "the flag commit and the deletion, the re-sent %s returns early "
                           "and the rows stay until they expire" % (flag, show(bad)[:60], cmd))
    ctx.require("R10.resume", n, 2, "retirement deletes on close/release paths")

EXPLANATION += ' Batch 6: the sweep enumerates the applications from the database and visits each (R10.apps = R13.apps); emptiness guards of subscripts are read with their polarity.'
