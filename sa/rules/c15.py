"""C15 -- exactly one correctly classified usage record per retirement."""
import itertools

from ..events import (all_events, construct_of, flat_events)
from ..report import render_path
from ..terms import show, plain, is_const, strip_wrappers, mentions, walk
from .. import e3 as e3mod
from .. import names
from .. import e4 as e4mod
from ..repo import AnalysisError

from . import shared

LEVEL = "other"
EXPLANATION = (
    "Decides: (pair) on every path with a usage database, every channel-DB delete "
    "of a nameplates / mailboxes row is accompanied in the same transaction by "
    "exactly one usage INSERT for that table, fed by the side-row select of that "
    "object taken before its side rows are deleted, and every such usage INSERT "
    "accompanies a delete; (table) the classifier's branch structure, evaluated "
    "abstractly over every combination of number of sides (1-4), set of moods "
    "(lonely/errory/scary/happy/unknown, missing) and pruned, yields the "
    "documented precedence; (times) started/waiting/total are the order statistics "
    "of the `added` column; (count) the status row's connection count is the sum "
    "over all namespaces and mailboxes of the listener-collection size. Not "
    "decided: numeric values of records.")
EXPLANATION += ' Also decided: a side is admitted only with its side row stored, and no start-up statement touches usage records.'

SIDE_TABLE = {"nameplates": ("nameplate_sides", "nameplates_id"),
              "mailboxes": ("mailbox_sides", "mailbox_id")}
MOODS = ["lonely", "errory", "scary", "happy", "weird"]


class EvalUnknown(Exception):
    pass


def eval_cond(t, env):
    """evaluate a classifier condition under env = {n, moods, pruned}"""
    k = t[0]
    if k == "const":
        return t[1]
    if k == "not":
        return not eval_cond(t[1], env)
    if k == "truth":
        return bool(eval_cond(t[1], env))
    if k == "param" and t[1] == "pruned":
        return env["pruned"]
    if k == "cfg":
        return env.get("cfg", False)
    if k == "cmp":
        op = t[1]
        l = eval_val(t[2], env)
        r = eval_val(t[3], env)
        if op == "in":
            return l in r
        return {"==": l == r, ">": l > r, ">=": l >= r, "<": l < r, "<=": l <= r}[op]
    if k == "comp" or k == "call":
        v = eval_val(t, env)
        return bool(v)
    raise EvalUnknown(show(t)[:80])


def eval_val(t, env):
    k = t[0]
    if k == "const":
        return t[1]
    if k == "call" and t[1] == "len":
        v = eval_val(t[2][0], env)
        return len(v)
    if k == "call" and t[1] in ("sorted", "list", "set"):
        return eval_val(t[2][0], env)
    if k == "comp":
        _, kind, elt, it, conds, site = t
        if it != ("param", "side_rows") and strip_wrappers(it) != ("param", "side_rows"):
            raise EvalUnknown("comprehension over %s" % show(it)[:40])
        col = _col_of(elt)
        if col == "added":
            return list(range(env["n"]))
        if col == "mood":
            # filter `if row.get("mood")` drops missing moods
            return [m for m in env["moods"] if m is not None] if conds else list(env["moods"])
        raise EvalUnknown("comprehension element %s" % show(elt)[:40])
    if k == "param" and t[1] == "pruned":
        return env["pruned"]
    raise EvalUnknown(show(t)[:80])


def _col_of(elt):
    if elt[0] == "sub" and is_const(elt[2]):
        return elt[2][1]
    if elt[0] == "call" and elt[1] == ".get" and len(elt[2]) >= 2 and is_const(elt[2][1]):
        return elt[2][1][1]
    return None


def expected(kind, n, moods, pruned):
    ms = set(m for m in moods if m)
    if n > 2:
        return "crowded"
    if pruned:
        return "pruney"
    if kind == "mailbox":
        if "scary" in ms:
            return "scary"
        if "errory" in ms:
            return "errory"
        if "lonely" in ms:
            return "lonely"
    return "lonely" if n == 1 else "happy"


def run(ctx):
    model = ctx.model
    shared.r_wire(ctx, "R15.wire")
    shared.r_lookup(ctx, "R15.lookup", ('mailboxes',))
    shared.r_startup(ctx, "R15.startup", ('nameplates', 'mailboxes'),
                     'usage records are removed or rewritten', usage=True)
    from .. import roles as _roles
    R = _roles.get(model)
    interp = model.interp
    ctx.rule("R15.pair", "each retirement delete is paired (same transaction, usage DB "
             "configured) with exactly one usage record fed by the side rows selected "
             "before they are deleted, and vice versa")
    ctx.rule("R15.table", "classifier precedence: crowded > pruney > scary > errory > "
             "lonely > by-count, unknown/missing moods do not change the result")
    ctx.rule("R15.times", "started/waiting/total are order statistics of `added`")
    ctx.rule("R15.count", "the status row counts sum over namespaces, mailboxes of "
             "len(listeners)")
    # R15.pair
    nret = 0
    for tx in e3mod.walk_transactions(model, ["ws:onMessage", "timer"]):
        (p, e, prior, later, loops) = tx
        st = e["stmt"]
        if st.kind != "delete" or st.table not in SIDE_TABLE:
            continue
        nret += 1
        side_tbl, fk = SIDE_TABLE[st.table]
        around = list(prior) + list(later)
        flat = []
        for x in around:
            flat.append(x)
        usage_true = False
        usage_false = False
        def _usage_pol(t, b):
            # (cfg usage_db) possibly under not / truth wrappers -> polarity or None
            while t[0] in ("not", "truth"):
                if t[0] == "not":
                    b = not b
                t = t[1]
            return b if t == ("cfg", "usage_db") else None
        for x, _ in flat_events(later):
            for (t, b, s) in x["pc"][len(e["pc"]):]:
                pol = _usage_pol(t, b)
                if pol is True:
                    usage_true = True
                elif pol is False:
                    usage_false = True
        for (t, b, s) in tuple(e["pc"]) + tuple(tx.alt_pc):
            pol = _usage_pol(t, b)
            if pol is not None:
                usage_true = usage_true or pol
                usage_false = usage_false or (not pol)
        recs = [x for x, _ in flat_events(around)
                if x["k"] == "sql" and x["db"] == "usage" and x["stmt"].kind == "insert"
                and x["stmt"].table == st.table]
        cons = construct_of(e) + " [usage record]"
        if usage_false and not usage_true:
            ok = not recs
            ctx.ob("R15.pair", cons + " (no usage DB)", ok, e,
                   "" if ok else "usage record written although no usage DB is configured")
            continue
        if len(recs) != 1:
            ctx.ob("R15.pair", cons, False, e,
                   ("the %s row is retired without a usage record%s" % (
                       st.table[:-1], "" if usage_true else
                       " (the usage database is not even consulted on this path)"))
                   if not recs else "%d usage records are written for one retirement"
                   % len(recs), render_path(p.events))
            continue
        # the record is fed by the side rows of this object, selected before
        # they were deleted
        rec = recs[0]
        rowsrc = None
        for x, _ in flat_events(around):
            if x["k"] == "call":
                for (pn, a) in x.get("argmap", ()):
                    if a[0] == "rows":
                        rowsrc = a
        ok = False
        why = "the usage record is not computed from a side-row select"
        if rowsrc is not None:
            sst = interp.sql_sites.get(rowsrc[1])
            sel = None
            order = [x for x, _ in flat_events(prior) if x["k"] == "sql"]
            for x in order:
                if x["site"] == rowsrc[1]:
                    sel = x
            key = None
            eq = e["binds"]["where_eq"] or {}
            if "id" in eq:
                key = eq["id"]
            if sst is None or sst.table != side_tbl:
                why = "the record is computed from `%s` rows, not from `%s`" % (
                    sst.table if sst else "?", side_tbl)
            elif sel is None:
                why = "side-row select not found on the path"
            else:
                seq = sel["binds"]["where_eq"]
                keyed = seq is not None and set(seq) == {fk} and \
                    (key is None or seq[fk] == key or st.table == "mailboxes"
                     and e["func"] == R.close_op)
                # selected before the side rows are deleted
                before_del = True
                try:
                    si = order.index(sel)
                    for x in order[:si]:
                        if x["stmt"].kind == "delete" and x["stmt"].table == side_tbl:
                            xeq = x["binds"]["where_eq"]
                            if xeq is not None and seq is not None and \
                                    xeq.get(fk) == seq.get(fk):
                                before_del = False
                except ValueError:
                    pass
                ok = keyed and before_del
                if not keyed:
                    why = "the side rows feeding the record are selected by (%s)" % (
                        sel["stmt"].where.render() if sel["stmt"].where else "nothing")
                elif not before_del:
                    why = "the side rows are selected after they were deleted"
        ctx.ob("R15.pair", cons, ok, e, "" if ok else why,
               None if ok else render_path(p.events))
    ctx.require("R15.pair", nret, 2, "retirement deletes (nameplates/mailboxes)")
    # converse: every usage record accompanies a delete
    nrec = 0
    for (p, e, prior, later, loops) in e3mod.walk_transactions(
            model, ["ws:onMessage", "timer"], db="usage"):
        st = e["stmt"]
        if st.kind == "insert" and st.table in SIDE_TABLE:
            nrec += 1
            # the chan delete is in the same event neighbourhood
            ok = False
            for x, _ in flat_events(list(prior) + list(later)):
                pass
            ctx_events = []
            ok = _has_chan_delete(p, e, st.table)
            ctx.ob("R15.pair", construct_of(e) + " [accompanies a delete]", ok, e,
                   "" if ok else "a usage record is written for a %s that is not retired"
                   % st.table[:-1])
            # `pruney` is the result of an expiry and of nothing else: the flag the
            # classifier is called with is True on the sweep and False on commands
            fi_cls = _classifier(ctx, model, st.table)
            flag = None
            for x, _ in all_events(p, ("pure", "call")):
                if x["callee"] == fi_cls.qualname:
                    a = x["args"]
                    kw = dict(x.get("kwargs") or ())
                    if len(a) >= 3:
                        flag = a[2]
                    elif fi_cls.params[-1] in kw:
                        flag = kw[fi_cls.params[-1]]
                if x is e:
                    break
            on_sweep = model.is_timer_entry(p.entry)
            okp = flag == ("const", on_sweep)
            ctx.ob("R15.pair", construct_of(e) + " [pruned flag = retired by the sweep]", okp, e,
                   "" if okp else "the classifier is called with pruned=%s on %s: the record "
                   "is classified %s" % (show(flag)[:20] if flag else "?",
                                         "the sweep" if on_sweep else "a command",
                                         "as not expired" if on_sweep else "`pruney`"))
    ctx.require("R15.pair", nrec, 2, "usage record INSERTs")
    # R15.rows: the record is computed from the side rows, so every side that
    # was admitted must have one
    ctx.rule("R15.rows", "a side is admitted (open / claim goes on to the crowd count) only "
             "with its side row stored (same rule instances as R05.count [after own row]): "
             "start time, waiting time and the lonely/happy classification are computed "
             "from the side rows")
    from . import c05
    from ..report import Ctx
    sub = Ctx(model, "C05", ctx.tier)
    c05.run(sub)
    nrows = 0
    for o in sub.obligations:
        if o.rule == "R05.count" and "[after own row]" in o.construct:
            nrows += 1
            ctx.ob("R15.rows", o.construct.replace("raise CrowdedError", "admission"),
                   o.ok, o.site, o.detail + ("" if o.ok else " -- this side takes part in "
                   "the channel without a side row: the usage record of the channel has the "
                   "wrong start / waiting time and counts one side too few"))
    ctx.require("R15.rows", nrows, 2, "admission sites (open, claim)")
    # R15.scope: `one usage record for its app` -- what is retired and recorded
    # under an app's id was selected among that app's rows
    ctx.rule("R15.scope", "statements that select what is retired are confined to the "
             "namespace's own app (same rule instances as R06.scope)")
    from . import c06
    sub6 = Ctx(model, "C06", ctx.tier)
    c06.run(sub6)
    nsc = 0
    for o in sub6.obligations:
        if o.rule == "R06.scope":
            nsc += 1
            ctx.ob("R15.scope", o.construct, o.ok, o.site, o.detail + ("" if o.ok else
                   " -- rows of another app are retired by this namespace and their usage "
                   "records are written under the wrong app id"))
    ctx.require("R15.scope", nsc, 10, "scoped statements")
    # the status row counts subscriptions: a connection that closed or went away
    # is not counted any more (same rule instances as R02.key, removal part)
    from . import c02
    sub2 = Ctx(model, "C02", ctx.tier)
    c02.run(sub2)
    nrm = 0
    for o in sub2.obligations:
        if o.rule == "R02.key" and "removed" in o.construct:
            nrm += 1
            ctx.ob("R15.count", o.construct, o.ok, o.site, o.detail + ("" if o.ok else
                   " -- the connection stays in the listener table and is counted in "
                   "connections_websocket although it is not subscribed any more"))
    ctx.require("R15.count", nrm, 2, "listener removal obligations")
    shared.r_durable(ctx, "R15.durable", ("usage",),
                     "a usage record that was written but not committed is lost by a clean "
                     "stop: the retired object ends up with no record")
    # R15.mood: the classification reads the `mood` column; what a close stores
    # there is the mood the close command carried
    ctx.rule("R15.mood", "the value a close stores in the mood column is the `mood` field "
             "of the close command")
    from ..events import handler_for as _hf, handler_paths as _hp, is_client_value as _icv
    nm = 0
    seen_m = set()
    for p in _hp(model, _hf(model, "close")):
        for e, _ in all_events(p, ("sql",)):
            if e["db"] != "chan" or e["stmt"].kind not in ("update", "insert"):
                continue
            v = e["binds"]["set"].get("mood")
            if v is None or e["site"][:2] in seen_m:
                continue
            seen_m.add(e["site"][:2])
            nm += 1
            v = plain(v)
            key = None
            if v[0] == "sub" and is_const(v[2]):
                key = v[2][1]
            elif v[0] == "call" and v[1] == ".get" and len(v[2]) >= 2 and is_const(v[2][1]):
                key = v[2][1][1]
            ok = key == "mood" and _icv(v)
            ctx.ob("R15.mood", construct_of(e) + " [mood]", ok, e,
                   "" if ok else "the mood column receives %s, not the close command's `mood`: "
                   "the record of this mailbox is classified by something else than the "
                   "moods its sides reported" % show(v)[:60])
    ctx.require("R15.mood", nm, 1, "statements of the close handler that store a mood")
    # R15.table / R15.times
    app = ("obj", "AppNamespace", ("sym",))
    for kind, table in (("mailbox", "mailboxes"), ("nameplate", "nameplates")):
        fi = _classifier(ctx, model, table)
        if len(fi.params) != 4:
            raise AnalysisError("R15.table: classifier %s does not take (side rows, "
                                "deletion time, pruned)" % fi.qualname)
        # positional roles (the tests pin the order): whatever the parameters
        # are called, the analysis knows them by these names
        paths = model.run_function(fi, app, [("param", "side_rows"),
                                             ("param", "delete_time"), ("param", "pruned")])
        alts = None
        for p in paths:
            for e in p.events:
                if e["k"] == "pure" and e["callee"] == fi.qualname:
                    alts = e["alts"]
        if alts is None:
            if len(paths) == 1 and paths[0].outcome.kind == "return":
                alts = ((paths[0].pc, paths[0].outcome.value),)
            else:
                raise AnalysisError("R15.table: classifier %s is not a pure function "
                                    "of its arguments" % fi.qualname)
        combos = 0
        bad = None
        # the result field, with the branches of nested pure helpers expanded
        from ..events import expand_merges
        xalts = []
        for (pc, v) in alts:
            res = dict(v[2]).get("result") if v[0] == "nt" else None
            from ..events import expand_all_merges
            xalts.extend(expand_all_merges(interp, pc, res))
        try:
            for n in (1, 2, 3, 4):
                for r in range(0, 3):
                    for moods in itertools.combinations(MOODS + [None], r):
                        if len(moods) > n:
                            continue
                        for pruned in (False, True):
                            env = {"n": n, "moods": list(moods), "pruned": pruned}
                            results = set()
                            for (pc, v) in xalts:
                                if all(bool(eval_cond(c[0], env)) == c[1] for c in pc
                                       if c[0] != ("cfg", "blur_usage")):
                                    results.add(v)
                            combos += 1
                            want = ("const", expected(kind, n, moods, pruned))
                            if results != {want} and bad is None:
                                bad = (n, moods, pruned, results, want)
        except EvalUnknown as ex:
            raise AnalysisError("R15.table: classifier condition not understood: %s" % ex)
        ctx.ob("R15.table", "%s classifies by the documented precedence" % fi.qualname,
               bad is None, "%s:%d" % (ctx.repo.modules[fi.module].path, fi.node.lineno),
               "%d combinations of sides x moods x pruned evaluated" % combos if bad is None
               else "with %d side(s), moods %s, pruned=%s the result is %s, documented: %s" % (
                   bad[0], list(bad[1]), bad[2],
                   sorted(show(x) for x in bad[3]), show(bad[4])))
        ctx.counts["R15.table: combinations for %s" % kind] = combos
        _times(ctx, fi, alts)
    # R15.count
    _count(ctx, model)


def _has_chan_delete(path, usage_ev, table):
    """a channel DELETE on `table` in the same loop alternative / straight-line
    region as the usage insert"""
    def search(events):
        here = False
        found_del = False
        for x in events:
            if x is usage_ev:
                here = True
            if x["k"] == "sql" and x["db"] == "chan" and x["stmt"].kind == "delete" and \
                    x["stmt"].table == table:
                found_del = True
            if x["k"] == "loop":
                for alt in x["alts"]:
                    r = search(alt["events"])
                    if r is not None:
                        return r
        if here:
            return found_del
        return None
    r = search(path.events)
    return bool(r)


def _classifier(ctx, model, table):
    """the pure function whose result feeds the usage INSERT into `table`"""
    interp = model.interp
    for p in model.paths("timer"):
        prev_pure = None
        for e, _ in all_events(p):
            if e["k"] == "pure":
                prev_pure = e
            if e["k"] == "sql" and e["db"] == "usage" and e["stmt"].kind == "insert" and \
                    e["stmt"].table == table and prev_pure is not None:
                cls, name = prev_pure["callee"].split(".", 1)
                fi = ctx.repo.method(cls, name)
                if fi is not None:
                    return fi
    raise AnalysisError("R15.table: classifier feeding usage `%s` not found" % table)


def _times(ctx, fi, alts):
    def added_list(t):
        t = strip_wrappers(t)
        return t[0] == "comp" and _col_of(t[2]) == "added" and not t[4]

    def first(t):
        # sorted(x)[0] or min(x)
        if t[0] == "sub" and t[2] == ("const", 0) and t[1][0] == "call" and \
                t[1][1] == "sorted" and added_list(t[1]):
            return True
        if t[0] == "call" and t[1] == "min" and added_list(t[2][0]):
            return True
        return False

    def second(t):
        return t[0] == "sub" and t[2] == ("const", 1) and t[1][0] == "call" and \
            t[1][1] == "sorted" and added_list(t[1])

    from ..events import expand_merges
    interp = ctx.model.interp
    flat_alts = []
    from ..events import expand_all_merges
    for (pc, v) in alts:
        # merges (branches of nested pure helpers) expanded consistently in
        # the path condition and in every field of the record
        flat_alts.extend(expand_all_merges(interp, pc, v))
    bad = None
    for (pc, v) in flat_alts:
        if v[0] != "nt":
            bad = "classifier does not return a record"
            break
        # branches taken only for an empty side list (a crash leftover, outside
        # C15's quantifier) are not constrained
        empty = False
        from ..e3 import pc_truth
        for t, val in pc_truth(pc).items():
            if t[0] == "call" and t[1] == "sorted" and val is False:
                empty = True
            if t[0] == "cmp" and t[2][0] == "call" and t[2][1] == "len" and \
                    t[1] == "==" and t[3] == ("const", 0) and val is True:
                empty = True
            if t[0] == "cmp" and t[2][0] == "call" and t[2][1] == "len" and \
                    t[1] in (">", ">=") and t[3] in (("const", 0), ("const", 1)) and \
                    val is False and (t[1], t[3][1]) in ((">", 0), (">=", 1)):
                empty = True
            if t[0] in ("comp", "param") and val is False and \
                    (t[0] == "comp" or t[1] == "side_rows"):
                empty = True
        if empty:
            continue
        d = dict(v[2])
        st = d.get("started")
        blur = None
        for c in pc:
            if c[0] == ("cfg", "blur_usage"):
                blur = c[1]
        raw = st
        if st is not None and st[0] == "binop" and st[1] == "*":
            for a, b in ((st[2], st[3]), (st[3], st[2])):
                if a == ("cfg", "blur_usage") and b[0] == "binop" and b[1] == "//":
                    raw = b[2]
        if raw is None or not first(raw):
            bad = "started is %s, not the earliest `added`" % show(st)[:60]
            break
        tt = d.get("total_time")
        if not (tt is not None and tt[0] == "binop" and tt[1] == "-" and
                tt[2] == ("param", "delete_time") and first(tt[3])):
            bad = "total_time is %s, not retire time minus the earliest `added`" % show(tt)[:60]
            break
        wt = d.get("waiting_time")
        many = None
        for c in pc:
            t = c[0]
            if t[0] == "cmp" and t[2][0] == "call" and t[2][1] == "len" and \
                    t[1] == ">" and t[3] == ("const", 1):
                many = c[1]
        if many is True:
            okw = wt is not None and wt[0] == "binop" and wt[1] == "-" and second(wt[2]) \
                and first(wt[3])
        elif many is False:
            okw = wt == ("const", None)
        else:
            okw = wt == ("const", None) or (wt is not None and wt[0] == "binop")
        if not okw:
            bad = "waiting_time is %s" % show(wt)[:60]
            break
    ctx.ob("R15.times", "%s: started/waiting/total from the order statistics of `added`"
           % fi.qualname, bad is None,
           "%s:%d" % (ctx.repo.modules[fi.module].path, fi.node.lineno), bad or "")


def _count(ctx, model):
    n = 0
    for p in model.paths("timer"):
        for e, _ in all_events(p, ("sql",)):
            if e["db"] == "usage" and e["stmt"].kind == "insert" and \
                    e["stmt"].table == "current":
                n += 1
                v = e["binds"]["set"].get("connections_websocket")
                ok, why = _sum_shape(v)
                ctx.ob("R15.count", construct_of(e) + " [connections]", ok, e,
                       "" if ok else why)
                # `the status row`: refreshed, i.e. the old one is replaced in
                # the same transaction
                prev = None
                for x, _ in all_events(p, ("sql", "commit")):
                    if x is e:
                        break
                    if x["k"] == "commit" and x["db"] == "usage":
                        prev = None
                    elif x["k"] == "sql" and x["db"] == "usage" and \
                            x["stmt"].kind == "delete" and x["stmt"].table == "current" and \
                            x["stmt"].where is None:
                        prev = x
                ctx.ob("R15.count", construct_of(e) + " [replaces the previous row]",
                       prev is not None, e, "" if prev is not None else
                       "the status row is inserted without deleting the previous one in the "
                       "same transaction: the table accumulates one row per sweep")
    if n == 0:
        # the sweep runs (its paths were analysed above) but never writes the row
        ctx.ob("R15.count", "the timer refreshes the status row", False, "",
               "no INSERT into usage `current` is reachable from the timer callable "
               "(%d paths): the status row is never written" % len(model.paths("timer")))
    e4 = e4mod.get(model)
    for f in e4.findings:
        if f.kind == "rule_u" and model.names.reg_name("apps") in f.construct:
            ctx.ob("R15.count", f.construct, f.ok, f.site, f.detail +
                   ("" if f.ok else " -- listeners registered through a dropped namespace "
                    "object are not counted in connections_websocket"))


def _sum_shape(v):
    def sum_of(t):
        if t is not None and t[0] == "call" and t[1] == "sum" and t[2] and \
                t[2][0][0] == "comp" and not t[2][0][4]:
            c = t[2][0]
            return c[2], strip_wrappers(c[3])
        # total = 0; for x in xs: total += f(x)
        if t is not None and t[0] == "accum" and t[1] == "+" and t[2] == ("const", 0) \
                and t[4] is not None:
            return t[3], strip_wrappers(t[4])
        return None
    s1 = sum_of(v)
    if not s1:
        return False, "connection count is %s" % show(v)[:80]
    elt1, it1 = s1
    if not (it1[0] == "call" and it1[1] == ".values" and it1[2][0][0] == "reg" and
            it1[2][0][2] == names.current().apps[1]):
        return False, "the count does not range over all namespaces (%s)" % show(it1)[:60]
    s2 = sum_of(elt1)
    if not s2:
        return False, "per-namespace count is %s" % show(elt1)[:80]
    elt2, it2 = s2
    if not (it2[0] == "call" and it2[1] == ".values" and it2[2][0][0] == "reg" and
            it2[2][0][2] == names.current().mailboxes[1]):
        return False, "the count does not range over all mailboxes (%s)" % show(it2)[:60]
    if not (elt2[0] == "call" and elt2[1] == "len" and elt2[2][0][0] == "reg" and
            elt2[2][0][2] == names.current().listeners[1]):
        return False, "per-mailbox count is %s, not the number of listeners" % show(elt2)[:60]
    return True, ""

EXPLANATION += ' Batch 6: wire form json+utf-8 only (R15.wire).'
