"""Shared preconditions: R-atomic, R-plumb, R-conn (DESIGN section 2)."""
import ast

from ..repo import AnalysisError, dotted
from ..events import all_events, flat_events
from ..interp import CFG_CLASSES
from ..names import classify_server_value
from ..terms import walk, show, is_const

ASYNC_NAMES = {"callLater", "deferToThread", "callInThread", "callFromThread",
               "inlineCallbacks", "Deferred", "ensureDeferred", "Thread",
               "threading", "coiterate", "cooperate", "LoopingCall",
               "deferLater", "ThreadPoolExecutor", "run_in_executor"}


def r_atomic(ctx):
    """F-atomic: handlers and the sweep run to completion on the reactor
    thread (no yield/await/deferred scheduling), so select-then-insert
    sequences are atomic w.r.t. other commands and crash points are commit
    boundaries."""
    ctx.rule("R-atomic", "no yield/await/async def/callLater/deferToThread/"
             "threads in server.py, server_websocket.py and the timer callable")
    repo = ctx.repo
    for mname in ("server", "server_websocket"):
        mod = repo.modules[mname]
        bad = []
        # the single yield of a @contextmanager helper is where its `with`
        # block runs, synchronously: not a suspension point
        cm_yields = set()
        for fn in ast.walk(mod.tree):
            if isinstance(fn, ast.FunctionDef) and any(
                    (dotted(d) or "").split(".")[-1] == "contextmanager"
                    for d in fn.decorator_list):
                ys = [n for n in ast.walk(fn) if isinstance(n, (ast.Yield, ast.YieldFrom))]
                if len(ys) == 1 and isinstance(ys[0], ast.Yield):
                    cm_yields.add(id(ys[0]))
        for node in ast.walk(mod.tree):
            if id(node) in cm_yields:
                continue
            if isinstance(node, (ast.Yield, ast.YieldFrom, ast.Await,
                                 ast.AsyncFunctionDef, ast.AsyncFor, ast.AsyncWith)):
                bad.append((node, type(node).__name__))
            elif isinstance(node, ast.Name) and node.id in ASYNC_NAMES:
                bad.append((node, node.id))
            elif isinstance(node, ast.Attribute) and node.attr in ASYNC_NAMES:
                bad.append((node, node.attr))
        ctx.ob("R-atomic", "module %s" % mname, not bad,
               site="%s:%d" % (mod.path, bad[0][0].lineno) if bad else mod.path,
               detail="; ".join("%s at line %d" % (w, n.lineno) for n, w in bad[:5]))
    # the timer callable
    tap = repo.modules["server_tap"]
    fi = repo.require_function("server_tap", "makeService")
    bad = []
    for node in ast.walk(fi.node):
        if isinstance(node, (ast.Yield, ast.YieldFrom, ast.Await)):
            bad.append((node, type(node).__name__))
        elif isinstance(node, (ast.Name, ast.Attribute)):
            nm = node.id if isinstance(node, ast.Name) else node.attr
            if nm in ASYNC_NAMES:
                bad.append((node, nm))
    ctx.ob("R-atomic", "server_tap.makeService (timer callable)", not bad,
           site="%s:%d" % (tap.path, bad[0][0].lineno) if bad else tap.path,
           detail="; ".join("%s at line %d" % (w, n.lineno) for n, w in bad[:5]))


def r_plumb(ctx):
    """F-handles: the two database handles and the configuration values reach
    Server -> AppNamespace -> Mailbox slot by slot under the same name; the
    interpreter's canonical terms (db:chan, cfg:*) rely on it."""
    ctx.rule("R-plumb", "every constructor of Server/AppNamespace/Mailbox stores "
             "each handle/config parameter in the attribute of the same role, "
             "and every construct site passes the constructing object's own "
             "attribute of that role (makeService: the create_or_upgrade_* results "
             "and the matching config keys)")
    model = ctx.model
    names = model.names
    n = 0
    server_seen = False
    entries = ["tap:makeService", "timer", "ws:onMessage"]
    for en in entries:
        for p in model.paths(en):
            for e, _ in all_events(p, ("setattr",)):
                obj = e["obj"]
                if obj[0] != "obj" or obj[1] not in CFG_CLASSES:
                    continue
                attr = e["attr"]
                want = names.role(obj[1], attr)
                if want is None:
                    continue
                if not e["func"].endswith(".__init__"):
                    ctx.ob("R-plumb", "%s: self.%s reassigned" % (e["func"], attr),
                           False, e, "handle/config attribute assigned outside __init__")
                    continue
                n += 1
                v = e["value"]
                if obj[1] == "Server" and en == "tap:makeService":
                    server_seen = True
                    got = classify_server_value(v, model.interp)
                    # no log file configured: the slot holds None on that path
                    ok = got == want or (want == ("cfg", "log_file") and v == ("const", None))
                    why = "Server.%s is %s, not the %s value makeService provides" % (
                        attr, show(v)[:60], want[1])
                else:
                    ok = (v == want)
                    why = "value %s, expected %s" % (show(v), show(want))
                ctx.ob("R-plumb", "%s.%s" % (obj[1], attr), ok, e, "" if ok else why)
    ctx.require("R-plumb", n, 8, "handle/config slot assignments in constructors")
    if not server_seen:
        raise AnalysisError("R-plumb: Server construction not reached from makeService")
    # frozen receiver: WebSocketServer.factory.server is the Server
    okf = False
    for p in model.paths("tap:makeService"):
        for e, _ in all_events(p, ("setattr",)):
            if e["attr"] == "server" and e["obj"][0] == "obj" and \
                    e["obj"][1] == "WebSocketServerFactory":
                okf = e["value"][0] == "obj" and e["value"][1] == "Server"
                ctx.ob("R-plumb", "WebSocketServerFactory.server", okf, e,
                       "" if okf else "factory.server is %s" % show(e["value"]))
    if not okf:
        ctx.ob("R-plumb", "WebSocketServerFactory.server", False, "",
               "no assignment of the Server to factory.server reached from makeService")
    # protocol class of the factory
    ent = ctx.repo.classes.get("WebSocketServerFactory")
    proto = ent[1]["attrs"].get("protocol") if ent else None
    ok = isinstance(proto, ast.Name) and proto.id == "WebSocketServer"
    ctx.ob("R-plumb", "WebSocketServerFactory.protocol", ok,
           ent[0].path if ent else "", "" if ok else "protocol is not WebSocketServer")


PRAGMA_OK = {("foreign_keys", "ON"), ("foreign_keys", "1"), ("foreign_keys", "TRUE"),
             ("foreign_key_check", None),
             # the defaults, spelled out
             ("synchronous", "FULL"), ("synchronous", "2"), ("synchronous", "EXTRA"),
             ("synchronous", "3"), ("journal_mode", "DELETE"),
             ("locking_mode", "NORMAL")}
# per-connection tuning knobs: they change neither what a statement means nor
# when its effect is durable or atomic, and they write nothing to the file
PRAGMA_TUNING = {"cache_size", "temp_store", "mmap_size", "busy_timeout", "cache_spill",
                 "threads", "analysis_limit", "soft_heap_limit", "hard_heap_limit",
                 "automatic_index", "secure_delete", "optimize"}
# queries (no value): read-only
PRAGMA_QUERIES = {"table_info", "table_xinfo", "index_list", "index_info", "database_list",
                  "integrity_check", "quick_check", "user_version", "schema_version",
                  "page_count", "freelist_count", "compile_options", "foreign_key_list",
                  "journal_mode", "synchronous", "foreign_keys", "cache_size", "page_size",
                  "encoding", "application_id", "data_version"}


def pragma_ok(name, value):
    key = (name, value.upper() if isinstance(value, str) else value)
    if key in PRAGMA_OK:
        return True
    if name in PRAGMA_TUNING:
        return True
    if value is None and name in PRAGMA_QUERIES:
        return True
    if name in ("table_info", "table_xinfo", "index_list", "index_info",
                "foreign_key_list", "integrity_check", "quick_check"):
        return True   # the value is the name of the object asked about
    return False


def r_conn(ctx, rule="R-conn"):
    """F-fk: sqlite3.connect(path) only; PRAGMA whitelist; foreign keys ON on
    every connection before it is returned; default (deferred) transactions."""
    ctx.rule(rule, "sqlite3.connect is called with the path only; the only PRAGMAs "
             "are foreign_keys=ON and foreign_key_check; every connection that is "
             "returned had foreign_keys=ON executed; no isolation_level/autocommit "
             "is set anywhere in the package")
    model = ctx.model
    nconn = 0
    for en in model.DB_ENTRIES:
        for p in model.paths(en):
            conns = []
            fk_on = set()
            for e, _ in all_events(p):
                if e["k"] == "ext" and e["name"] == "sqlite3.connect":
                    nconn += 1
                    ok = len(e["args"]) == 1 and not e["kwargs"]
                    ctx.ob(rule, "%s: sqlite3.connect" % e["func"], ok, e,
                           "" if ok else "connect called with extra arguments %s" %
                           (show(("tuple", e["args"][1:])) + str([k for k, _ in e["kwargs"]])))
                if e["k"] == "sql" and e["stmt"].kind == "pragma":
                    nm = e["stmt"].extra["name"]
                    val = e["stmt"].extra["value"]
                    key = (nm, val.upper() if isinstance(val, str) else val)
                    ok = pragma_ok(nm, val)
                    ctx.ob(rule, "%s: PRAGMA %s" % (e["func"], nm), ok, e,
                           "" if ok else "PRAGMA %s=%s is not in the whitelist" % (nm, val))
                    if key[0] == "foreign_keys" and val is not None and ok:
                        fk_on.add(e["handle"])
                if e["k"] == "setattr" and e["attr"] in ("isolation_level", "autocommit"):
                    ctx.ob(rule, "%s: %s assigned" % (e["func"], e["attr"]), False, e,
                           "transaction mode of the connection is changed")
            if p.outcome.kind == "return" and p.outcome.value and \
                    p.outcome.value[0] == "conn":
                ok = p.outcome.value in fk_on
                ctx.ob(rule, "%s: returned connection has foreign_keys=ON" % p.entry,
                       ok, "", "" if ok else "a path returns a connection without the pragma")
    ctx.require(rule, nconn, 1, "sqlite3.connect call sites on database entry paths")
    # package-wide syntactic scan for transaction-mode tampering
    for mod in ctx.repo.modules.values():
        for node in ast.walk(mod.tree):
            if isinstance(node, ast.keyword) and node.arg in ("isolation_level", "autocommit"):
                ctx.ob(rule, "module %s: %s=" % (mod.name, node.arg), False,
                       "%s:%d" % (mod.path, node.value.lineno),
                       "connection opened with a non-default transaction mode")
            if isinstance(node, ast.Attribute) and isinstance(node.ctx, ast.Store) and \
                    node.attr in ("isolation_level", "autocommit"):
                ctx.ob(rule, "module %s: %s assigned" % (mod.name, node.attr), False,
                       "%s:%d" % (mod.path, node.lineno),
                       "transaction mode of a connection is changed")
        ctx.ob(rule, "module %s: no transaction-mode tampering" % mod.name, True, mod.path)


def r_startup(ctx, rule, tables, what, usage=False):
    """No start-up code touches the rows a property is about.

    The runtime rules enumerate the writers of a table over the connection and
    timer entry points; the database entry points (which run before anybody
    connects) may create the schema and the version row and run the packaged
    upgrade scripts, nothing else.  Positive control: the version-row INSERT of
    the creation path must be seen by the same scan."""
    model = ctx.model
    ctx.rule(rule, "the database entry points (start-up) execute no INSERT/UPDATE/DELETE "
             "on %s outside the packaged schema / upgrade scripts" % "/".join(
                 "`%s`" % t for t in tables))
    seen_control = 0
    bad = {}
    for en in model.DB_ENTRIES:
        is_usage = "usage" in en
        for p in model.paths(en):
            for e, _ in all_events(p, ("sql",)):
                st = e["stmt"]
                if st.kind not in ("insert", "update", "delete"):
                    continue
                if st.table == "version":
                    seen_control += 1
                    continue
                generic = not ("usage" in en or "channel" in en)
                if st.table in tables and (generic or is_usage == usage):
                    bad.setdefault((e["func"], st.normalized()), e)
    for (func, norm), e in sorted(bad.items()):
        ctx.ob(rule, "%s: %s [at start-up]" % (func, norm), False, e,
               "%s at start-up, before any client is connected: %s" % (norm, what))
    ctx.ob(rule, "start-up code leaves %s alone" % "/".join(tables), not bad, "",
           "" if not bad else "%d statement(s)" % len(bad))
    if seen_control < 1:
        raise AnalysisError("%s: the scan of the database entry points did not even see "
                            "the version-row INSERT (anchor vanished?)" % rule)


def r_durable(ctx, rule, dbs, why):
    """An open transaction is process state: what a command wrote but did not
    commit is seen by the server that keeps running (same connection) and is
    lost by a restart.  Necessary for every property that quantifies over
    restarts: each entry point hands control back with the databases clean
    (the obligation set of R09.exit, restricted to `dbs`)."""
    from ..events import handler_of
    from ..report import render_path
    model = ctx.model
    ctx.rule(rule, "every entry point returns to the reactor with no uncommitted statement "
             "on %s (what is acknowledged but uncommitted does not survive a restart)"
             % "/".join(dbs))
    n = 0
    seen = set()
    for en in model.runtime_entries():
        for p in model.paths(en):
            n += 1
            dirty = sorted(d for d in p.dirty if d in dbs)
            if not dirty:
                continue
            last = p.events[-1] if p.events else None
            key = (en, handler_of(p), tuple(dirty), last["site"][:2] if last else None)
            if key in seen:
                continue
            seen.add(key)
            ctx.ob(rule, "%s exits via %s" % (handler_of(p) or en, p.outcome.kind),
                   False, last or "", "the entry point returns with uncommitted changes on "
                   "%s: %s" % (dirty, why), render_path(p.events))
    ctx.ob(rule, "all entry-point exits are clean", not seen, "", "%d paths" % n)
    ctx.require(rule, n, 50, "entry-point paths")


def listener_index_obligations(model, index_attr):
    """A container S = (class, attr) that is meant to hold `ids of the
    mailboxes that have at least one listener`.  Returns a list of
    (clause, label, ok, event, detail, path):
      (i)   every listener registration adds the mailbox's own id to S on the
            same path, and S is added to nowhere else;
      (ii)  an id leaves S only when the listener table of that mailbox is
            known to be empty (tested on the path, or cleared before);
      (iii) wherever a listener is removed, S is updated too or the table is
            known to be still non-empty.
    (i)+(ii): S covers every subscribed mailbox.  (i)-(iii): S is a function
    of the listener tables, hence empty whenever nobody is subscribed."""
    from ..events import is_listeners_reg, is_own_mailbox_id
    from ..terms import mentions
    lattr = model.names.listeners[1]

    def on_index(x):
        return x["reg"][0] == "reg" and x["reg"][1][0] == "obj" and \
            (x["reg"][1][1], x["reg"][2]) == index_attr

    def listeners_cond(c):
        return mentions(c[0], lambda q: q[0] == "reg" and q[2] == lattr)

    def empty_pol(c):
        # the condition holds when the listener table is EMPTY
        t, b, _s = c
        pos = True
        while t[0] in ("not", "truth"):
            if t[0] == "not":
                pos = not pos
            t = t[1]
        if t[0] == "reg" and t[2] == lattr:
            return b != pos
        if t[0] == "cmp" and t[2][0] == "call" and t[2][1] == "len" and \
                t[3] == ("const", 0) and t[1] in ("==", ">", "!="):
            truth_when_empty = {"==": True, ">": False, "!=": False}[t[1]]
            return b == (truth_when_empty if pos else not truth_when_empty)
        return None

    out = []
    for en in model.runtime_entries():
        for p in model.paths(en):
            evs = [x for x, _ in all_events(p, ("reg_set", "reg_del", "setattr"))]
            for i, x in enumerate(evs):
                if x["k"] == "reg_set" and is_listeners_reg(x["reg"]):
                    ok = any(y["k"] == "reg_set" and on_index(y) and
                             y.get("value_src") is not None and
                             is_own_mailbox_id(y["value_src"]) for y in evs)
                    out.append(("i", "%s: a new listener puts its mailbox into %s.%s" % (
                        (x["func"],) + index_attr), ok, x, "" if ok else
                        "a subscribed mailbox is missing from the set", p))
                if x["k"] == "reg_set" and on_index(x):
                    ok = any(y["k"] == "reg_set" and is_listeners_reg(y["reg"]) for y in evs)
                    out.append(("i", "%s: %s.%s grows only with a listener registration" % (
                        (x["func"],) + index_attr), ok, x, "" if ok else
                        "an id enters the set without a listener", p))
                if x["k"] == "reg_del" and on_index(x):
                    empty = False
                    for c in x["pc"]:
                        if listeners_cond(c) and empty_pol(c) is True:
                            empty = True
                    for y in evs[:i]:
                        if y["k"] == "setattr" and y["attr"] == lattr and \
                                y["value"][0] in ("dictlit", "coll", "kwdict") and \
                                not (y["value"][1] if y["value"][0] != "coll" else ()):
                            empty = True
                        if y["k"] == "reg_del" and is_listeners_reg(y["reg"]) and \
                                y.get("how") == "clear":
                            empty = True
                    out.append(("ii", "%s: an id leaves %s.%s only when its mailbox has no "
                                "listener left" % ((x["func"],) + index_attr), empty, x,
                                "" if empty else "the id is removed although other listeners "
                                "of the mailbox may remain", p))
                removal = (x["k"] == "reg_del" and is_listeners_reg(x["reg"])) or \
                    (x["k"] == "setattr" and x["attr"] == lattr and
                     x["obj"][0] == "obj" and not x["func"].endswith("__init__"))
                if removal:
                    upd = any(y["k"] == "reg_del" and on_index(y) for y in evs[i:])
                    still = any(listeners_cond(c) and empty_pol(c) is False
                                for c in p.pc[len(x["pc"]):])
                    ok = upd or still
                    out.append(("iii", "%s: removing a listener keeps %s.%s in step" % (
                        (x["func"],) + index_attr), ok, x, "" if ok else
                        "the listener table may have become empty while the id stays in "
                        "the set", p))
    return out


def r_lookup(ctx, rule, tables):
    """A single-row lookup (`SELECT ... .fetchone()`) that the code then treats
    as *the* row of an object must be keyed by a conjunction of equalities: with
    an OR (or no WHERE) some other row can be returned, and what follows (the
    `for_nameplate` of a usage record, an existence test, a flag) is about the
    wrong object."""
    from ..events import each_event, construct_of
    model = ctx.model
    ctx.rule(rule, "single-row lookups on %s are keyed by a conjunction of equalities"
             % "/".join("`%s`" % t for t in tables))
    n = 0
    seen = set()
    for p, e, loops in each_event(model, model.runtime_entries(), ("sql",)):
        st = e["stmt"]
        if st.kind != "select" or e["db"] != "chan" or st.table not in tables:
            continue
        if e["site"] not in getattr(model.interp, "fetchone_sites", ()):
            continue
        if st.cols == ["COUNT()"] or st.extra.get("functions"):
            continue      # an aggregate: one computed row, not the row of an object
        if e["site"] in seen:
            continue
        seen.add(e["site"])
        n += 1
        eq = e["binds"]["where_eq"]
        ok = eq is not None and len(eq) >= 1 and not st.extra.get("joins")
        why = "the row fetched by %s is not determined by its key: another row can be " \
            "returned" % st.normalized()
        if ok:
            # the equalities must cover a key of the table (declared PRIMARY KEY /
            # UNIQUE, or the logical key the insert guards maintain)
            from ..e3 import LOGICAL_KEYS
            table = ctx.repo.channel_schema().tables.get(st.table)
            keys = [tuple(k) for k in table.unique_keys()] if table else []
            if st.table in LOGICAL_KEYS:
                keys.append(tuple(LOGICAL_KEYS[st.table]))
            if keys and not any(set(k) <= set(eq) for k in keys):
                ok = False
                why = "the lookup %s is keyed by (%s), which is not a key of `%s` (%s): it " \
                    "returns some row among several" % (
                        st.normalized(), ",".join(sorted(eq)), st.table,
                        " / ".join("(%s)" % ",".join(k) for k in keys))
        ctx.ob(rule, construct_of(e) + " [lookup]", ok, e, "" if ok else why)
    ctx.require(rule, n, 1, "single-row lookups")


def r_collation(ctx, rule, tables, what):
    """Identifiers (app ids, names, sides, mailbox ids) are opaque strings that
    the Python side compares exactly; every `col = ?` the rules reason about is
    an exact comparison only if the column has the default BINARY collation.  A
    `COLLATE NOCASE` / `RTRIM` column makes two different identifiers one row
    for SQL while they stay two objects for the server."""
    schema = ctx.repo.channel_schema()
    ctx.rule(rule, "the identifier columns of %s compare exactly (no COLLATE other than "
             "BINARY)" % "/".join("`%s`" % t for t in tables))
    n = 0
    for tname in tables:
        t = schema.tables.get(tname)
        if t is None:
            raise AnalysisError("%s: table %s vanished from the channel schema" % (rule, tname))
        for c in t.columns:
            n += 1
            coll = c.get("collate")
            ok = coll in (None, "BINARY")
            if not ok:
                ctx.ob(rule, "%s.%s COLLATE %s" % (tname, c["name"], coll), False,
                       "%s/channel-v1.sql" % "src/wormhole_mailbox_server/db-schemas",
                       "`%s`.`%s` is compared with COLLATE %s: identifiers that differ only "
                       "in case / trailing blanks are one row to every `%s=?` while the "
                       "server treats them as different: %s" % (
                           tname, c["name"], coll, c["name"], what))
    # storage class: a column that receives text from a client (directly or
    # through an attribute it was stored in) must not have a numeric affinity --
    # SQLite would store "042" as 42 and hand back / compare the number
    carried = text_columns(ctx.model)
    m = 0
    for tname in tables:
        t = schema.tables[tname]
        for c in t.columns:
            if (tname, c["name"]) not in carried:
                continue
            m += 1
            aff = affinity(c.get("type"))
            if aff not in ("TEXT", "BLOB"):
                ctx.ob(rule, "%s.%s declared %s" % (tname, c["name"], c.get("type")), False,
                       "%s/channel-v1.sql" % "src/wormhole_mailbox_server/db-schemas",
                       "`%s`.`%s` is declared %s (SQLite affinity %s) but receives client-"
                       "supplied text (%s): a value that looks like a number is stored and "
                       "compared as that number, so \"042\" and \"42\" become one value and "
                       "what is read back is not what was submitted: %s" % (
                           tname, c["name"], c.get("type"), aff, carried[(tname, c["name"])],
                           what))
    ctx.ob(rule, "columns of %s compare exactly" % "/".join(tables),
           not any(o.rule == rule and not o.ok for o in ctx.obligations), "",
           "%d columns, %d of them carrying client text" % (n, m))
    if n == 0 or m == 0:
        raise AnalysisError("%s: no columns examined (%d, %d text-carrying)" % (rule, n, m))


def affinity(decl):
    """SQLite's column affinity of a declared type (datatype3.html, 3.1)"""
    if decl is None:
        return "BLOB"
    d = decl.upper()
    if "INT" in d:
        return "INTEGER"
    if "CHAR" in d or "CLOB" in d or "TEXT" in d:
        return "TEXT"
    if "BLOB" in d:
        return "BLOB"
    if "REAL" in d or "FLOA" in d or "DOUB" in d:
        return "REAL"
    return "NUMERIC"


_TEXT_COLS = {}


def text_columns(model):
    """(table, column) of the channel database -> where the text comes from, for
    every column that an INSERT / UPDATE / WHERE binds to a value taken from a
    client frame, directly or through object attributes assigned from one"""
    if id(model) in _TEXT_COLS:
        return _TEXT_COLS[id(model)]
    from ..events import each_event
    from ..interp_method import bind_statement
    from ..terms import mentions
    tainted = set()

    def is_text(t):
        def hit(x):
            if x == ("param", "payload"):
                return True
            if x[0] == "attr" and x[1][0] == "obj" and (x[1][1], x[2]) in tainted:
                return True
            if x[0] == "idof" and x[1][0] == "obj" and (x[1][1], x[2]) in tainted:
                return True
            return False
        return mentions(t, hit)

    sets = [e for _p, e, _l in each_event(model, model.runtime_entries(), ("setattr",))
            if e["obj"][0] == "obj"]
    changed = True
    while changed:
        changed = False
        for e in sets:
            key = (e["obj"][1], e["attr"])
            if key not in tainted and is_text(e["value"]):
                tainted.add(key)
                changed = True
    out = {}
    for _p, e, _l in each_event(model, model.runtime_entries(), ("sql",)):
        if e["db"] != "chan":
            continue
        st = e["stmt"]
        b = bind_statement(st, e["params"])
        pairs = list(b["set"].items()) + [(c, t) for (c, _op, t) in b["where"]]
        for c, t in pairs:
            if c is None or "." in c or (st.table, c) in out:
                continue
            if isinstance(t, tuple) and t and t[0] != "subselect" and is_text(t):
                out[(st.table, c)] = "bound at %s:%d" % e["site"][:2]
    _TEXT_COLS[id(model)] = out
    return out


def r_present(ctx, rule, cmds, what):
    """Whether a command carries a field is decided by membership (`"f" in msg`)
    or a None test, never by the truth value of the field: identifiers are
    arbitrary strings and the empty string is one of them, so `if msg.get("f")`
    treats a command that names "" as one that names nothing."""
    from ..events import handler_for, handler_paths

    def field_tests(t):
        while t[0] in ("not", "truth"):
            t = t[1]
        if t[0] in ("and", "or"):
            for x in t[1]:
                for y in field_tests(x):
                    yield y
            return
        is_msg = lambda m: m[0] == "call" and m[1] == "json.loads"
        if t[0] == "sub" and is_msg(t[1]) and t[2][0] == "const":
            yield t[2][1]
        if t[0] == "call" and t[1] == ".get" and t[2] and is_msg(t[2][0]) and \
                len(t[2]) >= 2 and t[2][1][0] == "const":
            yield t[2][1][1]
    ctx.rule(rule, "the handler(s) of %s decide the presence of a field by `in` / `is None`, "
             "not by the field's truth value" % "/".join(cmds))
    model = ctx.model
    n = 0
    seen = set()
    for c in cmds:
        h = handler_for(model, c)
        for p in handler_paths(model, h):
            n += 1
            for (tt, _b, site) in p.pc:
                for f in field_tests(tt):
                    if (f, site[:2]) in seen:
                        continue
                    seen.add((f, site[:2]))
                    ctx.ob(rule, "%s tests the value of field %r for truth at line %d" % (
                        h, f, site[1]), False, "%s:%d" % site[:2],
                        "a command whose %r is the empty string (a valid identifier) is "
                        "handled as if the field were absent: %s" % (f, what))
    ctx.ob(rule, "field presence tests of %s" % "/".join(cmds),
           not any(o.rule == rule and not o.ok for o in ctx.obligations), "",
           "%d handler paths" % n)
    ctx.require(rule, n, 1, "handler paths of %s" % "/".join(cmds))


def r_full_loops(ctx, rule, what, only=None, minimum=3):
    """Every loop of the expiry sweep visits all elements of what it iterates:
    no iteration leaves the loop early (break / return) and the iterable is not
    a slice of the collection.  A sweep that stops at the first uninteresting
    element, or handles a bounded batch, leaves the rest of the channels
    untreated until some later sweep."""
    from ..events import each_event
    from ..terms import mentions, show
    model = ctx.model
    ctx.rule(rule, "the loops of the expiry sweep run over whole collections: no break / "
             "return inside, no slicing of the iterable")
    n = 0
    seen = set()
    for p, e, loops in each_event(model, ["timer"], ("loop",)):
        if not e.get("for"):
            continue
        if e["site"] in seen:
            continue
        if only is not None and not only(e):
            continue
        seen.add(e["site"])
        n += 1
        early = sorted(set(a["out"] for a in e["alts"]) & {"break", "return"})
        sliced = e["iter"] is not None and mentions(e["iter"], lambda x: x[0] == "slice")
        ok = not early and not sliced
        why = ""
        if early:
            why = "an iteration leaves the loop by %s: the elements after it are not " \
                "visited in this sweep: %s" % ("/".join(early), what)
        elif sliced:
            why = "the loop runs over %s, a slice of the collection: the rest is not " \
                "visited in this sweep: %s" % (show(e["iter"])[:80], what)
        ctx.ob(rule, "%s: loop at line %d" % (e["func"], e["site"][1]), ok,
               "%s:%d" % e["site"][:2], why)
    ctx.require(rule, n, minimum if only is None else 1, "loops in the sweep")


def r_convert(ctx, rule, entries, what, handler=None):
    """No text is converted to a number in the code a command (or the sweep)
    runs, unless the conversion sits in a try that catches ValueError: names and
    ids are arbitrary strings, `int()` / `float()` reject most of them --
    str.isdigit() is not a sufficient guard ("\u00b2".isdigit() is true and
    int("\u00b2") raises).  The functions looked at are those the abstract
    paths of the given entries execute, nested functions and lambdas (sort
    keys) included."""
    import ast as _ast
    from ..events import each_event, handler_of
    model = ctx.model
    repo = ctx.repo
    ctx.rule(rule, "no unguarded int()/float() of non-literal text in the functions run by %s"
             % (handler or "/".join(entries)))
    ran = set()
    for en in entries:
        for p in model.paths(en):
            if handler is not None and handler_of(p) != handler:
                continue
            for e, _l in _flat(p.events):
                f = e.get("func")
                if f:
                    ran.add(f)
    by_name = dict((f.qualname, f) for f in repo.all_functions())
    n = 0
    for q in sorted(ran):
        fi = by_name.get(q)
        if fi is None:
            continue
        n += 1
        caught = set()
        for t in _ast.walk(fi.node):
            if isinstance(t, _ast.Try):
                names = set()
                for h in t.handlers:
                    if h.type is None:
                        names.add("Exception")
                    for x in _ast.walk(h.type) if h.type is not None else ():
                        if isinstance(x, _ast.Name):
                            names.add(x.id)
                if names & {"ValueError", "Exception", "BaseException"}:
                    for b in t.body:
                        for x in _ast.walk(b):
                            caught.add(id(x))
        for t in _ast.walk(fi.node):
            if isinstance(t, _ast.Call) and isinstance(t.func, _ast.Name) and \
                    t.func.id in ("int", "float") and t.args and id(t) not in caught:
                a = t.args[0]
                if isinstance(a, _ast.Constant):
                    continue
                # numbers stay numbers: int(time.time()), int(x // y), int(len(..))
                if isinstance(a, (_ast.BinOp, _ast.UnaryOp)) or (
                        isinstance(a, _ast.Call) and dotted(a.func) in (
                            "time.time", "len", "round", "abs", "min", "max", "sum")):
                    continue
                ctx.ob(rule, "%s: %s(%s)" % (q, t.func.id, _ast.unparse(a)[:40]), False,
                       "%s:%d" % (repo.modules[fi.module].path, t.lineno),
                       "%s() of a value that is not known to be a number raises ValueError "
                       "for most strings (and for some that str.isdigit() accepts): %s"
                       % (t.func.id, what))
    ctx.ob(rule, "conversions in the code run by %s" % (handler or "/".join(entries)),
           not any(o.rule == rule and not o.ok for o in ctx.obligations), "",
           "%d functions" % n)
    ctx.require(rule, n, 2, "functions executed")


def _flat(events):
    from ..events import flat_events
    return flat_events(events)


def r_options(ctx, rule, what):
    """transport options fixed in the code: anything but the keep-alive pings
    restricts which frames the transport accepts or emits (Autobahn applies
    payload / frame size limits to *outgoing* messages too, and fails the
    connection on an oversized incoming one)"""
    n = 0
    for mod in ctx.repo.modules.values():
        for node in ast.walk(mod.tree):
            if isinstance(node, ast.Call) and isinstance(node.func, ast.Attribute) and \
                    node.func.attr == "setProtocolOptions":
                n += 1
                extra = [k.arg for k in node.keywords
                         if k.arg is not None and not k.arg.startswith("autoPing")]
                ctx.ob(rule, "module %s: protocol options at line %d" % (
                    mod.name, node.lineno), not extra, "%s:%d" % (mod.path, node.lineno),
                    "" if not extra else "the server hard-codes %s: %s" % (
                        ", ".join(extra), what))
    return n


def r_callers(ctx, rule, op, cmds, what):
    """who-may-call: the operation `op` (a qualified method name found by role)
    is invoked only while handling one of the commands `cmds`.  A call from a
    disconnect callback, the timer or another command's handler performs the
    operation on behalf of a client that did not ask for it."""
    from ..events import each_event, handler_for
    model = ctx.model
    allowed = set("WebSocketServer." + handler_for(model, c) for c in cmds)
    ctx.rule(rule, "%s is called only by the handler(s) of %s" % (
        op, "/".join(cmds)))
    n = 0
    seen = set()
    for p, e, loops in each_event(model, model.runtime_entries(), ("call",)):
        if e["callee"] != op:
            continue
        n += 1
        chain = e["stack"]
        ok = any(f in allowed for f in chain)
        key = (e["site"], ok)
        if key in seen:
            continue
        seen.add(key)
        caller = e["func"]
        ctx.ob(rule, "%s called from %s" % (op, caller), ok, e,
               "" if ok else "%s is carried out from %s (entry %s), not by a %s command: %s"
               % (op, caller, p.entry, "/".join(cmds), what))
    ctx.require(rule, n, 1, "calls of %s" % op)


def r_wire(ctx, rule):
    """What is delivered is what was built: a frame goes out as
    json.dumps(<fields>).encode("utf-8") and a command comes in as
    json.loads(payload[.decode("utf-8")]) -- nothing else (normalisation, case
    folding, stripping, re-encoding ...) sits between the field values the
    rules reason about and the bytes on the wire."""
    from ..events import each_event
    from ..terms import walk
    model = ctx.model
    ctx.rule(rule, "frames are serialised by json.dumps + encode and parsed by [decode +] "
             "json.loads only; no other transformation touches the text in between")
    nout = nin = 0
    bad_out = {}
    bad_in = {}
    for p, e, loops in each_event(model, model.runtime_entries(), ("send",)):
        nout += 1
        t = e["payload"]
        # peel the serialisation wrappers: x.encode([utf-8]), bytes(x, utf-8),
        # json.dumps(x, ...); what remains must be the mapping of fields
        UTF = (("const", "utf-8"), ("const", "utf8"), ("const", "UTF-8"))
        cur = t
        ok = True
        dumped = False
        for _ in range(6):
            if cur[0] == "call" and cur[1] in (".encode", "bytes") and cur[2] and \
                    all(a in UTF for a in cur[2][1:]) and not dumped:
                cur = cur[2][0]
            elif cur[0] == "call" and cur[1] == "json.dumps" and cur[2] and not dumped:
                dumped = True
                cur = cur[2][0]
            else:
                break
        ok = dumped and cur[0] in ("kwdict", "dictlit")
        if not ok:
            bad_out.setdefault(e["site"], e)
        for x in walk(t):
            if x[0] == "call" and x[1] == "json.loads":
                nin += 1
                a = x[2][0] if x[2] else None
                okin = a is not None and (a == ("param", "payload") or (
                    a[0] == "call" and a[1] in (".decode", "str") and a[2] and
                    a[2][0] == ("param", "payload") and
                    all(y in (("const", "utf-8"), ("const", "utf8"), ("const", "UTF-8"))
                        for y in a[2][1:])))
                if not okin:
                    bad_in.setdefault(e["site"], (e, a))
    from ..terms import show
    for site, e in sorted(bad_out.items()):
        ctx.ob(rule, "outbound frame at %s:%d" % site[:2], False, e,
               "the bytes sent are %s: the text is transformed after the fields were put "
               "together, so what a subscriber receives can differ from what was added"
               % show(e["payload"])[:120])
    for site, (e, a) in sorted(bad_in.items()):
        ctx.ob(rule, "inbound command (seen at %s:%d)" % site[:2], False, e,
               "commands are parsed from %s, not from the received bytes as they are"
               % show(a)[:100])
    ctx.ob(rule, "frames pass through json and utf-8 only", not bad_out and not bad_in, "",
           "%d frames, %d echoed command values" % (nout, nin))
    ctx.require(rule, nout, 10, "outbound frames")


def r_ident(ctx, rule, ops, what):
    """Identifiers are opaque: the name / id a command carries is handed to
    the namespace / mailbox operation exactly as received (or as remembered
    from an earlier command of the connection).  A strip(), lower(), slice or
    re-encoding on the way makes two different identifiers one, or makes the
    string a later command uses differ from the one that was stored."""
    from ..events import each_event, is_client_value
    from ..terms import show, walk
    model = ctx.model
    ctx.rule(rule, "client-supplied identifiers reach %s unchanged" % "/".join(
        o.split(".")[-1] for o in ops))
    n = 0
    seen = set()
    for p, e, loops in each_event(model, ["ws:onMessage"], ("call",)):
        if e["callee"] not in ops or not e["func"].startswith("WebSocketServer."):
            continue
        # positional and keyword arguments alike (the bound parameters)
        argvals = [v for _, v in (e.get("argmap") or ())] or list(e["args"])
        for a in argvals:
            if not is_client_value(a):
                continue
            n += 1
            t = a
            bare = (t[0] == "sub" and t[2][0] == "const") or \
                (t[0] == "call" and t[1] == ".get" and len(t[2]) >= 2 and t[2][1][0] == "const")
            key = (e["site"], bare)
            if key in seen:
                continue
            seen.add(key)
            ctx.ob(rule, "%s: argument of %s" % (e["func"], e["callee"]), bare, e,
                   "" if bare else "the operation is given %s, a transformed copy of what the "
                   "client sent: %s" % (show(a)[:70], what))
    ctx.require(rule, n, 2, "client-supplied arguments of the operations")


def r_nocfg(ctx, rule, op, what):
    """What an operation does to the channel store, to the registries and to
    the subscribers does not depend on the configuration (a usage database
    being configured, the blur interval, listing, request logging): the set of
    channel effects of the operation is the same on the paths where a
    configuration value was decided true and on those where it was decided
    false.  Only usage-database statements may sit under `if self._usage_db:`."""
    from ..events import construct_of
    from ..e3 import pc_truth
    model = ctx.model
    ctx.rule(rule, "channel statements, commits, evictions and listener callbacks inside %s "
             "occur under both settings of every configuration value" % op)
    by_pol = {}      # source -> {True: {site: event}, False: {...}}
    n = 0
    for en in model.runtime_entries():
        for p in model.paths(en):
            inside = {}
            active = False
            for e, _ in all_events(p):
                if e["k"] == "call" and e["callee"] == op:
                    active = True
                    continue
                if not active or op not in (e.get("func"),) + tuple(e.get("stack", ())):
                    continue
                k = e["k"]
                chan = (k == "sql" and e["db"] == "chan" and e["stmt"].mutating) or \
                    (k == "commit" and e["db"] == "chan" and e.get("was_dirty")) or \
                    k in ("reg_del", "callback")
                if chan:
                    n += 1
                    inside[(k, e["site"][:2])] = e
            if not inside:
                continue
            truth = pc_truth(p.pc)
            for t, v in truth.items():
                if t[0] == "cfg" and v in (True, False):
                    by_pol.setdefault(t[1], {True: {}, False: {}})[v].update(inside)
    bad = 0
    for src, d in sorted(by_pol.items()):
        if not d[True] or not d[False]:
            continue          # the operation was only seen under one setting
        for key in sorted(set(d[True]) ^ set(d[False])):
            e = d[True].get(key) or d[False].get(key)
            only = key in d[True]
            bad += 1
            label = construct_of(e) if e["k"] in ("sql", "commit") else "%s: %s" % (
                e["func"], e["k"])
            ctx.ob(rule, "%s [independent of %s]" % (label, src), False, e,
                   "inside %s this happens only when %s is %s: %s" % (
                       op, src, "set" if only else "unset", what))
    ctx.ob(rule, "%s: channel effects independent of the configuration" % op, bad == 0, "",
           "%d effect sites, %d configuration sources seen on its paths" % (n, len(by_pol)))
    ctx.require(rule, n, 1, "channel effects inside %s" % op)


def config_option(t):
    """(key, default) if t is an option read from makeService's configuration
    mapping -- config[key] / config.get(key[, default]), possibly converted
    with float() / int() -- else None.  Such a value is fixed by the command
    line: the same for a restarted server, constant while the process runs."""
    while t[0] == "call" and t[1] in ("float", "int") and len(t[2]) == 1:
        t = t[2][0]
    if t[0] == "sub" and t[1][0] == "param" and t[1][1] in ("config", "options") and \
            t[2][0] == "const":
        return (t[2][1], None)
    if t[0] == "call" and t[1] == ".get" and len(t[2]) >= 2 and t[2][0][0] == "param" and \
            t[2][0][1] in ("config", "options") and t[2][1][0] == "const":
        d = t[2][2] if len(t[2]) >= 3 else ("const", None)
        return (t[2][1][1], d)
    return None


_sub_cache = {}


def import_rule(ctx, prop, rules, new_rule, text, why, minimum=1, only=None):
    """the obligations of `rules` of property `prop`, restated as `new_rule`
    of this property: the same rule instances are a necessary condition of
    both.  `why` says what the breach means for this property."""
    import importlib
    from ..report import Ctx
    ctx.rule(new_rule, text)
    key = (id(ctx.model), prop, ctx.tier)
    if key not in _sub_cache:
        mod = importlib.import_module("sa.rules.%s" % prop.lower())
        sub = Ctx(ctx.model, prop, ctx.tier)
        mod.run(sub)
        _sub_cache[key] = sub
    sub = _sub_cache[key]
    n = 0
    for o in sub.obligations:
        if o.rule in rules and (only is None or only(o)):
            n += 1
            ctx.ob(new_rule, o.construct, o.ok, o.site,
                   o.detail + ("" if o.ok else " -- " + why), getattr(o, "path", None))
    ctx.require(new_rule, n, minimum, "instances of %s" % "/".join(rules))


def r_remember(ctx, rule, setter, user, why):
    """the name a connection remembers for a later bare `user` command is set
    on every path of the `setter` handler on which the operation was carried
    out (wrote channel state), however the path ends: a side whose row exists
    must be able to `user` it without naming it again."""
    from ..events import handler_for, handler_paths, all_events, construct_of
    from ..report import render_path
    model = ctx.model
    ctx.rule(rule, "every path of the %s handler that wrote channel state leaves the name "
             "the bare %s relies on remembered" % (setter, user))
    hs = handler_for(model, setter)
    hu = handler_for(model, user)
    # the attribute: compared with the named field / tested for None in the user handler
    attrs = set()
    for p in handler_paths(model, hu):
        for (t, b, site) in p.pc:
            for x in walk(t):
                if isinstance(x, tuple) and x and x[0] == "isnone" and x[1][0] == "attr" and \
                        x[1][1][0] == "obj" and x[1][1][1] == "WebSocketServer":
                    attrs.add(x[1][2])
    n = 0
    for a in sorted(attrs):
        for p in handler_paths(model, hs):
            evs = [e for e, _ in all_events(p)]
            wrote = [e for e in evs if e["k"] == "sql" and e["db"] == "chan" and
                     e["stmt"].kind in ("insert", "update", "delete")]
            if not wrote or p.outcome.kind != "return":
                continue
            n += 1
            sets = [e for e in evs if e["k"] == "setattr" and e["attr"] == a and
                    e["obj"][0] == "obj" and e["obj"][1] == "WebSocketServer" and
                    e["value"] != ("const", None)]
            ok = bool(sets)
            ctx.ob(rule, "%s: %s is remembered on a path that wrote %s" % (
                hs, a, wrote[0]["stmt"].table), ok, wrote[0],
                "" if ok else "%s has written channel state (%s) on a path that leaves %s "
                "unset (the command is then refused): %s" % (hs, construct_of(wrote[0]), a, why),
                None if ok else render_path(p.events))
    ctx.require(rule, n, 2, "state-changing paths of the %s handler" % setter)
