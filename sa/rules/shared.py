"""Shared preconditions: R-atomic, R-plumb, R-conn (DESIGN section 2)."""
import ast

from ..repo import AnalysisError, dotted
from ..events import all_events, flat_events
from ..interp import CFG_ATTRS, CFG_CLASSES
from ..terms import show, is_const

ASYNC_NAMES = {"callLater", "deferToThread", "callInThread", "callFromThread",
               "inlineCallbacks", "Deferred", "ensureDeferred", "Thread",
               "threading", "coiterate", "cooperate", "LoopingCall",
               "deferLater", "ThreadPoolExecutor", "run_in_executor"}


def r_atomic(ctx):
    """F-atomic: handlers and the sweep run to completion on the reactor
    thread (no yield/await/deferred scheduling), so select-then-insert
    sequences are atomic w.r.t. other commands and crash points are commit
    boundaries."""
    ctx.rule("R-atomic", "no yield/await/async def/callLater/deferToThread/"
             "threads in server.py, server_websocket.py and the timer callable")
    repo = ctx.repo
    for mname in ("server", "server_websocket"):
        mod = repo.modules[mname]
        bad = []
        for node in ast.walk(mod.tree):
            if isinstance(node, (ast.Yield, ast.YieldFrom, ast.Await,
                                 ast.AsyncFunctionDef, ast.AsyncFor, ast.AsyncWith)):
                bad.append((node, type(node).__name__))
            elif isinstance(node, ast.Name) and node.id in ASYNC_NAMES:
                bad.append((node, node.id))
            elif isinstance(node, ast.Attribute) and node.attr in ASYNC_NAMES:
                bad.append((node, node.attr))
        ctx.ob("R-atomic", "module %s" % mname, not bad,
               site="%s:%d" % (mod.path, bad[0][0].lineno) if bad else mod.path,
               detail="; ".join("%s at line %d" % (w, n.lineno) for n, w in bad[:5]))
    # the timer callable
    tap = repo.modules["server_tap"]
    fi = repo.require_function("server_tap", "makeService")
    bad = []
    for node in ast.walk(fi.node):
        if isinstance(node, (ast.Yield, ast.YieldFrom, ast.Await)):
            bad.append((node, type(node).__name__))
        elif isinstance(node, (ast.Name, ast.Attribute)):
            nm = node.id if isinstance(node, ast.Name) else node.attr
            if nm in ASYNC_NAMES:
                bad.append((node, nm))
    ctx.ob("R-atomic", "server_tap.makeService (timer callable)", not bad,
           site="%s:%d" % (tap.path, bad[0][0].lineno) if bad else tap.path,
           detail="; ".join("%s at line %d" % (w, n.lineno) for n, w in bad[:5]))


def _canonical(cls, attr):
    if attr == "_db":
        return ("db", "chan")
    return ("cfg", CFG_ATTRS[attr])


def r_plumb(ctx):
    """F-handles: the two database handles and the configuration values reach
    Server -> AppNamespace -> Mailbox slot by slot under the same name; the
    interpreter's canonical terms (db:chan, cfg:*) rely on it."""
    ctx.rule("R-plumb", "every constructor of Server/AppNamespace/Mailbox stores "
             "each handle/config parameter in the attribute of the same role, "
             "and every construct site passes the constructing object's own "
             "attribute of that role (makeService: the create_or_upgrade_* results "
             "and the matching config keys)")
    model = ctx.model
    n = 0
    server_seen = False
    entries = ["tap:makeService", "timer", "ws:onMessage"]
    for en in entries:
        for p in model.paths(en):
            for e, _ in all_events(p, ("setattr",)):
                obj = e["obj"]
                if obj[0] != "obj" or obj[1] not in CFG_CLASSES:
                    continue
                attr = e["attr"]
                if attr != "_db" and attr not in CFG_ATTRS:
                    continue
                if not e["func"].endswith(".__init__"):
                    ctx.ob("R-plumb", "%s: self.%s reassigned" % (e["func"], attr),
                           False, e, "handle/config attribute assigned outside __init__")
                    continue
                n += 1
                v = e["value"]
                if obj[1] == "Server":
                    server_seen = True
                    ok, why = _server_slot(attr, v)
                else:
                    ok = (v == _canonical(obj[1], attr))
                    why = "value %s, expected %s" % (show(v), show(_canonical(obj[1], attr)))
                ctx.ob("R-plumb", "%s.%s" % (obj[1], attr), ok, e, "" if ok else why)
    ctx.require("R-plumb", n, 8, "handle/config slot assignments in constructors")
    if not server_seen:
        raise AnalysisError("R-plumb: Server construction not reached from makeService")
    # frozen receiver: WebSocketServer.factory.server is the Server
    okf = False
    for p in model.paths("tap:makeService"):
        for e, _ in all_events(p, ("setattr",)):
            if e["attr"] == "server" and e["obj"][0] == "obj" and \
                    e["obj"][1] == "WebSocketServerFactory":
                okf = e["value"][0] == "obj" and e["value"][1] == "Server"
                ctx.ob("R-plumb", "WebSocketServerFactory.server", okf, e,
                       "" if okf else "factory.server is %s" % show(e["value"]))
    if not okf:
        ctx.ob("R-plumb", "WebSocketServerFactory.server", False, "",
               "no assignment of the Server to factory.server reached from makeService")
    # protocol class of the factory
    ent = ctx.repo.classes.get("WebSocketServerFactory")
    proto = ent[1]["attrs"].get("protocol") if ent else None
    ok = isinstance(proto, ast.Name) and proto.id == "WebSocketServer"
    ctx.ob("R-plumb", "WebSocketServerFactory.protocol", ok,
           ent[0].path if ent else "", "" if ok else "protocol is not WebSocketServer")


def _server_slot(attr, v):
    def cfgkey(t, key):
        return t[0] == "sub" and is_const(t[2]) and t[2][1] == key

    if attr == "_db":
        ok = v[0] == "call" and v[1] == "create_or_upgrade_channel_db"
        return ok, "Server._db is %s, expected create_or_upgrade_channel_db(...)" % show(v)
    if attr == "_usage_db":
        ok = v[0] == "call" and v[1] == "create_or_upgrade_usage_db"
        return ok, "Server._usage_db is %s, expected create_or_upgrade_usage_db(...)" % show(v)
    if attr == "_blur_usage":
        ok = cfgkey(v, "blur-usage")
        return ok, "Server._blur_usage is %s, expected config['blur-usage']" % show(v)
    if attr == "_allow_list":
        ok = cfgkey(v, "allow-list")
        return ok, "Server._allow_list is %s, expected config['allow-list']" % show(v)
    if attr == "_log_requests":
        ok = v[0] == "isnone" and cfgkey(v[1], "blur-usage")
        return ok, "Server._log_requests is %s, expected (blur_usage is None)" % show(v)
    return True, ""


PRAGMA_OK = {("foreign_keys", "ON"), ("foreign_keys", "1"), ("foreign_keys", "TRUE"),
             ("foreign_key_check", None)}


def r_conn(ctx, rule="R-conn"):
    """F-fk: sqlite3.connect(path) only; PRAGMA whitelist; foreign keys ON on
    every connection before it is returned; default (deferred) transactions."""
    ctx.rule(rule, "sqlite3.connect is called with the path only; the only PRAGMAs "
             "are foreign_keys=ON and foreign_key_check; every connection that is "
             "returned had foreign_keys=ON executed; no isolation_level/autocommit "
             "is set anywhere in the package")
    model = ctx.model
    nconn = 0
    for en in model.DB_ENTRIES:
        for p in model.paths(en):
            conns = []
            fk_on = set()
            for e, _ in all_events(p):
                if e["k"] == "ext" and e["name"] == "sqlite3.connect":
                    nconn += 1
                    ok = len(e["args"]) == 1 and not e["kwargs"]
                    ctx.ob(rule, "%s: sqlite3.connect" % e["func"], ok, e,
                           "" if ok else "connect called with extra arguments %s" %
                           (show(("tuple", e["args"][1:])) + str([k for k, _ in e["kwargs"]])))
                if e["k"] == "sql" and e["stmt"].kind == "pragma":
                    nm = e["stmt"].extra["name"]
                    val = e["stmt"].extra["value"]
                    key = (nm, val.upper() if isinstance(val, str) else val)
                    ok = key in PRAGMA_OK
                    ctx.ob(rule, "%s: PRAGMA %s" % (e["func"], nm), ok, e,
                           "" if ok else "PRAGMA %s=%s is not in the whitelist" % (nm, val))
                    if key[0] == "foreign_keys" and ok:
                        fk_on.add(e["handle"])
                if e["k"] == "setattr" and e["attr"] in ("isolation_level", "autocommit"):
                    ctx.ob(rule, "%s: %s assigned" % (e["func"], e["attr"]), False, e,
                           "transaction mode of the connection is changed")
            if p.outcome.kind == "return" and p.outcome.value and \
                    p.outcome.value[0] == "conn":
                ok = p.outcome.value in fk_on
                ctx.ob(rule, "%s: returned connection has foreign_keys=ON" % p.entry,
                       ok, "", "" if ok else "a path returns a connection without the pragma")
    ctx.require(rule, nconn, 1, "sqlite3.connect call sites on database entry paths")
    # package-wide syntactic scan for transaction-mode tampering
    for mod in ctx.repo.modules.values():
        for node in ast.walk(mod.tree):
            if isinstance(node, ast.keyword) and node.arg in ("isolation_level", "autocommit"):
                ctx.ob(rule, "module %s: %s=" % (mod.name, node.arg), False,
                       "%s:%d" % (mod.path, node.value.lineno),
                       "connection opened with a non-default transaction mode")
            if isinstance(node, ast.Attribute) and isinstance(node.ctx, ast.Store) and \
                    node.attr in ("isolation_level", "autocommit"):
                ctx.ob(rule, "module %s: %s assigned" % (mod.name, node.attr), False,
                       "%s:%d" % (mod.path, node.lineno),
                       "transaction mode of a connection is changed")
        ctx.ob(rule, "module %s: no transaction-mode tampering" % mod.name, True, mod.path)
