"""C05 -- no third party: at most two sides share a nameplate or mailbox."""
from ..events import (is_conn_side, is_listeners_reg, all_events, construct_of, handler_paths, handler_for,
                      frame_type, flat_events, handler_of)
from ..report import render_path
from ..terms import show, plain, is_const, strip_wrappers, mentions, walk
from .. import e3 as e3mod
from ..repo import AnalysisError

from . import shared

LEVEL = "other"
EXPLANATION = (
    "Decides: the crowd predicate counts ALL side rows of the incarnation (select "
    "keyed by the parent key only, no Python-side filter), the limit is two, it is "
    "evaluated after this side's row is inserted, every path that hands out the "
    "Mailbox has the predicate false, a refused command leaves no subscription, "
    "retained handle or answer, side rows disappear only with their parent and are "
    "never re-labelled. The last sentence of the property (the first two sides keep "
    "their access) needs the refusal to depend on the caller's side; it does not "
    "(known finding D9).")
EXPLANATION += ' Also decided: every entry point exits clean, no start-up statement touches the side tables, and the counted select returns plain rows.'


def crowd_cond(pc, tables, interp):
    """the path condition deciding crowdedness: (term, polarity, site, rows,
    select-stmt) or None"""
    for (t, b, site) in reversed(pc):
        for x in walk(t):
            if x[0] == "rows":
                st = interp.sql_sites.get(x[1])
                if st is not None and st.table in tables:
                    return (t, b, site, x, st)
    return None


def threshold(t, rows):
    """crowd predicate normalised to 'count >= n' -> n, or None"""
    if t[0] != "cmp":
        return None
    op, l, r = t[1], t[2], t[3]
    ln = ("call", "len", (rows,), ())

    def norm(x):
        # len(list(rows)) / len(sorted(rows)) count the same rows
        if x[0] == "call" and x[1] == "len" and x[2] and strip_wrappers(x[2][0]) == rows:
            return ln
        return x
    l, r = norm(l), norm(r)
    if l == ln and is_const(r) and isinstance(r[1], int):
        if op == ">":
            return r[1] + 1
        if op == ">=":
            return r[1]
    if r == ln and is_const(l) and isinstance(l[1], int):
        if op == "<":
            return l[1] + 1
        if op == "<=":
            return l[1]
    return None


def run(ctx):
    model = ctx.model
    from .. import roles as _rm3
    shared.r_nocfg(ctx, "R05.nocfg", _rm3.get(model).close_op,
                   "under the other setting the deleted mailbox keeps its object and its "
                   "subscribers, who then receive the next incarnation's messages")
    shared.r_wire(ctx, "R05.wire")
    from .c10 import _orphans
    _orphans(ctx, "R05.incarnation", "the messages of a mailbox are deleted in the "
             "transaction that deletes its row (same rule instances as R01.codel): "
             "otherwise the sides of the next incarnation of the id are sent the messages "
             "of the finished one -- more than two sides see them")
    shared.r_collation(ctx, "R05.exact", ('mailbox_sides', 'nameplate_sides'),
                       'a third side whose string differs only in case is taken for one of the two')
    shared.r_durable(ctx, "R05.durable", ("chan",),
                     'after a restart the side records the crowd check counts are not the ones the clients were answered from')
    shared.r_startup(ctx, "R05.startup", ('mailbox_sides', 'nameplate_sides'),
                     'side records are removed or changed, so the count the crowd check relies on is wrong')
    from .. import roles as _roles
    R = _roles.get(model)
    interp = model.interp
    ctx.rule("R05.count", "the crowd predicate is len(rows) > 2 over a select of the side "
             "table keyed by the parent key only, taken after this side's row is inserted")
    ctx.rule("R05.dom", "every path on which open_mailbox returns the Mailbox has the "
             "crowd predicate false")
    ctx.rule("R05.noleak", "on a refused command: no retained mailbox, no listener, no "
             "claimed/message frame; exactly one error frame")
    ctx.rule("R05.rows", "side rows are deleted only with their parent and `side` is "
             "never updated")
    ctx.rule("R05.rank", "the refusal depends on the caller's side (needed for 'the "
             "first two sides keep their access')")
    nraise = 0
    seen = set()
    for p in model.paths("ws:onMessage"):
        for e, _ in all_events(p, ("raise",)):
            if e["cls"] != "CrowdedError":
                continue
            nraise += 1
            cons = construct_of(e)
            table = "mailbox_sides" if "open_mailbox" in e["func"] else "nameplate_sides"
            cc = crowd_cond(e["pc"], (table,), interp)
            if cc is None:
                ctx.ob("R05.count", cons, False, e, "the refusal is not decided by a count "
                       "of `%s` rows" % table)
                continue
            t, b, site, rows, st = cc
            # the select event on this path
            sel = None
            ins_before = False
            order = []
            for x, _ in all_events(p, ("sql",)):
                order.append(x)
                if x["site"] == rows[1]:
                    sel = x
            eq = sel["binds"]["where_eq"] if sel else None
            parent_col = "mailbox_id" if table == "mailbox_sides" else "nameplates_id"
            n = threshold(t, rows)
            ok = sel is not None and eq is not None and set(eq) == {parent_col} and \
                n == 3 and b is True and st.plain_rows
            why = ""
            if not ok:
                if eq is None or set(eq) != {parent_col}:
                    why = "the counted select is filtered by (%s); sides that closed or " \
                        "released are not counted" % (st.where.render() if st.where else "nothing")
                elif n is None:
                    why = "the crowd predicate %s is not a plain count of the side rows " \
                        "(Python-side filter or other expression)" % show(t)[:80]
                elif n != 3:
                    why = "the limit is %d sides, not two" % (n - 1)
                else:
                    why = "crowd predicate %s has the wrong polarity" % show(t)[:60]
            ctx.ob("R05.count", cons, ok, e, why, None if ok else render_path(p.events))
            # evaluated after this side's row is inserted (or found)
            if sel is not None:
                idx = order.index(sel)
                has_row = False
                for x in order[:idx]:
                    if x["stmt"].table == table and x["stmt"].kind in ("insert", "select"):
                        xeq = x["binds"]["set"] if x["stmt"].kind == "insert" else \
                            (x["binds"]["where_eq"] or {})
                        if "side" in xeq and parent_col in xeq and \
                                xeq[parent_col] == eq.get(parent_col):
                            has_row = True
                ctx.ob("R05.count", cons + " [after own row]", has_row, sel,
                       "" if has_row else "sides are counted before this side's row exists")
            # R05.rank
            side_terms = set()
            for c in p.events:
                pass
            dep = False
            for x in walk(t):
                if is_conn_side(x):
                    dep = True
                if x[0] == "param" and x[1] == "side":
                    dep = True
            ctx.ob("R05.rank", cons, dep, e,
                   "" if dep else "the refusal (%s) does not depend on which side is asking: "
                   "once a third side has left a row, the first two sides are refused too "
                   "on their next open/claim/close" % show(t)[:50])
    ctx.require("R05.count", nraise, 2, "CrowdedError raise sites reached")
    # R05.dom
    nret = 0
    for p in model.paths("ws:onMessage"):
        for e, _ in all_events(p, ("ret",)):
            if e["callee"] == R.open_op:
                nret += 1
                cc = crowd_cond(e["pc"], ("mailbox_sides",), interp)
                # decided by a row-count fact (fresh mailbox) is fine too
                if cc is None:
                    cnt = [x for x, _ in all_events(p, ("sql",))
                           if x["stmt"].table == "mailbox_sides" and x.get("nrows") is not None]
                    ok = bool(cnt) and all(x["nrows"] <= 2 for x in cnt)
                    ctx.ob("R05.dom", "open_mailbox returns only when not crowded", ok, e,
                           "" if ok else "a path returns the Mailbox without evaluating the "
                           "crowd predicate", None if ok else render_path(p.events))
                else:
                    t, b, site, rows, st = cc
                    ok = b is False and threshold(t, rows) == 3
                    ctx.ob("R05.dom", "open_mailbox returns only when not crowded", ok, e,
                           "" if ok else "the Mailbox is returned on the crowded branch")
    ctx.require("R05.dom", nret, 3, "returns of open_mailbox")
    # the nameplate's mailbox id is told only after the mailbox crowd check:
    # every `claimed` frame is preceded on its path by a returned open_mailbox
    ncl = 0
    for p in model.paths("ws:onMessage"):
        got = False
        for e, _ in all_events(p):
            if e["k"] == "ret" and e["callee"] == R.open_op:
                got = True
            if e["k"] == "send" and frame_type(e) == "claimed":
                ncl += 1
                ctx.ob("R05.dom", "claimed is sent only after the mailbox crowd check passed",
                       got, e, "" if got else "a side is told the nameplate's mailbox id "
                       "without having passed the two-side check",
                       None if got else render_path(p.events))
    ctx.require("R05.dom", ncl, 1, "claimed frames")
    # R05.noleak
    nleak = 0
    for name in ("claim", "open", "close"):
        h = handler_for(model, name)
        for p in handler_paths(model, h):
            crowded = [e for e, _ in all_events(p, ("raise",)) if e["cls"] == "CrowdedError"]
            if not crowded:
                continue
            nleak += 1
            after = False
            leaks = []
            sends = []
            for e, _ in all_events(p):
                if e is crowded[0]:
                    after = True
                    continue
                if not after:
                    continue
                if e["k"] == "setattr" and e["value"][0] == "obj" and e["value"][1] == "Mailbox":
                    leaks.append("mailbox retained")
                if e["k"] == "reg_set" and is_listeners_reg(e["reg"]):
                    leaks.append("listener registered")
                if e["k"] == "send":
                    sends.append(frame_type(e))
            ok = not leaks and sends == ["error"] and p.outcome.kind == "return"
            ctx.ob("R05.noleak", "%s: crowded is answered by one error frame and nothing "
                   "else" % h, ok, crowded[0],
                   "" if ok else "after the refusal: %s; frames %s; exit %s %s" % (
                       leaks, sends, p.outcome.kind, p.outcome.cls or ""),
                   None if ok else render_path(p.events))
    ctx.require("R05.noleak", nleak, 3, "refused claim/open/close paths")
    # subscription only after the check: listener registration preceded by a
    # returned open_mailbox on the same path
    for name in ("open",):
        h = handler_for(model, name)
        for p in handler_paths(model, h):
            got = False
            for e, _ in all_events(p):
                if e["k"] == "ret" and e["callee"] == R.open_op:
                    got = True
                if e["k"] == "reg_set" and is_listeners_reg(e["reg"]):
                    ctx.ob("R05.noleak", "%s: subscribes only after open_mailbox returned" % h,
                           got, e, "" if got else "the listener is registered before the "
                           "crowd check")
    # R05.rows
    e3 = e3mod.get(model)
    nr = 0
    for f in e3.by_kind("child_delete"):
        if f.event["stmt"].table in ("mailbox_sides", "nameplate_sides"):
            nr += 1
            ctx.ob("R05.rows", f.construct, f.ok, f.site, f.detail +
                   ("" if f.ok else ": the deleted sides are forgotten, so a further side "
                    "is admitted to the same incarnation"))
    ctx.require("R05.rows", nr, 2, "deletes on side tables")
    for en in model.runtime_entries():
        for p in model.paths(en):
            for e, _ in all_events(p, ("sql",)):
                if e["stmt"].kind == "update" and e["stmt"].table in (
                        "mailbox_sides", "nameplate_sides") and \
                        ("side" in e["stmt"].cols or "mailbox_id" in e["stmt"].cols or
                         "nameplates_id" in e["stmt"].cols):
                    ctx.ob("R05.rows", construct_of(e), False, e,
                           "a side row is re-labelled")

EXPLANATION += ' Batch 6: messages are deleted in the transaction that deletes their mailbox row, keyed by its id (R05.incarnation); text columns keep text.'
