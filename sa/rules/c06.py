"""C06 -- applications are isolated from each other (non-interference)."""
from ..events import (all_events, is_app_id, is_client_value, construct_of,
                      handler_paths, handler_for)
from ..report import render_path
from ..terms import show, plain, is_const
from .. import scope as scopemod
from .. import e3 as e3mod
from .. import e4 as e4mod

from . import shared

LEVEL = "other"
EXPLANATION = (
    "Decided as non-interference over the SQL model: every statement executed "
    "by Mailbox/AppNamespace code on any path of any entry point must, in every "
    "disjunct of its WHERE (or in its VALUES), carry a conjunct bound to a value "
    "confined to the caller's app (own app id; a key read from an app-scoped "
    "select; a rowid just inserted; the Mailbox object's own id; a mailbox id "
    "validated against this app's mailboxes rows on the path). Server-level "
    "statements may only enumerate app ids or rewrite the global status row. "
    "The namespace of a connection is the registry object keyed by the bind "
    "command's appid. Uniqueness guards must be as wide as the declared unique "
    "key, otherwise a row of another app makes this app's INSERT fail (known "
    "finding: mailboxes.id is a global primary key). Level 'other': the rule set "
    "decides the data-level clause of the property (no statement touches or "
    "reads another app's rows, no answer depends on them) but one finding is "
    "open, and timing/resource interference is not modelled.")
EXPLANATION += " Also decided: every entry point exits clean on the connection all apps share; namespaces are constructed only by the registry's get-or-create (factory call sites included)."


def _visible_results(model):
    from ..e5 import result_sites_visible
    return result_sites_visible(model)


def run(ctx):
    model = ctx.model
    shared.r_wire(ctx, "R06.wire")
    shared.r_collation(ctx, "R06.exact", ('nameplates', 'mailboxes', 'messages'),
                       'two applications whose ids differ only in case share their rows')
    shared.r_durable(ctx, "R06.durable", ("chan",),
                     "whether this app's change survives a restart depends on whether some other app's command commits the shared connection afterwards")
    # a namespace leaves the registry on the strength of its *own* idleness
    # (rule U of the app registry, as in R02.unique / R12.vis): an eviction keyed
    # or guarded by anything else drops a busy app because of another app
    from .. import e4 as _e4
    ctx.rule("R06.evict", "a namespace is evicted from the app registry only under its own "
             "in-use verdict (rule U on the app registry)")
    nev = 0
    for f in _e4.get(model).findings:
        if f.kind == "rule_u" and model.names.reg_name("apps") in f.construct:
            nev += 1
            ctx.ob("R06.evict", f.construct, f.ok, f.site, f.detail +
                   ("" if f.ok else " -- which application loses its namespace (and with it "
                    "the live fan-out between its clients) is decided by something other "
                    "than that application's own state"))
    ctx.require("R06.evict", nev, 1, "rule-U instances for the app registry")
    sc = scopemod.get(model)
    ctx.rule("R06.scope", "every WHERE disjunct / VALUES list of every Mailbox and "
             "AppNamespace statement contains a conjunct bound to an app-scoped value")
    ctx.rule("R06.ins", "every INSERT into a table with an app_id column binds it to "
             "the namespace's own app id")
    ctx.rule("R06.server", "Server-level statements only enumerate app ids or rewrite "
             "the single global status row")
    ctx.rule("R06.bind", "the namespace a connection uses is the registry object keyed "
             "by the appid of its bind command")
    ctx.rule("R06.key", "a uniqueness guard is keyed exactly like the declared unique "
             "key it protects (otherwise another app's row makes the INSERT fail)")
    n = 0
    nins = 0
    nserver = 0
    chan = ctx.repo.channel_schema()
    usage = ctx.repo.usage_schema()
    for site, samples in sorted(sc.samples.items()):
        for (p, e, before) in samples:
            cls = e["func"].split(".")[0]
            if cls not in ("Mailbox", "AppNamespace", "Server"):
                # a helper function: it acts for the innermost class method
                # that called it
                for fr in reversed(e["stack"]):
                    c0 = fr.split(".")[0]
                    if c0 in ("Mailbox", "AppNamespace", "Server"):
                        cls = c0
                        break
            st = e["stmt"]
            if e["db"] not in ("chan", "usage"):
                continue
            if cls in ("Mailbox", "AppNamespace"):
                n += 1
                ok, how = sc.statement_scope(e, before)
                ctx.ob("R06.scope", construct_of(e), ok, e, how,
                       None if ok else render_path(p.events))
                schema = chan if e["db"] == "chan" else usage
                tbl = schema.tables.get(st.table)
                if st.kind == "insert" and tbl is not None and "app_id" in tbl.colnames():
                    nins += 1
                    v = e["src"]["set"].get("app_id")
                    ok2 = v is not None and is_app_id(v)
                    ctx.ob("R06.ins", construct_of(e), ok2, e,
                           "" if ok2 else "app_id column is %s" % (
                               "not written" if v is None else "bound to " + show(v)[:60]))
            elif cls == "Server":
                nserver += 1
                ok = False
                why = ""
                members = [st] + list(st.extra.get("union", [])) if st.kind == "select" else []
                if members and (st.distinct or len(members) > 1) and all(
                        m.cols == ["app_id"] and m.where is None and
                        not m.extra.get("joins") for m in members):
                    ok = True
                    why = "enumerates app ids"
                elif e["db"] == "usage" and st.table == "current":
                    ok = True
                    why = "global status row"
                elif e["db"] == "usage" and usage.tables.get(st.table) is not None and \
                        "app_id" not in usage.tables[st.table].colnames():
                    ok = True
                    why = "usage table without an app column (server-wide status)"
                elif e["db"] == "usage" and st.table not in ("nameplates", "mailboxes",
                                                             "client_versions"):
                    # a status table the server rewrites as a whole (operator
                    # statistics): not one of the per-app usage records
                    ok = True
                    why = "status table rewritten by the server, not a usage record table"
                elif e["db"] == "chan" and st.kind == "select" and not st.mutating and \
                        e["site"][:2] not in _visible_results(model):
                    ok = True
                    why = ("server-wide read whose result reaches no frame, no channel "
                           "statement and no decision before one (operator statistics)")
                else:
                    why = "Server-level statement reads or writes per-app rows without a namespace"
                ctx.ob("R06.server", construct_of(e), ok, e, why)
            else:
                ctx.ob("R06.scope", construct_of(e), False, e,
                       "channel/usage statement executed outside Mailbox/AppNamespace/Server")
    ctx.require("R06.scope", n, 15, "statements in Mailbox/AppNamespace")
    ctx.require("R06.ins", nins, 4, "INSERTs into tables with an app_id column")
    ctx.require("R06.server", nserver, 3, "Server-level statements")
    # R06.bind
    h = handler_for(model, "bind")
    nb = 0
    for p in handler_paths(model, h):
        for e, _ in all_events(p, ("setattr",)):
            if e["obj"][0] == "obj" and e["obj"][1] == "WebSocketServer" and \
                    e["value"][0] == "obj" and e["value"][1] == "AppNamespace":
                nb += 1
                tag = e["value"][2]
                key = None
                for x, _ in all_events(p, ("reg_get", "reg_set")):
                    if x.get("obj") == e["value"] or x.get("value") == e["value"]:
                        key = x["key"]
                ok = key is not None and key[0] == "sub" and is_client_value(key) and \
                    is_const(key[2]) and key[2][1] == "appid"
                # the app of a connection never changes: it is assigned only on
                # paths where it is known to be unset
                from ..e3 import pc_truth as _pct
                was = None
                for tt, vv in _pct(e["pc"]).items():
                    if tt[0] == "attr" and tt[1] == e["obj"] and tt[2] == e["attr"]:
                        was = vv
                    if tt[0] == "obj" and isinstance(tt[2], tuple) and tt[2][:1] == ("held",) \
                            and tt[2][-1] == e["attr"] and tt[2][1] == e["obj"][2]:
                        was = vv
                    if tt[0] == "isnone" and tt[1][0] == "attr" and tt[1][1] == e["obj"] \
                            and tt[1][2] == e["attr"]:
                        was = not vv
                ctx.ob("R06.bind", "%s: %s is assigned only while unset" % (h, e["attr"]),
                       was is False, e, "" if was is False else
                       "a connection that is already bound to an app can be bound to another "
                       "one: it keeps the mailbox, subscription and names of the first app "
                       "and acts on them under the second")
                ctx.ob("R06.bind", "%s: %s = registry[%s]" % (h, e["attr"],
                                                              show(key)[-30:] if key else "?"),
                       ok, e, "" if ok else "the namespace is not the registry entry of "
                       "the bind command's appid")
    ctx.require("R06.bind", nb, 1, "namespace retention sites in the bind handler")
    # R06.key
    e3 = e3mod.get(model)
    nk = 0
    for f in e3.by_kind("unique"):
        nk += 1
        ctx.ob("R06.key", f.construct, f.ok, f.site, f.detail,
               render_path(f.path.events) if (f.path and not f.ok) else None)
    ctx.require("R06.key", nk, 4, "guarded INSERTs")
    # construct-once / registry key (one namespace object per app id)
    e4 = e4mod.get(model)
    for f in e4.findings:
        if f.kind in ("registry_key", "construct_once") and "AppNamespace" in f.construct \
                or (f.kind == "registry_key" and model.names.reg_name("apps") in f.construct):
            ctx.ob("R06.bind", f.construct, f.ok, f.site, f.detail)
    ctx.assume("R-plumb: AppNamespace._app_id / Mailbox._app_id are the registry key "
               "of Server._apps (checked by the shared rule R-plumb and E4 registry_key)")
    ctx.note("timing and resource interference between apps is not decided")

EXPLANATION += ' Batch 6: a namespace is evicted only under its own in-use verdict (R06.evict, rule U); text columns keep text.'
