"""C17 -- protocol discipline: welcome, acks, harmless errors, once-only."""
import ast
import os
import re

from ..events import (all_events, construct_of, handler_paths, handler_for,
                      frame_type, frame_fields, flat_events, handler_of,
                      dispatch_table, is_client_value, is_handler_frame)
from ..report import render_path, Ctx
from ..terms import show, plain, is_const, strip_wrappers, mentions, walk
from ..e3 import pc_truth
from .. import e3 as e3mod
from ..repo import AnalysisError

LEVEL = "other"
EXPLANATION = (
    "Decides: welcome is the first frame of a connection and carries the "
    "configured notices; on every path of the message callback on which `type` "
    "is present the ack (echoing id) precedes every other frame and every "
    "dispatch; every handler other than ping/bind is reached only with a bound "
    "app; dispatch arms, handlers and the protocol document's message list agree; "
    "every frame goes through the one send routine, which adds type and "
    "server_tx; a validation error changes nothing (no SQL, commit, registry or "
    "flag event between ack and raise), is answered by exactly one error frame "
    "carrying the original message, which is never mutated; each once-only "
    "command has a flag whose test dominates its effects and which is set on the "
    "effect path; no connection-dropping call exists; the only exception class "
    "that can leave a handler is the protocol Error (explicit raises plus the "
    "may-raise sites of E3). Not decided: non-object JSON, non-string field "
    "values.")
EXPLANATION += ' A once-only marker is set only by its own handler.'

DROP_CALLS = ("sendClose", "dropConnection", "loseConnection", "abortConnection",
              "failConnection", "_fail_connection", "failHandshake")
ONCE = ("bind", "allocate", "claim", "release", "close", "open")
EFFECT_KINDS = ("sql", "commit", "reg_set", "reg_del", "script")


def doc_messages(doc):
    c2s, s2c = set(), set()
    if not doc:
        return None
    m = re.search(r"^## All Message Types\s*$(.*?)(^## |\Z)", doc, re.M | re.S)
    if not m:
        return None
    for line in m.group(1).splitlines():
        mm = re.match(r"^\*\s*\(C->S\)\s+(\w+)", line)
        if mm:
            c2s.add(mm.group(1))
        mm = re.match(r"^\*\s*S->C\s+(\w+)", line)
        if mm:
            s2c.add(mm.group(1))
    return c2s, s2c


def run(ctx):
    model = ctx.model
    paths = model.paths("ws:onMessage")
    from . import shared as _sh
    _sh.r_present(ctx, "R17.present", ("bind", "claim", "release", "open", "add", "close"),
                  "a well-formed command is answered with an error about a missing field")
    _sh.r_convert(ctx, "R17.convert", ["ws:onMessage", "ws:onOpen", "ws:onClose"],
                  "the handler fails internally, the command gets no answer and the "
                  "connection is dropped")
    ctx.rule("R17.welcome", "the first frame of a connection is welcome carrying the "
             "configured notices")
    ctx.rule("R17.ack", "with `type` present the ack (id echoed) precedes every other "
             "frame and every dispatch")
    ctx.rule("R17.bound", "handlers other than ping/bind are reached only when bound; "
             "ping/bind are reachable unbound")
    ctx.rule("R17.table", "dispatch arms = handlers = documented message list")
    ctx.rule("R17.env", "every frame goes through send(), which adds type and server_tx")
    ctx.rule("R17.err", "a validation error has no effect, one error frame with the "
             "unmodified original")
    ctx.rule("R17.once", "once-only commands: flag test dominates effects; flag set on "
             "the effect path")
    ctx.rule("R17.alive", "no connection-dropping call in the package")
    ctx.rule("R17.escape", "only the protocol Error can leave a handler")
    # -- welcome
    wp = model.paths("ws:onOpen")
    for p in wp:
        sends = [e for e, _ in all_events(p, ("send",))]
        ok = bool(sends) and frame_type(sends[0]) == "welcome"
        w = (frame_fields(sends[0]) or {}).get("welcome") if sends else None
        ok = ok and w == ("cfg", "welcome")
        ctx.ob("R17.welcome", "onOpen sends welcome first, from the server's welcome", ok,
               sends[0] if sends else "", "" if ok else "first frame on open is %s with %s"
               % (frame_type(sends[0]) if sends else "nothing", show(w)[:40] if w else "-"))
    ctx.require("R17.welcome", len(wp), 1, "paths of the connection-open callback")
    nw = 0
    from ..events import expand_merges
    wslot = model.names.slot("Server", ("cfg", "welcome"))
    for p in model.paths("tap:makeService"):
        for e, _ in all_events(p, ("setattr",)):
            if e["obj"][0] == "obj" and e["obj"][1] == "Server" and e["attr"] == wslot and \
                    e["func"] == "Server.__init__":
                nw += 1
                ok = True
                bad = ""
                for (_pc, w) in expand_merges(model.interp, e["value"], ()):
                    # which notices are configured on this path
                    on = set()
                    for tt, vv in pc_truth(tuple(e["pc"]) + tuple(_pc)).items():
                        inner, pol = tt, vv
                        if inner[0] == "isnone":
                            inner, pol = inner[1], not vv
                        if inner[0] == "sub" and inner[2][0] == "const" and pol is True:
                            on.add(inner[2][1])
                    if w[0] == "coll":
                        items = [(a["elem"] if a.get("key") is None else (a["key"], a["elem"]))
                                 for a in model.interp.coll_adds.get(w[1], [])]
                        items = [it for it in items if isinstance(it, tuple) and len(it) == 2]
                    elif w[0] in ("dictlit", "kwdict"):
                        items = list(w[1])
                    else:
                        ok = False
                        bad = "the welcome is %s" % show(w)[:50]
                        break
                    have = set((k[1] if isinstance(k, tuple) else k) for k, v in items)
                    for wk, opt in (("motd", "motd"), ("current_cli_version",
                                    "advertise-version"), ("error", "signal-error")):
                        if opt in on and wk not in have:
                            ok = False
                            bad = "with --%s configured the welcome has no `%s` entry " \
                                "(it carries %s)" % (opt, wk, sorted(have))
                    for k, v in items:
                        kk = k[1] if isinstance(k, tuple) else k
                        want = {"motd": "motd", "current_cli_version": "advertise-version",
                                "error": "signal-error"}.get(kk)
                        # a documented notice comes from the configuration (its own
                        # option, or another one that supplies it: a --motd-file);
                        # further entries are additions, not notices
                        if want is not None and not mentions(
                                v, lambda x: (x[0] == "sub" and x[2] == ("const", want)) or
                                (x[0] == "param" and x[1] in ("config", "options"))):
                            ok = False
                            bad = "welcome[%r] is %s" % (kk, show(v)[:50])
                ctx.ob("R17.welcome", "make_server builds welcome from the configured notices",
                       ok, e, bad)
    ctx.require("R17.welcome", nw, 1, "Server constructions reached from makeService")
    # -- ping/pong
    hp = handler_for(model, "ping")
    npong = 0
    for p in handler_paths(model, hp):
        for e, _ in all_events(p, ("send",)):
            if frame_type(e) == "pong":
                npong += 1
                v = (frame_fields(e) or {}).get("pong")
                ok = v is not None and v[0] == "sub" and v[2] == ("const", "ping") and \
                    is_client_value(v[1])
                ctx.ob("R17.env", "pong echoes the ping value", ok, e,
                       "" if ok else "pong carries %s" % show(v)[:50])
    ctx.require("R17.env", npong, 1, "pong frames")
    # -- ack ordering
    nack = 0
    for p in paths:
        truth = pc_truth(p.pc)
        has_type = None
        for t, v in truth.items():
            if t[0] == "cmp" and t[1] == "in" and t[2] == ("const", "type"):
                has_type = v
        if has_type is not True:
            continue
        nack += 1
        first = None
        for e, _ in all_events(p):
            if e["k"] == "send" or (e["k"] == "call" and
                                    is_handler_frame(model, e["callee"])) \
                    or e["k"] in EFFECT_KINDS:
                first = e
                break
        ok = first is not None and first["k"] == "send" and frame_type(first) == "ack"
        if ok:
            idv = (frame_fields(first) or {}).get("id")
            ok = idv is not None and idv[0] == "call" and idv[1] == ".get" and \
                idv[2][1] == ("const", "id") and is_client_value(idv[2][0])
        ctx.ob("R17.ack", "ack first, echoing id (%s)" % (handler_of(p) or "no handler"), ok,
               first or "", "" if ok else "a typed command is not answered by ack(id) "
               "before anything else", None if ok else render_path(p.events))
    ctx.require("R17.ack", nack, 10, "paths with a typed command")
    # -- bound
    tab = dispatch_table(model)
    unbound_ok = {}
    for p in paths:
        h = handler_of(p)
        if not h:
            continue
        call = [e for e, _ in all_events(p, ("call",))
                if e["callee"] == "WebSocketServer." + h][0]
        truth = pc_truth(call["pc"])
        bound = None
        for t, v in truth.items():
            if t[0] == "obj" and t[1] == "AppNamespace" and isinstance(t[2], tuple) and \
                    t[2][0] == "held":
                bound = v
        unbound_ok.setdefault(h, set()).add(bound)
    free = set()
    for mtype in ("ping", "bind"):
        for h in tab.get(mtype, ()):
            free.add(h)
    for h, vals in sorted(unbound_ok.items()):
        if h in free:
            ok = None in vals or False in vals
            ctx.ob("R17.bound", "%s reachable before bind" % h, ok, "",
                   "" if ok else "%s requires a bound connection" % h)
        else:
            ok = vals == {True}
            ctx.ob("R17.bound", "%s only when bound" % h, ok, "",
                   "" if ok else "%s can be reached on an unbound connection" % h)
    ctx.require("R17.bound", len(unbound_ok), 9, "dispatched handlers")
    # -- table
    ws = ctx.repo.classes["WebSocketServer"][1]
    dispatched = set(h for hs in tab.values() for h in hs)
    prefix = os.path.commonprefix(sorted(dispatched))
    handlers = set(n for n in ws["methods"] if len(prefix) >= 3 and n.startswith(prefix)) \
        or set(dispatched)
    ok = handlers == dispatched
    ctx.ob("R17.table", "every handle_* method is dispatched and vice versa", ok, "",
           "" if ok else "handlers %s vs dispatched %s" % (
               sorted(handlers - dispatched), sorted(dispatched - handlers)))
    for mt, hs in sorted(tab.items()):
        ctx.ob("R17.table", "type %r has one handler" % mt, len(hs) == 1, "",
               "" if len(hs) == 1 else "dispatches to %s" % sorted(hs))
    sent_types = set()
    for en in model.runtime_entries():
        for p in model.paths(en):
            for e, _ in all_events(p, ("send",)):
                sent_types.add(frame_type(e))
    dm = doc_messages(ctx.repo.protocol_doc)
    if dm is None:
        ctx.note("protocol document message list not found: cross-check skipped")
    else:
        c2s, s2c = dm
        # every documented command is implemented and every documented frame
        # is sent; a command / frame the document does not list yet is an
        # addition, not a breach of the discipline (its handler is still
        # subject to every other rule), and is only noted
        ok = c2s <= set(tab)
        ctx.ob("R17.table", "every documented C->S command has a dispatch arm", ok, "",
               "" if ok else "unimplemented %s" % sorted(c2s - set(tab)))
        ok = s2c <= sent_types
        ctx.ob("R17.table", "every documented S->C message is sent somewhere", ok, "",
               "" if ok else "never sent %s" % sorted(s2c - sent_types))
        if set(tab) - c2s or sent_types - s2c:
            ctx.note("not in the protocol document: commands %s, frames %s" % (
                sorted(set(tab) - c2s), sorted(sent_types - s2c)))
    # -- envelope
    nsend = 0
    for en in model.runtime_entries():
        for p in model.paths(en):
            for e, _ in all_events(p, ("send",)):
                nsend += 1
                ff = frame_fields(e) or {}
                tx = ff.get("server_tx")
                ok = e["func"] == "WebSocketServer.send" and is_const(ff.get("type", ("x",))) \
                    and tx is not None and tx[0] == "call" and tx[1] == "time.time"
                ctx.ob("R17.env", "frame %s has type and server_tx, sent by send()" %
                       frame_type(e), ok, e, "" if ok else "frame fields %s sent from %s" % (
                           sorted(ff), e["func"]))
    ctx.require("R17.env", nsend, 12, "frame emissions")
    # -- errors
    nerr = 0
    from ..e5 import relevant_attrs
    conn_relevant = relevant_attrs(model, "WebSocketServer")
    for p in paths:
        raises = [e for e, _ in all_events(p, ("raise",)) if e["cls"] == "Error"]
        if not raises:
            continue
        r = raises[0]
        evs = [e for e, _ in all_events(p)]
        idx = evs.index(r)
        exempt = any(e["k"] == "catch" and e["cls"] in ("CrowdedError", "ReclaimedError")
                     for e in evs[:idx])
        nerr += 1
        msgarg = r["args"][0] if r.get("args") else None
        label = "%s: Error(%s)" % (handler_of(p) or "onMessage",
                                   msgarg[1] if msgarg and is_const(msgarg) else "?")
        if not exempt:
            # connection attributes that nothing decides on and no statement or
            # frame carries (counters kept for the log) are not state
            def _counter_only(e):
                return counter_only(model, e)
            effects = [e for e in evs[:idx] if (e["k"] in EFFECT_KINDS and not (
                           e["k"] == "sql" and not e["stmt"].mutating) and
                           not _counter_only(e)) or
                       (e["k"] == "setattr" and e["obj"][0] == "obj" and
                        e["obj"][1] == "WebSocketServer" and e["attr"] in conn_relevant)]
            ok = not effects
            ctx.ob("R17.err", label + " has no effect", ok, r,
                   "" if ok else "before the error is raised: %s" % construct_of(effects[0])
                   if effects and effects[0]["k"] != "setattr" else
                   ("" if ok else "before the error is raised the connection's %s is "
                    "changed" % effects[0]["attr"]), None if ok else render_path(p.events))
        after = [e for e in evs[idx:] if e["k"] == "send"]
        ok = len(after) == 1 and frame_type(after[0]) == "error" and \
            p.outcome.kind == "return"
        if ok:
            ff = frame_fields(after[0]) or {}
            orig = ff.get("orig")
            ok = orig is not None and "error" in ff and (
                (orig[0] == "call" and orig[1] == "json.loads") or is_client_value(orig))
        ctx.ob("R17.err", label + " -> one error frame with orig", ok, r,
               "" if ok else "after the error: frames %s" % [frame_type(e) for e in after])
        mut = [e for e in evs if e["k"] in ("reg_set", "reg_del") and
               is_client_value(e["reg"]) and e["reg"][0] == "call"]
        if mut:
            ctx.ob("R17.err", label + " original message unmodified", False, mut[0],
                   "the received message object is modified before it is echoed")
    ctx.require("R17.err", nerr, 15, "paths ending in a protocol error")
    # -- once-only
    once_flag = {}
    for name in ONCE:
        if name not in tab:
            raise AnalysisError("R17.once: no dispatch arm for %r" % name)
        h, good, fail_flags = once_flag_of(model, name)
        if good is None and h in _OPAQUE_REFUSALS:
            raise AnalysisError("R17.once: %s is refused on the word of a helper object's "
                                "method (the once-only markers are not plain attributes of "
                                "the connection): not modelled" % h)
        once_flag[h] = good
        ctx.ob("R17.once", "%s is once per connection" % h, good is not None, "",
               "guarded by %s" % good if good else
               "no connection flag is both tested before the effects of %s and set on "
               "its effect path (flags refused on: %s)" % (h, sorted(fail_flags)))
        if good is not None:
            # nothing but the handler itself marks the command as sent (boolean
            # flags only: `a mailbox is held` is state, not a once-only marker)
            for (e, own) in foreign_setters(model, h, good):
                ctx.ob("R17.once", "%s set by %s" % (good, e["func"]), own, e,
                       "" if own else "the flag that makes a second %s an error is "
                       "set by %s, not by the %s handler: the connection's first "
                       "%s is refused" % (name, e["func"], name, name))
    # -- remembered names (what was claimed / opened) are not forgotten while
    #    the command they validate can still be accepted
    ctx.rule("R17.names", "the remembered nameplate / mailbox name of a connection is "
             "not cleared while its release / close can still be accepted")
    name_attrs = {}
    for p in paths:
        h = handler_of(p)
        if not h:
            continue
        for (tt, b, s) in p.pc:
            for x in walk(tt):
                if x[0] == "cmp" and x[1] == "==":
                    for a, o in ((x[2], x[3]), (x[3], x[2])):
                        if a[0] == "attr" and a[1][0] == "obj" and \
                                a[1][1] == "WebSocketServer" and is_client_value(o):
                            name_attrs[a[2]] = h
    nn = 0
    for en in model.runtime_entries():
        for p in model.paths(en):
            evs = None
            for e, _ in all_events(p, ("setattr",)):
                if e["attr"] in name_attrs and e["obj"][0] == "obj" and \
                        e["obj"][1] == "WebSocketServer" and e["value"] == ("const", None) \
                        and not e["func"].endswith("__init__"):
                    nn += 1
                    flag = once_flag.get(name_attrs[e["attr"]])
                    if evs is None:
                        evs = [x for x, _ in all_events(p, ("setattr",))]
                    done = flag is not None and any(
                        x["obj"] == e["obj"] and x["attr"] == flag and
                        _is_truthy_value(x["value"]) and x["value"] != ("const", None)
                        for x in evs)
                    ctx.ob("R17.names", "%s clears %s" % (e["func"], e["attr"]), done, e,
                           "" if done else "the connection forgets the name it %s while %s "
                           "is still unset: a later %s naming something else is accepted "
                           "instead of being answered with an error" % (
                               "opened" if "mailbox" in e["attr"] else "claimed", flag,
                               name_attrs[e["attr"]]))
    # one attribute per name: what is None-tested ("was anything claimed /
    # opened?"), what the named field is compared with, and what a bare command
    # falls back to are the same attribute -- the handle of the mailbox object,
    # say, is cleared when the mailbox is deleted under the connection, the
    # remembered name is not
    from .. import roles as _roles_n
    _Rn = _roles_n.get(model)
    _close_h = handler_for(model, "close")
    for a, h in sorted(name_attrs.items()):
        odd = None
        for p in handler_paths(model, h):
            truth = pc_truth(p.pc)
            present = None
            compared = False
            a_none = None
            for tt, vv in truth.items():
                if tt[0] == "cmp" and tt[1] == "in" and is_const(tt[2]) and \
                        isinstance(tt[2][1], str) and is_client_value(tt[3]):
                    present = vv
                if tt[0] == "cmp" and tt[1] in ("==", "!="):
                    for x, y in ((tt[2], tt[3]), (tt[3], tt[2])):
                        if _flag_attr(x) == a and is_client_value(y):
                            compared = True
                if tt[0] == "isnone" and _flag_attr(tt[1]) == a:
                    a_none = vv
            if present is None:
                continue
            evs = [e for e, _ in all_events(p)]
            refused = any(e["k"] == "raise" and e["cls"] == "Error" for e in evs) and \
                not any(e["k"] == "sql" for e in evs)
            if present is True and not compared and not refused and a_none is not True:
                odd = ("a %s naming a %s is carried out without being compared with %s "
                       "although %s is not known to be unset" % (
                           h, "mailbox" if h == _close_h else "nameplate", a, a))
            # (a refusal for another reason -- the value's type, say -- is not
            # about what is remembered: only refusals decided by a test of the
            # connection's state count)
            last_raise = [e for e in evs if e["k"] == "raise" and e["cls"] == "Error"]
            by_state = bool(last_raise) and bool(last_raise[0]["pc"]) and \
                _flag_attr(last_raise[0]["pc"][-1][0]) is not None
            if present is False and refused and by_state and a_none is not True:
                odd = ("a bare %s is refused although %s (what the connection %s) is not "
                       "known to be unset" % (h, a, "opened" if h == _close_h else "claimed"))
        ctx.ob("R17.names", "%s: the None tests that guard the %s name are on %s" % (
            h, "mailbox" if h == _close_h else "nameplate", a), odd is None, "",
            "" if odd is None else odd + ": `was anything %s?` is decided by something other "
            "than the remembered name (the handle of the mailbox object is cleared when the "
            "mailbox is deleted under the connection, the name is not)" % (
                "opened" if h == _close_h else "claimed"))
        # the id a bare command falls back to
        ops = (_Rn.open_op, _Rn.release_op)
        for p in handler_paths(model, h):
            for e, _ in all_events(p, ("call",)):
                if e["callee"] not in ops or e["func"] != "WebSocketServer." + h:
                    continue
                argvals = [v for _, v in (e.get("argmap") or ())] or list(e["args"])
                if not argvals:
                    continue
                v = plain(argvals[0])
                if is_client_value(v):
                    continue
                okv = v[0] == "attr" and v[1][0] == "obj" and v[1][1] == "WebSocketServer" \
                    and v[2] in name_attrs
                ctx.ob("R17.names", "%s: a bare command names what %s remembers" % (h, a),
                       okv, e, "" if okv else "without the field the operation is given %s, "
                       "not the remembered name" % show(v)[:50])
    # "is a name remembered?" is a None test: the empty string is a legal
    # identifier, and a truthiness test takes it for "nothing remembered"
    def _truthy_tests(t):
        while t[0] in ("not", "truth"):
            t = t[1]
        if t[0] == "and" or t[0] == "or":
            for x in t[1]:
                for y in _truthy_tests(x):
                    yield y
        elif t[0] == "attr" and t[1][0] == "obj" and t[1][1] == "WebSocketServer" and \
                t[2] in name_attrs:
            yield t[2]
    seen_tt = set()
    for p in paths:
        h = handler_of(p)
        if not h:
            continue
        for (tt, b, site) in p.pc:
            for a in _truthy_tests(tt):
                if (a, site[:2]) in seen_tt:
                    continue
                seen_tt.add((a, site[:2]))
                ctx.ob("R17.names", "%s tests %s for truth at line %d" % (h, a, site[1]),
                       False, "%s:%d" % site[:2],
                       "whether a name was claimed / opened is decided by the truth value of "
                       "%s: a connection that claimed or opened the empty-string name is "
                       "treated as having none, and a release / close naming something else "
                       "is carried out instead of being answered with an error" % a)
    ctx.ob("R17.names", "remembered names: %s" % sorted(name_attrs), len(name_attrs) >= 2, "",
           "" if len(name_attrs) >= 2 else "expected the mismatch checks of release and close")
    # -- alive
    for mod in ctx.repo.modules.values():
        bad = [n for n in ast.walk(mod.tree) if isinstance(n, ast.Attribute) and
               n.attr in DROP_CALLS]
        ctx.ob("R17.alive", "module %s never drops a connection" % mod.name, not bad,
               "%s:%d" % (mod.path, bad[0].lineno) if bad else mod.path,
               "" if not bad else "call of %s" % bad[0].attr)
    _sh.r_options(ctx, "R17.alive", "a well-formed command that exceeds the limit makes "
                  "Autobahn drop the connection instead of being acknowledged and answered")
    # -- the connection's handles (namespace, mailbox) start as None and are
    # cleared again: a method call on the value a handler finds in such an
    # attribute must be dominated by a test of that value
    nh = 0
    seen_h = set()
    for en in model.WS_ENTRIES:
        for p in model.paths(en):
            first = set()
            for e, _ in all_events(p, ("call",)):
                st = e.get("self_term")
                if not (st and st[0] == "obj" and isinstance(st[2], tuple) and st[2] and
                        st[2][0] == "held" and st[2][1] == ("conn",)):
                    continue
                if st in first:
                    continue      # an earlier call on it returned: it is an object
                first.add(st)
                nh += 1
                ok = pc_truth(e["pc"]).get(st) is True
                key = (e["site"][:2], ok)
                if key in seen_h:
                    continue
                seen_h.add(key)
                ctx.ob("R17.escape", "%s: %s is tested before %s is called on it" % (
                    e["func"], st[2][2], e["callee"].split(".")[-1]), ok, e,
                    "" if ok else "the handler calls %s on the connection's %s without a test "
                    "of that handle on the path: it is None before the first %s and after "
                    "the handle was cleared, so the call raises AttributeError, the command "
                    "gets no answer and the connection is dropped" % (
                        e["callee"], st[2][2], "open" if st[1] == "Mailbox" else "bind"),
                    None if ok else render_path(p.events))
    ctx.require("R17.escape", nh, 5, "method calls on the connection's handles")
    # -- escape
    guard_ok = _allocate_guard_ok(ctx)
    nesc = 0
    for p in paths:
        if p.outcome.kind != "raise":
            continue
        h = handler_of(p) or "onMessage"
        cls = p.outcome.cls
        rs = [e for e, _ in all_events(p, ("raise",))]
        r = rs[-1] if rs else None
        if h == handler_for(model, "allocate") and guard_ok and cls in (
                "CrowdedError", "ReclaimedError") and _nameplate_found(p):
            ctx.note("allocate -> %s on a path where the candidate nameplate already has a "
                     "row: infeasible when the allocator's candidate is absent from the "
                     "app's nameplates (C04 R04.guard, %s) and handlers are atomic; exempt "
                     "here, reported under C04 if the guard fails" % (
                         cls, "discharged" if guard_ok else "NOT discharged on this tree"))
            ctx.assume("the allocator returns only nameplates without a row in the app "
                       "(decided by C04 R04.src/R04.guard)")
            continue
        nesc += 1
        extra = ""
        if h == handler_for(model, "allocate") and not guard_ok and cls in (
                "CrowdedError", "ReclaimedError"):
            extra = (" (the allocator's candidate is not proved absent from the app's "
                     "nameplates -- see C04 R04.src/R04.guard -- so claiming it can be "
                     "refused)")
        inv = dict((hh, mt) for mt, hs in dispatch_table(model).items() for hh in hs)
        hname = "the %s handler" % inv[h] if h in inv else h
        ctx.ob("R17.escape", "%s lets %s escape (%s)" % (hname, cls,
                                                         construct_of(r) if r else "?"),
               False, r or "", "an exception other than the protocol Error leaves the "
               "handler: no answer is sent and Autobahn sees an internal error" + extra,
               render_path(p.events))
    e3 = e3mod.get(model)
    for f in e3.may_raise():
        if any(is_handler_frame(model, s) for s in f.event["stack"]):
            hs = [s for s in f.event["stack"] if is_handler_frame(model, s)]
            ctx.ob("R17.escape", "may-raise %s at %s" % (f.may_raise, f.construct), False,
                   f.site, f.detail + " (reached from %s)" % hs[0].split(".")[1],
                   render_path(f.path.events) if f.path else None)
    ctx.ob("R17.escape", "handler exits analysed", True, "", "%d paths" % len(paths))
    _text_rule(ctx)
    ctx.assume("identifiers in commands are strings (asserts on them are assumed)")


def _text_rule(ctx):
    """R17.text: client text that is bound to SQL parameters was checked for
    UTF-8 encodability first.  JSON admits lone surrogates ("\\ud800"); Python
    keeps them in the str and sqlite3 raises UnicodeEncodeError when it binds
    one -- out of the handler, past the `except Error`."""
    import ast as _ast
    from ..repo import dotted
    model = ctx.model
    repo = ctx.repo
    ctx.rule("R17.text", "every command whose strings reach SQL parameters passes a check "
             "that answers text which UTF-8 cannot encode with a protocol error, before the "
             "dispatch")
    # (1) which handlers bind client text
    binders = {}
    first_sql_line = {}
    for p in model.paths("ws:onMessage"):
        for e, _ in all_events(p, ("sql",)):
            if any(isinstance(v, tuple) and is_client_value(v) for v in (e.get("params") or ())):
                binders.setdefault(handler_of(p) or "onMessage", set()).add(e["site"][:2])
    nb = sum(len(v) for v in binders.values())
    ctx.require("R17.text", nb, 8, "statements binding client text")
    # (2) the check: a try whose body .encode()s (strictly, UTF-8) and whose
    # handler for the Unicode error raises the protocol Error -- in the message
    # callback itself or in a function it calls before the dispatch
    ws = repo.classes["WebSocketServer"]
    mod = ws[0]
    on_msg = ws[1]["methods"]["onMessage"].node

    def is_check(fn_node):
        for n in _ast.walk(fn_node):
            if not isinstance(n, _ast.Try):
                continue
            enc = False
            for b in n.body:
                for c in _ast.walk(b):
                    if isinstance(c, _ast.Call) and isinstance(c.func, _ast.Attribute) and \
                            c.func.attr == "encode":
                        args = [a.value for a in c.args if isinstance(a, _ast.Constant)]
                        kw = dict((k.arg, getattr(k.value, "value", None)) for k in c.keywords)
                        codec = (args[0] if args else kw.get("encoding", "utf-8")) or "utf-8"
                        errors = args[1] if len(args) > 1 else kw.get("errors", "strict")
                        if str(codec).lower().replace("-", "") == "utf8" and errors == "strict":
                            enc = True
            if not enc:
                continue
            for h in n.handlers:
                names = []
                if isinstance(h.type, _ast.Tuple):
                    names = [(dotted(x) or "").split(".")[-1] for x in h.type.elts]
                elif h.type is not None:
                    names = [(dotted(h.type) or "").split(".")[-1]]
                if not (set(names) & {"UnicodeEncodeError", "UnicodeError", "ValueError",
                                      "Exception"}):
                    continue
                for r in _ast.walk(h):
                    if isinstance(r, _ast.Raise) and r.exc is not None:
                        d = dotted(r.exc.func) if isinstance(r.exc, _ast.Call) else dotted(r.exc)
                        if d and d.split(".")[-1] == "Error":
                            return n
        return None

    # first dispatch: the first call of a handler method in source order
    handlers = set(h for hs in dispatch_table(model).values() for h in hs)
    first_dispatch = None
    for n in _ast.walk(on_msg):
        if isinstance(n, _ast.Call):
            d = dotted(n.func) or ""
            if d.startswith("self.") and d[5:] in handlers:
                first_dispatch = n.lineno if first_dispatch is None else min(first_dispatch,
                                                                             n.lineno)
            if isinstance(n.func, _ast.Call) and (dotted(n.func.func) or "") == "getattr":
                first_dispatch = n.lineno if first_dispatch is None else min(first_dispatch,
                                                                             n.lineno)
    found = None
    t = is_check(on_msg)
    if t is not None and (first_dispatch is None or t.lineno < first_dispatch):
        found = "%s:%d (in onMessage)" % (mod.path, t.lineno)
    if found is None:
        for n in _ast.walk(on_msg):
            if not isinstance(n, _ast.Call) or (first_dispatch is not None and
                                                n.lineno >= first_dispatch):
                continue
            d = dotted(n.func) or ""
            callee = None
            if d.startswith("self.") and d[5:] in ws[1]["methods"]:
                callee = ws[1]["methods"][d[5:]].node
            elif d in mod.functions:
                callee = mod.functions[d].node
            else:
                for m2 in repo.modules.values():
                    if d.split(".")[-1] in m2.functions and d.split(".")[-1] in mod.imports:
                        callee = m2.functions[d.split(".")[-1]].node
            if callee is not None and is_check(callee) is not None:
                found = "%s:%d (%s, called before the dispatch)" % (mod.path, n.lineno, d)
                break
    ok = found is not None
    ctx.ob("R17.text", "client text bound to SQL parameters is checked for UTF-8 "
           "encodability before the dispatch", ok,
           "%s:%d" % (mod.path, on_msg.lineno),
           ("checked at %s; %d statements in %d handlers bind client text" % (
               found, nb, len(binders))) if ok else
           "%d statements in %d handlers (%s) bind strings of the client's message to SQL "
           "parameters unchecked: a JSON string with a lone surrogate (\"\\ud800\") makes "
           "sqlite3 raise UnicodeEncodeError out of the handler -- no answer is sent and "
           "Autobahn drops the connection" % (nb, len(binders), ", ".join(sorted(binders))))


def counter_only(model, e):
    """a store into a container nothing decides on and no statement or frame
    carries (event counters kept for the log)"""
    from ..e5 import relevant_attrs
    if e["k"] not in ("reg_set", "reg_del"):
        return False
    r = e.get("reg")
    if not (isinstance(r, tuple) and len(r) >= 3 and r[0] in ("reg", "attr") and
            isinstance(r[1], tuple) and r[1] and r[1][0] == "obj"):
        return False
    return r[2] not in relevant_attrs(model, r[1][1])


_OPAQUE_REFUSALS = set()


def once_flag_of(model, name):
    """(handler, flag, refusal flags): the boolean / state attribute of the
    connection that is tested before the effects of the handler of `name` and
    set on its effect path"""
    h = handler_for(model, name)
    hp = handler_paths(model, h)
    succ = []
    fail_flags = set()
    for p in hp:
        evs = [e for e, _ in all_events(p)]
        raises = [e for e in evs if e["k"] == "raise" and e["cls"] == "Error"]
        if raises:
            idx = evs.index(raises[0])
            exempt = any(e["k"] == "catch" for e in evs[:idx])
            if not exempt:
                # which connection flags were truthy on this refusal?
                for (t, b, s) in raises[0]["pc"]:
                    a = _flag_attr(t)
                    if a and _truthy(t, b):
                        fail_flags.add(a)
                pcs = list(raises[0]["pc"])
                if pcs and _flag_attr(pcs[-1][0]) is None and mentions(
                        pcs[-1][0], lambda x: isinstance(x, tuple) and x and x[0] == "call"
                        and isinstance(x[1], str) and x[1].startswith(".")):
                    # refused because of what a method of some helper object said
                    _OPAQUE_REFUSALS.add(h)
            continue
        if p.outcome.kind != "return":
            continue
        succ.append(p)
    good = None
    for flag in sorted(fail_flags):
        allset = True
        for p in succ:
            truth_ok = False
            evs = [e for e, _ in all_events(p)]
            first_eff = None
            for e in evs:
                if e["k"] in EFFECT_KINDS and e["func"] != "WebSocketServer.send" and \
                        not counter_only(model, e):
                    first_eff = e
                    break
            pc = first_eff["pc"] if first_eff else p.pc
            for (t, b, s) in pc:
                if _flag_attr(t) == flag and not _truthy(t, b):
                    truth_ok = True
            sets = [e for e in evs if e["k"] == "setattr" and e["attr"] == flag and
                    e["obj"][0] == "obj" and e["obj"][1] == "WebSocketServer" and
                    _is_truthy_value(e["value"])]
            if not (truth_ok and sets):
                allset = False
        if allset and succ:
            good = flag
    return h, good, fail_flags


def foreign_setters(model, h, flag):
    """setattr events that set the once-only marker `flag` (to True) anywhere
    but in the handler h itself: [(event, own?)]"""
    out = []
    for en in model.runtime_entries():
        for p2 in model.paths(en):
            for e, _ in all_events(p2, ("setattr",)):
                if e["attr"] != flag or e["obj"][0] != "obj" or \
                        e["obj"][1] != "WebSocketServer" or \
                        e["value"] != ("const", True) or \
                        e["func"].endswith("__init__"):
                    continue
                own = e["func"] == "WebSocketServer." + h
                if not own and ("WebSocketServer." + h) in e["stack"]:
                    i = e["stack"].index("WebSocketServer." + h)
                    own = all(s.startswith("WebSocketServer.") and "<locals>" not in s
                              for s in e["stack"][i:] + (e["func"],))
                out.append((e, own))
    return out


def _flag_attr(t):
    if t[0] == "not":
        return _flag_attr(t[1])
    if t[0] == "truth":
        return _flag_attr(t[1])
    if t[0] == "isnone":
        # `attr is None` / `attr is not None`: the same flag, seen as set / unset
        return _flag_attr(t[1])
    if t[0] == "attr" and t[1][0] == "obj" and t[1][1] == "WebSocketServer":
        return t[2]
    if t[0] == "obj" and isinstance(t[2], tuple) and t[2] and t[2][0] == "held":
        return t[2][2]
    return None


def _truthy(t, b):
    if t[0] == "not":
        return _truthy(t[1], not b)
    if t[0] == "truth":
        return _truthy(t[1], b)
    if t[0] == "isnone":
        return _truthy(t[1], not b)     # `x is None` true  <=>  x is unset
    return b


def _is_truthy_value(v):
    if is_const(v):
        return bool(v[1])
    return True


def _nameplate_found(p):
    truth = pc_truth(p.pc)
    for t, v in truth.items():
        if t[0] == "row" and v is True:
            return True
    return False


def _allocate_guard_ok(ctx):
    from . import c04
    sub = Ctx(ctx.model, "C04", ctx.tier)
    try:
        c04.run(sub)
    except AnalysisError as e:
        # whether the allocator's candidate is free could not be decided: the
        # exemption can be neither granted nor refused
        if any(o.rule in ("R04.guard", "R04.src") and not o.ok for o in sub.obligations):
            return False
        g = [o for o in sub.obligations if o.rule in ("R04.guard", "R04.src")]
        if len(g) >= 3 and {"R04.guard", "R04.src"} <= set(o.rule for o in g):
            # both rules were evaluated (and hold) before the part of C04 that
            # has no verdict
            return True
        raise AnalysisError("R17.escape: the allocate exemption depends on C04's guard "
                            "rules, which have no verdict (%s)" % str(e)[:100])
    return all(o.ok for o in sub.obligations if o.rule in ("R04.guard", "R04.src"))

EXPLANATION += ' Batch 6: field presence by `in` / `is None` (R17.present); no unguarded int()/float() in the code the handlers run (R17.convert); the first call on a connection handle is dominated by a test of it.'
