"""C08 -- a mailbox lives until its last open side closes; close completes."""
from ..events import (all_events, is_app_id, is_own_mailbox_id, construct_of,
                      handler_paths, handler_for, frame_type, flat_events)
from ..report import render_path
from ..terms import show, plain, is_const, strip_wrappers
from ..e3 import pc_truth
from .. import e3 as e3mod
from .. import guards
from ..repo import AnalysisError

from . import shared

LEVEL = "other"
EXPLANATION = (
    "Decides: the delete block of close is reached only on the branch where, in "
    "the unfiltered side select taken after this side was marked closed (keyed by "
    "own mailbox id AND side), no side row is open; the retirement is one "
    "transaction whose deletes cover nameplate claims (of its nameplates), "
    "nameplates, messages, side rows and the mailbox row, each keyed by this "
    "mailbox only (FK coverage from E3) and agreeing with the sweep's delete set; "
    "every non-error path of the close handler ends in `closed` with no may-raise "
    "site on it; a close on a connection holding no mailbox obtains one through "
    "the get-or-create first. Not decided: availability to the other side beyond "
    "the guard.")
EXPLANATION += ' Also decided (re-send): the deletion phase of close is reachable from the half-done state, and the closed-marker of a connection is set only by its own close handler; no start-up statement touches mailboxes, side records or messages.'

RETIRE_TABLES = ("nameplates", "messages", "mailbox_sides", "mailboxes")


def _row_of_own_mailbox(model, p, term):
    """term is row['id'] of a row of a select keyed exactly by own mailbox id"""
    from ..terms import strip_wrappers
    if not (term[0] == "sub" and term[2] == ("const", "id")):
        return False
    base = term[1]
    site = None
    if base[0] == "row":
        site = base[1]
    elif base[0] == "elem":
        r = strip_wrappers(base[1])
        if r[0] == "rows":
            site = r[1]
    if site is None:
        return False
    for e, _ in all_events(p, ("sql",)):
        if e["site"] == site:
            eq = e["src"]["where_eq"]
            return eq is not None and set(eq) <= {"mailbox_id", "app_id"} and \
                "mailbox_id" in eq and is_own_mailbox_id(eq["mailbox_id"])
    return False


def _close_name_attrs(model):
    """the connection attribute(s) the close handler compares the named mailbox
    with (whatever they are called), plus the close handler's own name"""
    from ..terms import walk
    from ..events import is_client_value
    h = handler_for(model, "close")
    out = set([h])
    for p in handler_paths(model, h):
        for (tt, b, site) in p.pc:
            for x in walk(tt):
                if isinstance(x, tuple) and x and x[0] == "cmp" and x[1] in ("==", "!="):
                    for a, o in ((x[2], x[3]), (x[3], x[2])):
                        if a[0] == "attr" and a[1][0] == "obj" and \
                                a[1][1] == "WebSocketServer" and is_client_value(o):
                            out.add(a[2])
    return out


def run(ctx):
    model = ctx.model
    shared.import_rule(ctx, "C17", ("R17.names",), "R08.names",
                       "the mailbox name a connection remembers is not cleared while its close "
                       "can still be accepted (same rule instances as R17.names)",
                       "a close that relies on the remembered name (no `mailbox` field) is "
                       "answered with an error instead of `closed`", minimum=1,
                       only=lambda o, _a=_close_name_attrs(model): any(
                           a in o.construct for a in _a))
    from .. import roles as _rm3
    shared.r_nocfg(ctx, "R08.nocfg", _rm3.get(model).close_op,
                   "under the other setting the close leaves rows, the Mailbox object or its "
                   "subscribers behind")
    from .. import roles as _rm2
    shared.r_ident(ctx, "R08.ident", (_rm2.get(model).open_op,),
                   "the mailbox that is opened / closed is not the one the client named")
    shared.r_wire(ctx, "R08.wire")
    shared.r_present(ctx, "R08.present", ("open", "close"),
                     "a close naming \"\" is refused (or closes another mailbox) and the "
                     "side it names stays open")
    from .. import roles as _rolesmod
    shared.r_callers(ctx, "R08.callers", _rolesmod.get(model).close_op, ("close",),
                     "a side is marked closed (and the mailbox possibly deleted) although "
                     "it sent no close")
    shared.r_collation(ctx, "R08.exact", ('mailboxes', 'mailbox_sides', 'messages'),
                       'closing one mailbox / side acts on another')
    shared.r_lookup(ctx, "R08.lookup", ('mailboxes', 'mailbox_sides'))
    shared.r_startup(ctx, "R08.startup", ('mailboxes', 'mailbox_sides', 'messages'),
                     'a mailbox with an open side is deleted or altered by something other than a close or expiry')
    from .. import roles as _roles
    R = _roles.get(model)
    ctx.rule("R08.guard", "close deletes only when, after marking this side closed "
             "(keyed mailbox id AND side), no side row of the mailbox is open")
    ctx.rule("R08.codel", "the retirement is one transaction deleting claims of its "
             "nameplates, nameplates, messages, side rows and the mailbox row, each "
             "keyed by this mailbox; same table set as the sweep")
    ctx.rule("R08.answer", "every non-error path of the close handler ends in `closed`; "
             "no may-raise site on it")
    ctx.rule("R08.reclose", "a close without a held mailbox goes through the "
             "get-or-create path first")
    h = handler_for(model, "close")
    paths = handler_paths(model, h)
    ng = 0
    nupd = 0
    for p in paths:
        upd = None
        sel_after = {}
        seen_loops = []
        for e, loops in all_events(p):
            if e["k"] == "loop" and not loops:
                seen_loops.append(e)
            if e["k"] != "sql" or e["db"] != "chan" or R.close_op not in e["stack"]:
                continue
            st = e["stmt"]
            if st.table == "mailbox_sides" and st.kind == "update":
                upd = e
                nupd += 1
                eq = e["src"]["where_eq"]
                ok = eq is not None and set(eq) == {"mailbox_id", "side"} and \
                    is_own_mailbox_id(eq["mailbox_id"])
                ctx.ob("R08.guard", construct_of(e), ok, e,
                       "" if ok else "the closed flag is written for (%s), not exactly "
                       "(own mailbox, side)" % (st.where.render() if st.where else "all rows"))
            if st.table == "mailbox_sides" and st.kind == "select" and upd is not None:
                sel_after[("rows", e["site"])] = e
            if st.kind == "delete" and st.table == "mailboxes":
                ng += 1
                cons = construct_of(e) + " [guard]"
                if upd is None:
                    ctx.ob("R08.guard", cons, False, e, "the mailbox is deleted without "
                           "first marking this side closed")
                    continue
                verdict = None
                for rows, sel in sel_after.items():
                    eq = sel["src"]["where_eq"]
                    if eq is None or set(eq) != {"mailbox_id"} or \
                            not is_own_mailbox_id(eq["mailbox_id"]) or \
                            not sel["stmt"].plain_rows:
                        continue
                    found, ok, text = guards.guard_verdict(e["pc"][len(sel["pc"]):], rows, "opened", seen_loops)
                    if found:
                        verdict = (ok, text)
                if verdict is None:
                    verdict = (False, "the deletion is not guarded by the opened flags of an "
                               "unfiltered side select taken after the update")
                ctx.ob("R08.guard", cons, verdict[0], e, verdict[1],
                       None if verdict[0] else render_path(p.events))
    ctx.require("R08.guard", ng, 1, "mailbox deletions on close paths")
    ctx.require("R08.guard", nupd, 1, "closed-flag updates on close paths")
    # R08.codel
    sets = {}
    for (p, e, prior, later, loops) in e3mod.walk_transactions(model):
        st = e["stmt"]
        if st.kind == "delete" and st.table == "mailboxes":
            key = (e["binds"]["where_eq"] or {}).get("id")
            tables = set()
            bad = []
            for x in e3mod.sql_in(prior):
                if x["stmt"].kind != "delete":
                    continue
                tables.add(x["stmt"].table)
                if R.close_op in e["stack"] and R.close_op in x["stack"] and \
                        x["stmt"].table in ("nameplates", "messages", "mailbox_sides"):
                    eq = x["src"]["where_eq"]
                    okk = eq is not None and set(eq) <= {"mailbox_id", "app_id"} and \
                        "mailbox_id" in eq and is_own_mailbox_id(eq["mailbox_id"])
                    if not okk and eq is not None and set(eq) == {"id"}:
                        # keyed by the id of a row selected by own mailbox id
                        okk = _row_of_own_mailbox(model, p, eq["id"])
                    ctx.ob("R08.codel", construct_of(x) + " [keyed by this mailbox]", okk, x,
                           "" if okk else "close deletes `%s` rows selected by (%s): rows of "
                           "other mailboxes are removed" % (
                               x["stmt"].table,
                               x["stmt"].where.render() if x["stmt"].where else "no WHERE"))
            tables.add("mailboxes")
            owner = R.close_op if R.close_op in e["stack"] else e["func"]
            sets[owner] = tables
            missing = [t for t in RETIRE_TABLES if t not in tables]
            ctx.ob("R08.codel", "%s: one transaction deletes %s" % (
                owner, ",".join(RETIRE_TABLES)), not missing, e,
                "" if not missing else "the transaction that deletes the mailbox row does "
                "not delete from %s" % missing, render_path(p.events) if missing else None)
    if R.close_op not in sets:
        raise AnalysisError("R08.codel: no mailbox deletion found in Mailbox.close")
    if len(sets) >= 2:
        vals = list(sets.items())
        base = vals[0]
        for other in vals[1:]:
            a = base[1] - {"nameplate_sides"}
            b = other[1] - {"nameplate_sides"}
            ok = a == b
            ctx.ob("R08.codel", "sibling agreement %s / %s" % (base[0], other[0]), ok, "",
                   "" if ok else "retirement paths delete different table sets: %s vs %s"
                   % (sorted(a), sorted(b)))
    e3 = e3mod.get(model)
    for f in e3.by_kind("fk_delete") + e3.by_kind("child_delete"):
        if R.close_op in f.event["stack"]:
            ctx.ob("R08.codel", f.construct, f.ok, f.site, f.detail,
                   render_path(f.path.events) if (f.path and not f.ok) else None)
    # R08.answer
    na = 0
    for p in paths:
        raised = any(e["cls"] == "Error" for e, _ in all_events(p, ("raise",)))
        if raised:
            continue
        na += 1
        sent = [frame_type(e) for e, _ in all_events(p, ("send",))]
        ok = p.outcome.kind == "return" and sent.count("closed") == 1 and \
            sent[-1] == "closed"
        closes = [e for e, _ in all_events(p, ("call",)) if e["callee"] == R.close_op]
        okc = bool(closes)
        ctx.ob("R08.answer", "%s: `closed` only after the close operation ran" % h, okc,
               p.events[-1], "" if okc else "a close that passes validation is answered "
               "without closing the mailbox in the database: this side's row stays open and "
               "the mailbox is never deleted", None if okc else render_path(p.events))
        if ok and closes:
            evs_all = [e for e, _ in all_events(p)]
            rets = [i for i, e in enumerate(evs_all)
                    if e["k"] == "ret" and e["callee"] == R.close_op]
            snd = [i for i, e in enumerate(evs_all)
                   if e["k"] == "send" and frame_type(e) == "closed"]
            if not rets or not snd or snd[0] < rets[-1]:
                ok = False
        for e, _ in all_events(p, ("send",)):
            if frame_type(e) == "closed":
                clean = not e["dirty"]
                ctx.ob("R08.answer", "%s: `closed` acknowledges a committed close" % h, clean,
                       e, "" if clean else "`closed` is sent while this side's close is still "
                       "uncommitted: a crash now forgets it, the side (told `closed`) never "
                       "retries, and the mailbox is never deleted when the other side closes")
        ctx.ob("R08.answer", "%s: answers closed" % h, ok, p.events[-1],
               "" if ok else "a close that passes validation ends with frames %s (%s %s)"
               % (sent, p.outcome.kind, p.outcome.cls or ""),
               None if ok else render_path(p.events))
    ctx.require("R08.answer", na, 4, "close paths that pass validation")
    for f in e3.may_raise():
        if any(any(s.endswith("." + h) for s in x["stack"]) for x in e3.occurrences(f)):
            ctx.ob("R08.answer", "may-raise %s at %s" % (f.may_raise, f.construct), False,
                   f.site, f.detail + "; the exception escapes the close handler, so no "
                   "`closed` is sent", render_path(f.path.events) if f.path else None)
    # R08.reclose
    nr = 0
    for p in paths:
        truth = pc_truth(p.pc)
        held = None
        for t, v in truth.items():
            if t[0] == "obj" and t[1] == "Mailbox" and isinstance(t[2], tuple) and \
                    t[2][0] == "held":
                held = v
        closes = [e for e, _ in all_events(p, ("call",)) if e["callee"] == R.close_op]
        if held is None and closes:
            nr += 1
            ctx.ob("R08.reclose", "%s: the mailbox handle is checked before it is used" % h,
                   False, closes[0], "the close operation is called on the connection's "
                   "handle without testing it: when the mailbox was deleted under this "
                   "connection (the stop callback cleared the handle) the call fails on None "
                   "and no `closed` is sent")
        if held is False and closes:
            nr += 1
            opened = any(e["callee"] == R.open_op
                         for e, _ in all_events(p, ("call",)))
            recv = closes[0]["self_term"]
            ok = opened and recv[0] == "obj" and not (isinstance(recv[2], tuple) and
                                                       recv[2][0] == "held")
            ctx.ob("R08.reclose", "%s: re-close obtains the mailbox through the registry" % h,
                   ok, closes[0], "" if ok else "close on a connection without a mailbox "
                   "does not go through open_mailbox")
    ctx.require("R08.reclose", nr, 1, "close paths without a held mailbox")
    # R08.resend: re-sending close is harmless and answered `closed`
    ctx.rule("R08.resend", "a close that is re-sent still completes: the retirement "
             "phase of close is reachable from the half-done state (flag committed, "
             "deletion not; same rule as R10.resume), and nothing but the close handler "
             "itself marks a connection as having closed")
    from .c10 import _resume
    from .c17 import once_flag_of, foreign_setters
    from ..report import Ctx
    sub = Ctx(model, "C10", ctx.tier)
    _resume(sub)
    nres = 0
    for o in sub.obligations:
        if "mailboxes" in o.construct:
            nres += 1
            ctx.ob("R08.resend", o.construct, o.ok, o.site, o.detail)
    ctx.require("R08.resend", nres, 1, "mailbox retirement deletes on close paths")
    hh, flag, _ff = once_flag_of(model, "close")
    if flag is not None:
        for (e, own) in foreign_setters(model, hh, flag):
            ctx.ob("R08.resend", "%s set by %s" % (flag, e["func"]), own, e,
                   "" if own else "the connection is marked as having closed by %s, not by "
                   "a close command: its (re-sent) close is answered with an error instead "
                   "of `closed`" % e["func"])

    # R08.stop: one side's close never removes the other side's subscription
    ctx.rule("R08.stop", "listeners are stopped / the listener table is cleared only on "
             "paths that delete the mailbox")
    nstop = 0
    lattr = model.names.listeners[1]
    for p in paths:
        stops = [e for e, _ in all_events(p, ("callback",)) if not e["args"]]
        clears = [e for e, _ in all_events(p, ("setattr",))
                  if e["attr"] == lattr and e["obj"][0] == "obj" and e["obj"][1] == "Mailbox"
                  and not e["func"].endswith("__init__")]
        if not stops and not clears:
            continue
        nstop += 1
        deleted = any(e["stmt"].kind == "delete" and e["stmt"].table == "mailboxes" and
                      e["db"] == "chan" for e, _ in all_events(p, ("sql",)))
        first = (stops or clears)[0]
        ctx.ob("R08.stop", "%s: subscribers are stopped only with the deletion" % h, deleted,
               first, "" if deleted else "a close that leaves the mailbox in place (another "
               "side still has it open) stops every subscriber: the other side's connection "
               "loses its subscription and its handle", None if deleted else
               render_path(p.events))
    ctx.require("R08.stop", nstop, 1, "close paths that stop listeners")

EXPLANATION += ' Batch 6: field presence is decided by `in` / `is None` (R08.present); the deletion guard is also recognised in its loop spelling; text columns keep text.'
