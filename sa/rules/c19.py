"""C19 -- database files are created atomically and never clobbered."""
import ast
import re

from ..events import all_events, construct_of
from ..report import render_path
from ..terms import show, is_const, mentions, walk
from ..e3 import pc_truth
from ..repo import AnalysisError, dotted

LEVEL = "proof"
EXPLANATION = (
    "Ordering / dominance of file-system and database effects on every abstract "
    "path of the five public entry points of database.py (the interpreter forks "
    "on exists(dbfile), dbfile == ':memory:', the version comparisons and the "
    "upgrade loop): with no file present, the first event whose destination is "
    "dbfile is rename(temp, dbfile), preceded by connect(temp), the schema script "
    "and the version row for the target version, commit and close, temp coming "
    "from mkstemp(dir=dirname(dbfile)); connect(dbfile) happens only when the "
    "file exists, after the rename, or for ':memory:'; create-only entry points "
    "raise before any file-system event when the file exists, the open-only one "
    "before connect when it does not; on an existing file every mutating event is "
    "control-dependent on version < target; connect and the integrity check are "
    "inside the handler that maps database/OS errors to DBError; schema files for "
    "the target versions exist and are packaged.")

DBFILE = ("param", "dbfile")
MEM = ("const", ":memory:")


def fs_events(p):
    """ordered (kind, event) list: exists, mkstemp, connect, script, sql-mut,
    commit, close, rename, copy"""
    out = []
    for e, loops in all_events(p):
        k = e["k"]
        if k == "ext":
            n = e["name"]
            if n == "os.path.exists":
                out.append(("exists", e, loops))
            elif n == "tempfile.mkstemp":
                out.append(("mkstemp", e, loops))
            elif n == "sqlite3.connect":
                out.append(("connect", e, loops))
            elif n == "os.rename":
                out.append(("rename", e, loops))
            elif n in ("shutil.copy", "shutil.copyfile", "shutil.copy2"):
                out.append(("copy", e, loops))
            elif n in ("os.remove", "os.unlink", "shutil.move", "os.replace", "open",
                       "os.truncate", "os.open", "os.mknod", "os.mkfifo", "os.link",
                       "os.symlink", "io.open", "os.utime"):
                out.append(("fsother", e, loops))
        elif k in ("script", "sql_dynamic"):
            out.append(("script", e, loops))
        elif k == "sql" and e["stmt"].mutating:
            out.append(("sqlmut", e, loops))
        elif k == "commit":
            out.append(("commit", e, loops))
        elif k == "dbclose":
            out.append(("close", e, loops))
    return out


def conn_path(e):
    """path term of a connect event"""
    return e["args"][0] if e["args"] else None


def handle_path(h):
    return h[2] if h[0] == "conn" else None


def facts(p):
    t = pc_truth(p.pc)
    exists = None
    mem = None
    for term, v in t.items():
        if term[0] == "call" and term[1] == "os.path.exists" and term[2] == (DBFILE,):
            exists = v
        if term[0] == "cmp" and term[1] == "==" and DBFILE in term[2:] and MEM in term[2:]:
            mem = v
    return exists, mem


def run(ctx):
    model = ctx.model
    repo = ctx.repo
    ctx.rule("R19.new", "no file: first event targeting dbfile is rename(temp, dbfile) "
             "after connect(temp), schema, version row (target), commit, close; temp "
             "from mkstemp(dir=dirname(dbfile))")
    ctx.rule("R19.open", "connect(dbfile) only if the file exists, after the rename, or "
             "for ':memory:'")
    ctx.rule("R19.only", "create-only entry points raise before any FS event on an "
             "existing file; open-only raises before connect on a missing file")
    ctx.rule("R19.ro", "on an existing file every mutating event is control-dependent on "
             "version < target; DBError paths for foreign/newer files mutate nothing")
    ctx.rule("R19.wrap", "connect and the integrity check run inside the handler that "
             "maps (EnvironmentError, OperationalError, DatabaseError) to DBError")
    ctx.rule("R19.pkg", "schema files for the target versions exist and are packaged")
    targets = repo.target_versions()
    nnew = 0
    nopen = 0
    for en in model.DB_ENTRIES:
        for p in model.paths(en):
            exists, mem = facts(p)
            fs = fs_events(p)
            # R19.open
            renamed = False
            for (k, e, loops) in fs:
                if k == "rename" and len(e["args"]) >= 2 and e["args"][1] == DBFILE:
                    renamed = True
                if k == "connect" and conn_path(e) == DBFILE:
                    nopen += 1
                    ok = exists is True or renamed or mem is True
                    ctx.ob("R19.open", "%s: connect(dbfile) only on an existing file" %
                           p.entry, ok, e, "" if ok else "sqlite3.connect(dbfile) runs when "
                           "no file exists: SQLite creates an empty database in place, so a "
                           "crash leaves a half-initialised file at the final path",
                           None if ok else render_path(p.events))
            if mem is True:
                continue
            # R19.new
            if exists is False and any(k == "rename" or k == "connect" for k, _, _ in fs):
                nnew += 1
                _new_file(ctx, p, fs, targets)
            # R19.only
            if en in ("db:create_channel_db", "db:create_usage_db") and exists is True:
                ok = p.outcome.kind == "raise" and not [k for k, _, _ in fs if k != "exists"]
                ctx.ob("R19.only", "%s refuses an existing file untouched" % en[3:], ok,
                       p.events[-1], "" if ok else "with the file present the create-only "
                       "entry point does %s and ends with %s" % (
                           [k for k, _, _ in fs if k != "exists"], p.outcome.kind))
            if en == "db:open_existing_db" and exists is False:
                ok = p.outcome.kind == "raise" and not [k for k, _, _ in fs if k != "exists"]
                ctx.ob("R19.only", "open_existing_db never creates a file", ok, p.events[-1],
                       "" if ok else "with no file present the open-only entry point does "
                       "%s" % [k for k, _, _ in fs if k != "exists"])
            if en == "db:open_existing_db" and exists is None:
                ctx.ob("R19.only", "open_existing_db checks existence first", False,
                       p.events[-1], "the open-only entry point does not test exists(dbfile)")
            if en in ("db:create_channel_db", "db:create_usage_db") and exists is None:
                ctx.ob("R19.only", "%s checks existence first" % en[3:], False,
                       p.events[-1], "the create-only entry point does not test exists(dbfile)")
            # R19.ro
            if exists is True and en.startswith("db:create_or_upgrade"):
                for (k, e, loops) in fs:
                    if k in ("script", "sqlmut", "copy", "rename", "fsother") or \
                            (k == "commit" and e.get("was_dirty")):
                        t = pc_truth(tuple(e["pc"]))
                        dep = False
                        for term, v in t.items():
                            if term[0] == "cmp" and term[1] == "<" and v is True and \
                                    term[3] == ("const", targets["channel" if "channel" in en
                                                                 else "usage"]):
                                dep = True
                            if term[0] == "and" and v is True:
                                for x in term[1]:
                                    if x[0] == "cmp" and x[1] == "<":
                                        dep = True
                        ctx.ob("R19.ro", "%s: %s on an existing file only when version < "
                               "target" % (en[3:], k), dep, e,
                               "" if dep else "an existing database file is modified (%s) "
                               "without the version test" % construct_of(e)
                               if e["k"] in ("sql",) else ("" if dep else "an existing "
                               "database file is modified (%s) without the version test" % k),
                               None if dep else render_path(p.events))
                if p.outcome.kind == "raise" and p.outcome.cls == "DBError":
                    muts = [k for (k, e, loops) in fs
                            if k in ("script", "sqlmut", "rename", "fsother") and not loops]
                    ctx.ob("R19.ro", "%s: rejected file left unchanged" % en[3:], not muts,
                           p.events[-1], "" if not muts else "a rejected file was modified "
                           "first (%s)" % muts)
    # a PRAGMA that changes persistent properties (journal_mode=WAL, page_size,
    # user_version, ...) rewrites the file header before the version test can
    # reject the file
    NO_FILE_EFFECT = ("foreign_keys", "foreign_key_check", "synchronous", "cache_size",
                      "temp_store", "busy_timeout", "query_only", "mmap_size",
                      "integrity_check", "quick_check", "table_info", "index_list",
                      "database_list", "compile_options")
    npr = 0
    for en in model.DB_ENTRIES:
        for p in model.paths(en):
            for e, _ in all_events(p, ("sql",)):
                if e["stmt"].kind == "pragma":
                    npr += 1
                    nm = e["stmt"].extra["name"]
                    from .shared import PRAGMA_TUNING, PRAGMA_QUERIES
                    ok = nm in NO_FILE_EFFECT or nm in PRAGMA_TUNING or \
                        (e["stmt"].extra["value"] is None and nm in PRAGMA_QUERIES)
                    ctx.ob("R19.ro", "%s: PRAGMA %s does not write the file" % (e["func"], nm),
                           ok, e, "" if ok else "PRAGMA %s=%s changes a persistent property "
                           "of the database file as soon as it is opened, i.e. before a "
                           "foreign or newer-version file is rejected" % (
                               nm, e["stmt"].extra["value"]))
    # R19.scope: the entry points touch the database file, its scratch file and
    # its backup -- nothing else in the directory
    ctx.rule("R19.scope", "file-system mutations target only dbfile, the mkstemp scratch "
             "file and names built from dbfile by concatenation")
    PATH_CALLS = ("tempfile.mkstemp", "os.path.join", "os.path.dirname", "os.path.basename",
                  "os.path.abspath", "str", ".format", "os.path.split", "os.fspath", "fstring")
    nsc = 0
    seen_sc = set()
    for en in model.DB_ENTRIES:
        for p in model.paths(en):
            for (k, e, loops) in fs_events(p):
                if k not in ("rename", "copy", "fsother"):
                    continue
                for a in e["args"]:
                    if not isinstance(a, tuple) or a[0] in ("const",):
                        continue
                    if a[0] not in ("param", "binop", "call", "item", "sub", "elem"):
                        continue
                    nsc += 1
                    # calls applied to the path text (values read from the database,
                    # such as the version in the backup name, are not paths)
                    def _pathcalls(t, out):
                        if not isinstance(t, tuple) or not t:
                            return
                        if t[0] in ("conn", "cursor", "row", "rows", "dbcur"):
                            return
                        if t[0] == "call" and t[1] not in PATH_CALLS and (
                                mentions(t, lambda x: x == DBFILE) and not mentions(
                                    t, lambda x: x[0] == "conn")):
                            out.append(t)
                        for x in t:
                            if isinstance(x, tuple):
                                _pathcalls(x, out)
                    odd = []
                    _pathcalls(a, odd)
                    pathlike = mentions(a, lambda x: x == DBFILE) or mentions(
                        a, lambda x: x[0] == "call" and x[1] == "tempfile.mkstemp")
                    ok = pathlike and not odd
                    key = (e["site"][:2], ok)
                    if key in seen_sc:
                        continue
                    seen_sc.add(key)
                    ctx.ob("R19.scope", "%s: %s(%s)" % (e["func"], e["name"], show(a)[:50]),
                           ok, e, "" if ok else "the call changes a file that is neither the "
                           "database, its scratch file nor its backup (%s): other files in "
                           "the directory -- another database among them -- can be removed or "
                           "overwritten" % (odd[0][1] if odd else show(a)[:40]))
    ctx.require("R19.scope", nsc, 2, "file-system mutations on database entry paths")
    ctx.require("R19.ro", npr, 2, "PRAGMA statements on open paths")
    ctx.require("R19.new", nnew, 2, "creation paths")
    ctx.require("R19.open", nopen, 4, "connect(dbfile) sites on paths")
    # R19.wrap
    mod = repo.modules["database"]
    # the opener: the database.py function that calls sqlite3.connect; the
    # integrity check: the function(s) executing the foreign-key PRAGMAs
    openers = [f for f in mod.functions.values()
               if any(isinstance(n, ast.Call) and dotted(n.func) == "sqlite3.connect"
                      for n in ast.walk(f.node))]
    if len(openers) != 1:
        raise AnalysisError("R19.wrap: expected exactly one function of database.py "
                            "calling sqlite3.connect, found %s" % [f.name for f in openers])
    fi = openers[0]
    checkers = set(f.name for f in mod.functions.values()
                   if any(isinstance(n, ast.Constant) and isinstance(n.value, str) and
                          "foreign_key_check" in n.value.lower() for n in ast.walk(f.node)))
    ok = False
    why = "no try block maps database errors to DBError around connect()"
    for node in ast.walk(fi.node):
        if isinstance(node, ast.Try):
            body_calls = [dotted(n.func) for b in node.body for n in ast.walk(b)
                          if isinstance(n, ast.Call)]
            if "sqlite3.connect" not in body_calls:
                continue
            checks = bool(checkers & set(body_calls)) or fi.name in checkers
            for h in node.handlers:
                names = []
                if isinstance(h.type, ast.Tuple):
                    names = [dotted(x).split(".")[-1] for x in h.type.elts]
                elif h.type is not None:
                    names = [dotted(h.type).split(".")[-1]]
                need = {"OperationalError", "DatabaseError"}
                envok = bool({"EnvironmentError", "OSError", "IOError", "Exception"} & set(names))
                raises = [n for n in ast.walk(h) if isinstance(n, ast.Raise) and
                          n.exc is not None and isinstance(n.exc, ast.Call) and
                          dotted(n.exc.func) == "DBError"]
                if (need <= set(names) or "Exception" in names or "DatabaseError" in names) \
                        and envok and raises and checks:
                    ok = True
                elif not checks:
                    why = "the integrity check runs outside the error-mapping handler"
                else:
                    why = "handler catches %s" % names
    ctx.ob("R19.wrap", "the function that opens connections maps database/OS errors to DBError", ok,
           "%s:%d" % (mod.path, fi.node.lineno), "" if ok else why)
    # error paths change no file: the abstract paths do not enter the handlers of
    # calls that fail outside the model (connect on junk, a read error), so what
    # those handlers and finally blocks do is decided syntactically here
    FS_MUT = ("os.remove", "os.unlink", "os.rename", "os.replace", "shutil.move",
              "shutil.rmtree", "os.rmdir", "os.truncate", "shutil.copy", "shutil.copyfile",
              "shutil.copy2", "os.link", "os.symlink", "open", "io.open", "os.open")
    FS_METH = ("unlink", "rename", "replace", "rmdir", "write_text", "write_bytes", "touch")
    nerr = 0
    for f in mod.functions.values():
        for node in ast.walk(f.node):
            if not isinstance(node, ast.Try):
                continue
            blocks = [("except", h.body, h.lineno) for h in node.handlers]
            if node.finalbody:
                blocks.append(("finally", node.finalbody, node.finalbody[0].lineno))
            for (kind, body, line) in blocks:
                nerr += 1
                bad = [n for b in body for n in ast.walk(b) if isinstance(n, ast.Call) and
                       (dotted(n.func) in FS_MUT or
                        (isinstance(n.func, ast.Attribute) and n.func.attr in FS_METH and
                         not isinstance(n.func.value, ast.Name)))]
                bad += [n for b in body for n in ast.walk(b) if isinstance(n, ast.Call) and
                        isinstance(n.func, ast.Attribute) and n.func.attr in FS_METH and
                        isinstance(n.func.value, ast.Name) and n.func.value.id not in ("os", "shutil")
                        and n not in bad]
                # removing the function's own scratch file (a local name bound to
                # the result of a call, e.g. mkstemp) on failure is the one
                # clean-up that touches nothing the operator owns
                def _scratch_only(call):
                    if dotted(call.func) not in ("os.remove", "os.unlink") or len(call.args) != 1:
                        return False
                    a = call.args[0]
                    if not isinstance(a, ast.Name) or a.id in f.params:
                        return False
                    binds = [x for x in ast.walk(f.node) if isinstance(x, ast.Assign) and any(
                        isinstance(t, (ast.Name, ast.Tuple)) and a.id in [
                            y.id for y in ast.walk(t) if isinstance(y, ast.Name)]
                        for t in x.targets)]
                    return bool(binds) and all(
                        isinstance(x.value, ast.Call) and any(
                            k in (dotted(x.value.func) or "") for k in ("mkstemp", "temporary"))
                        for x in binds)
                bad = [c for c in bad if not _scratch_only(c)]
                ctx.ob("R19.ro", "%s: the %s block at line %d changes no file" % (
                    f.name, kind, line), not bad, "%s:%d" % (mod.path, bad[0].lineno if bad else line),
                    "" if not bad else "%s is called on an error path: a file the server "
                    "rejects (not a database, damaged, unreadable) is changed or removed "
                    "instead of being left as it was" % (dotted(bad[0].func) or bad[0].func.attr))
    ctx.require("R19.ro", nerr, 2, "except / finally blocks in the database module")
    # the connect events really are under that handler
    for en in model.DB_ENTRIES[:1]:
        for p in model.paths(en)[:3]:
            for (k, e, loops) in fs_events(p):
                if k == "connect":
                    okh = any("DatabaseError" in h[0] or "Exception" in h[0]
                              for h in e["handlers"])
                    ctx.ob("R19.wrap", "connect runs under the handler (event stack)", okh, e)
    # R19.pkg
    for name, v in sorted(targets.items()):
        fn = "%s-v%d.sql" % (name, v)
        ok = fn in repo.schema_texts
        ctx.ob("R19.pkg", "schema file %s exists" % fn, ok, "",
               "" if ok else "target version %d of %s has no schema file" % (v, name))
        if ok:
            repo.schema(fn)
    sp = repo.setup_py or ""
    ok = bool(re.search(r"package_data\s*=\s*\{[^}]*db-schemas/\*\.sql", sp, re.S))
    ctx.ob("R19.pkg", "setup.py packages db-schemas/*.sql", ok, "setup.py",
           "" if ok else "schema files are not in package_data")
    ctx.assume("os.rename within one directory is atomic (POSIX); durability of the "
               "rename across power loss is not decided")
    ctx.assume("sqlite3.connect / PRAGMA on a non-database file raises DatabaseError "
               "without modifying it (SQLite behaviour, not checked)")


def _new_file(ctx, p, fs, targets):
    kinds = [k for k, _, _ in fs]
    en = p.entry
    first_target = None
    temp = None
    order = []
    for (k, e, loops) in fs:
        if k == "mkstemp":
            kw = dict(e["kwargs"])
            d = kw.get("dir")
            okd = d is not None and d[0] == "call" and d[1] == "os.path.dirname" and \
                d[2] == (DBFILE,)
            ctx.ob("R19.new", "%s: temp file next to dbfile" % en, okd, e,
                   "" if okd else "the temporary database is created in %s: rename() "
                   "across file systems is not atomic" % (show(d)[:40] if d else
                                                          "the default temp dir"))
        if k == "connect":
            cp = conn_path(e)
            if cp == DBFILE and first_target is None:
                first_target = ("connect", e)
            elif cp != DBFILE and temp is None:
                temp = cp
                order.append("connect")
        if k == "rename":
            a = e["args"]
            if len(a) >= 2 and a[1] == DBFILE and first_target is None:
                first_target = ("rename", e)
                ok = temp is not None and a[0] == temp and \
                    mentions(temp, lambda x: x[0] == "call" and x[1] == "tempfile.mkstemp")
                ctx.ob("R19.new", "%s: rename(temp, dbfile) moves the initialised temp file"
                       % en, ok, e, "" if ok else "rename source is %s" % show(a[0])[:50])
                want = ["connect", "script", "version", "commit", "close"]
                ok2 = [x for x in order if x in want] == want
                ctx.ob("R19.new", "%s: schema, version row, commit, close precede the rename"
                       % en, ok2, e, "" if ok2 else "before the rename the temp database "
                       "went through %s (need %s)" % (order, want),
                       None if ok2 else render_path(p.events))
        if k in ("copy", "fsother") and first_target is None:
            creates_at_first_arg = e["name"] in ("os.open", "os.mknod", "os.mkfifo", "open",
                                                 "io.open", "os.utime")
            if any(a == DBFILE for a in e["args"][1:]) or \
                    (creates_at_first_arg and e["args"] and e["args"][0] == DBFILE):
                first_target = (k, e)
        if temp is not None and first_target is None:
            if k == "script" and handle_path(e["handle"]) == temp:
                order.append("script")
            if k == "sqlmut" and handle_path(e["handle"]) == temp and \
                    e["stmt"].table == "version" and e["stmt"].kind == "insert":
                v = e["binds"]["set"].get("version")
                name = "channel" if "channel" in en else "usage"
                okv = v == ("const", targets[name])
                ctx.ob("R19.new", "%s: version row carries the target version" % en, okv, e,
                       "" if okv else "version row is %s, target is %d" % (show(v), targets[name]))
                order.append("version")
            if k == "commit" and handle_path(e["handle"]) == temp:
                order.append("commit")
            if k == "close" and handle_path(e["handle"]) == temp:
                order.append("close")
    if first_target is None and p.outcome.kind == "raise":
        # failed before anything reached the final path: nothing is left there
        ctx.ob("R19.new", "%s: a failed creation leaves nothing at dbfile" % en, True,
               p.events[-1])
        return
    ok = first_target is not None and first_target[0] == "rename"
    ctx.ob("R19.new", "%s: the first event targeting dbfile is the rename" % en, ok,
           first_target[1] if first_target else p.events[-1],
           "" if ok else "the final path is first touched by %s" % (
               first_target[0] if first_target else "nothing"),
           None if ok else render_path(p.events))

EXPLANATION += ' Batch 6: except / finally blocks of the database module change no file (scratch-file clean-up excepted).'
