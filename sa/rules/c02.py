"""C02 -- each added message reaches every subscribed connection exactly once."""
import ast

from ..events import (is_conn_side, is_listeners_reg, all_events, is_app_id, is_own_mailbox_id, is_client_value,
                      construct_of, handler_paths, handler_for, frame_type,
                      frame_fields, flat_events)
from ..report import render_path
from ..terms import show, plain, is_const, strip_wrappers
from .. import e4 as e4mod
from ..e3 import pc_truth
from ..repo import AnalysisError

from . import shared

LEVEL = "other"
EXPLANATION = (
    "Decides the structural clauses: the stamped side is the connection's bind "
    "side (assigned only by the bind handler); persist+commit precede the first "
    "listener callback; the broadcast iterates the whole listener collection with "
    "exactly one unconditional callback per element carrying the same message; "
    "the listener is registered under the connection object and removed on every "
    "close/disconnect path that was listening; one Mailbox / AppNamespace object "
    "per key for everyone who holds one (registry rules: construct-once, key = "
    "id, guarded store, owner-only mutation, holder safety U). Not decided: "
    "exactly-once at the socket level (Autobahn/TCP).")
EXPLANATION += ' Also decided: every entry point exits with the channel DB clean (durability across restarts).'


def run(ctx):
    model = ctx.model
    shared.r_wire(ctx, "R02.wire")
    shared.r_durable(ctx, "R02.durable", ("chan",),
                     'after a restart an acknowledged message is gone, or a deleted mailbox is back')
    from .. import roles as _roles
    R = _roles.get(model)
    ctx.rule("R02.side", "the side stored and broadcast by `add` is the connection's "
             "bind side, which only the bind handler assigns")
    ctx.rule("R02.order", "INSERT + COMMIT precede the first listener callback")
    ctx.rule("R02.fanout", "the broadcast loop iterates the whole listener collection, "
             "one unconditional callback per element, passing the stored message")
    ctx.rule("R02.key", "listeners are keyed by the connection; removed on close and "
             "disconnect when listening")
    ctx.rule("R02.unique", "one registry object per key for all holders (E4)")
    shared.r_options(ctx, "R02.fanout", "the `message` frame the server builds is longer than "
                     "the `add` that carried it, so an accepted message can exceed the limit "
                     "on the way out: the send raises and no subscriber receives it")
    h_add = handler_for(model, "add")
    h_bind = handler_for(model, "bind")
    h_open = handler_for(model, "open")
    h_close = handler_for(model, "close")
    # R02.side
    ws = ctx.repo.classes["WebSocketServer"]
    stores = []
    for m in ws[1]["methods"].values():
        for n in ast.walk(m.node):
            if isinstance(n, ast.Attribute) and isinstance(n.ctx, ast.Store) and \
                    n.attr == model.names.side_attr:
                stores.append((m, n))
    for (m, n) in stores:
        ok = m.name in ("__init__", h_bind)
        ctx.ob("R02.side", "%s assigns the connection's side" % m.qualname, ok,
               "%s:%d" % (ws[0].path, n.lineno),
               "" if ok else "the bind side is reassigned outside the bind handler")
    ctx.require("R02.side", len(stores), 2, "assignments of the connection's side")
    nadd = 0
    for p in handler_paths(model, h_add):
        ins = None
        first_cb = None
        for e, loops in all_events(p):
            if e["k"] == "sql" and e["stmt"].kind == "insert" and e["stmt"].table == "messages":
                ins = e
                nadd += 1
                side = e["src"]["set"].get("side")
                ok = side is not None and is_conn_side(side)
                ctx.ob("R02.side", "%s: stored side" % h_add, ok, e,
                       "" if ok else "stored side is %s, not the connection's bind side"
                       % show(side)[:80])
            if e["k"] == "callback" and e["role"] == "send_f" and first_cb is None:
                first_cb = e
                ok = ins is not None and not e["dirty"]
                ctx.ob("R02.order", "%s: persist and commit before broadcast" % h_add, ok, e,
                       "" if ok else "listeners are called %s" % (
                           "before the message is inserted" if ins is None else
                           "while the insert is uncommitted"), render_path(p.events))
                # message identity
                if ins is not None and not (e["args"] and e["args"][0][0] == "nt"):
                    ctx.ob("R02.fanout", "%s: broadcast message equals the stored one" % h_add,
                           False, e, "what is broadcast is %s, not the message this add "
                           "submitted" % (show(e["args"][0])[:70] if e["args"] else "nothing"))
                if ins is not None and e["args"] and e["args"][0][0] == "nt":
                    nt = dict(e["args"][0][2])
                    s = ins["src"]["set"]
                    same = all(nt.get(a) == s.get(b) for a, b in (
                        ("side", "side"), ("phase", "phase"), ("body", "body"),
                        ("msg_id", "msg_id"), ("server_rx", "server_rx")))
                    ctx.ob("R02.fanout", "%s: broadcast message equals the stored one" % h_add,
                           same, e, "" if same else "the broadcast message differs from the "
                           "row that was stored")
        # fan-out loop
        for e, loops in all_events(p, ("loop",)):
            cbs = [x for alt in e["alts"] for x, _ in flat_events(alt["events"])
                   if x["k"] == "callback" and x["role"] == "send_f"]
            if not cbs:
                continue
            it = strip_wrappers(e["iter"])
            whole = it[0] == "call" and it[1] in (".values", ".items") and \
                is_listeners_reg(it[2][0])
            ctx.ob("R02.fanout", "%s: iterates all listeners" % e["func"], whole, e,
                   "" if whole else "broadcast iterates %s" % show(e["iter"])[:80])
            every = True
            for alt in e["alts"]:
                n = sum(1 for x, _ in flat_events(alt["events"])
                        if x["k"] == "callback" and x["role"] == "send_f")
                if n != 1 or alt["out"] != "normal":
                    every = False
                # ... and the callback really emits one `message` frame
                nmsg = sum(1 for x, _ in flat_events(alt["events"])
                           if x["k"] == "send" and frame_type(x) == "message")
                if nmsg != n:
                    every = False
            ctx.ob("R02.fanout", "%s: exactly one callback per listener" % e["func"], every, e,
                   "" if every else "some iteration of the broadcast loop calls the "
                   "listener zero or several times, or leaves the loop early")
    ctx.require("R02.order", nadd, 1, "INSERTs into the message log on add paths")
    nfan = sum(1 for o in ctx.obligations if o.rule == "R02.fanout" and "iterates" in o.construct)
    ctx.require("R02.fanout", nfan, 1, "broadcast loops with listener callbacks on add paths")
    # R02.key
    nreg = 0
    for p in handler_paths(model, h_open):
        for e, _ in all_events(p, ("reg_set",)):
            if is_listeners_reg(e["reg"]):
                nreg += 1
                ok = e["key"][0] == "obj" and e["key"][1] == "WebSocketServer"
                ctx.ob("R02.key", "%s: listener keyed by the connection" % h_open, ok, e,
                       "" if ok else "listener key is %s" % show(e["key"])[:60])
    ctx.require("R02.key", nreg, 1, "listener registrations in the open handler")

    def listening_paths(paths):
        for p in paths:
            truth = pc_truth(p.pc)
            lis = None
            for t, v in truth.items():
                if t[0] == "attr" and t[2] == R.listening_attr:
                    lis = v
            yield p, lis

    for p, lis in listening_paths(handler_paths(model, h_close)):
        # unless the connection is known not to be listening, a close must
        # remove its listener
        if lis is False or p.outcome.kind != "return":
            continue
        rem = any(is_listeners_reg(e["reg"]) and
                  e["key"] is not None and e["key"][0] == "obj"
                  for e, _ in all_events(p, ("reg_del",)))
        # only paths that reach the close call
        reached = any(e["callee"] == R.close_op for e, _ in all_events(p, ("call",)))
        if reached:
            ctx.ob("R02.key", "%s: listener removed when listening" % h_close, rem,
                   p.events[-1], "" if rem else "a close on a listening connection leaves "
                   "its listener registered")
    nclose = 0
    for p, lis in listening_paths(model.paths("ws:onClose")):
        if lis is not False:
            mb = [v for t, v in pc_truth(p.pc).items()
                  if t[0] == "obj" and t[1] == "Mailbox"]
            if not (mb and mb[0] is False):
                nclose += 1
                rem = any(is_listeners_reg(e["reg"])
                          for e, _ in all_events(p, ("reg_del",)))
                ctx.ob("R02.key", "onClose: listener removed on disconnect", rem,
                       p.events[-1] if p.events else "", "" if rem else
                       "a disconnecting subscribed connection stays in the listener set: "
                       "later adds are sent to a dead connection")
    if nclose == 0:
        ctx.ob("R02.key", "onClose: listener removed on disconnect", False, "",
               "no path of onClose with a held mailbox and listening=True removes the listener")
    # R02.unique
    e4 = e4mod.get(model)
    for f in e4.findings:
        ctx.ob("R02.unique", f.construct, f.ok, f.site, f.detail)
    ctx.require("R02.unique", len(e4.findings), 8, "registry rule instances")

EXPLANATION += ' Batch 6: protocol options other than the keep-alive pings are reported (size limits apply to outgoing frames).'
