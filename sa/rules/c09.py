"""C09 -- a response is sent only after its effects are committed."""
from ..events import (all_events, handler_of, frame_type, construct_of,
                      flat_events)
from ..report import render_path
from .. import e3 as e3mod
from . import shared

LEVEL = "proof"
EXPLANATION = (
    "Must-be-clean analysis on every abstract event path of every runtime "
    "entry point (websocket callbacks, timer callable, service start/stop), "
    "for every valuation of the configuration predicates: the interpreter "
    "tracks one dirty bit per database (set by INSERT/UPDATE/DELETE, cleared by "
    "commit) through inlined callees, loops (closure over abstract states) and "
    "listener callbacks. Obligations: every frame emission and every exit of an "
    "entry point (normal, explicit raise, proved may-raise site) is clean; no "
    "mutating statement follows a handler's response frame; connections use "
    "SQLite defaults. Decides the property as stated, given the assumptions.")

RESPONSES = ("allocated", "claimed", "released", "closed", "message",
             "nameplates", "pong", "welcome")


def top(p):
    h = handler_of(p)
    return h or p.entry


def run(ctx):
    ctx.rule("R09.emit", "at every SEND / listener callback both dirty bits are clean")
    ctx.rule("R09.exit", "every entry point ends (normal or exceptional exit, including "
             "proved may-raise sites) with both databases clean")
    ctx.rule("R09.last", "no mutating statement follows a handler's response frame")
    model = ctx.model
    nsend = 0
    for en in model.runtime_entries():
        for p in model.paths(en):
            name = top(p)
            responded = None
            for e, loops in all_events(p):
                if e["k"] in ("send", "callback"):
                    nsend += 1
                    what = frame_type(e) if e["k"] == "send" else "callback " + e["role"]
                    construct = "%s -> %s at %s" % (name, what, e["func"])
                    ok = not e["dirty"]
                    ctx.ob("R09.emit", construct, ok, e,
                           "" if ok else "frame emitted while uncommitted changes are "
                           "pending on %s" % sorted(e["dirty"]),
                           render_path(p.events))
                    if e["k"] == "send" and frame_type(e) in RESPONSES and \
                            en == "ws:onMessage" and responded is None:
                        responded = e
                elif e["k"] == "sql" and e["stmt"].mutating and responded is not None:
                    ctx.ob("R09.last", "%s: %s after %s" % (
                        name, e["stmt"].normalized(), frame_type(responded)), False, e,
                        "a stored-state change is made after the response frame that "
                        "acknowledges the command", render_path(p.events))
            if responded is not None:
                ctx.ob("R09.last", "%s: nothing mutates after its response" % name, True)
            okx = not p.dirty
            ctx.ob("R09.exit", "%s exits via %s" % (
                name, p.outcome.kind + (" " + p.outcome.cls if p.outcome.cls else "")),
                okx, p.events[-1] if p.events else "",
                "" if okx else "entry point returns to the reactor with uncommitted "
                "changes on %s; the next frame of any connection is emitted over them"
                % sorted(p.dirty), render_path(p.events))
    ctx.require("R09.emit", nsend, 10, "frame emissions / listener callbacks")
    # a COMMIT whose failure is swallowed is no commit: the handler goes on to
    # answer over a transaction that is still open
    ctx.rule("R09.swallow", "no commit of a command handler runs under a handler that "
             "catches database errors and carries on")
    SW = ("OperationalError", "DatabaseError", "IntegrityError", "Exception", "BaseException")
    nsw = 0
    seen_sw = set()
    for en in model.WS_ENTRIES:
        for p in model.paths(en):
            for e, _ in all_events(p, ("commit",)):
                nsw += 1
                hit = [h for h in e["handlers"] if any(nm in SW for nm in h[0])]
                if hit and e["site"] not in seen_sw:
                    seen_sw.add(e["site"])
                    ctx.ob("R09.swallow", "commit at %s:%d" % e["site"][:2], False, e,
                           "the commit runs inside `except %s` (%s:%d): when it fails the "
                           "command carries on and its answer is sent over uncommitted "
                           "changes" % ("/".join(hit[0][0]), hit[0][1][0], hit[0][1][1]))
    ctx.ob("R09.swallow", "commit failures are not swallowed by command handlers",
           not seen_sw, "", "%d commit events" % nsw)
    # may-raise sites found by E3/E3'
    e3 = e3mod.get(model)
    for f in e3.may_raise():
        dirty = sorted(set(d for x in e3.occurrences(f) for d in x["dirty"]))
        ok = not dirty
        ctx.ob("R09.exit", "may-raise %s at %s" % (f.may_raise, f.construct), ok, f.event,
               "" if ok else "%s; the exception leaves the command with uncommitted "
               "changes on %s, which the next command's commit will persist" % (
                   f.detail, dirty), render_path(f.path.events) if f.path else None)
    shared.r_conn(ctx)
    ctx.assume("a statement fails only where E3/E3' prove it can (FK order, "
               "uniqueness guards, empty-list subscripts); disk-full / I/O errors "
               "are outside the model")
    ctx.assume("SQLite's COMMIT is durable at the default synchronous=FULL with "
               "a rollback journal (checked: no PRAGMA changes them)")
    ctx.assume("handlers run to completion on the reactor thread (R-atomic)")
    shared.r_atomic(ctx)
