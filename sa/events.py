"""Queries over event paths shared by the rules."""
from .terms import walk, is_const, mentions, strip_wrappers, show
from .engine import flat_events
from .repo import AnalysisError
from . import names


# -- frames -------------------------------------------------------------------
def frame_fields(send_ev):
    """dict key -> term of the JSON object sent, or None"""
    for t in walk(send_ev["payload"]):
        if t[0] == "kwdict":
            return dict(t[1])
    return None


def frame_type(send_ev):
    f = frame_fields(send_ev)
    if f is None:
        return "?"
    t = f.get("type")
    if t is not None and is_const(t):
        return t[1]
    return "?"


# -- term classification ---------------------------------------------------------
def is_client_value(t):
    """derived (only) from the inbound payload / message fields"""
    return mentions(t, lambda x: x[0] == "param" and x[1] in ("payload", "msg"))


def is_app_id(t):
    """the app id of a namespace / mailbox object (the attribute that receives
    the key of the namespace registry through the constructor chain)"""
    if t[0] in ("idof", "attr") and t[1][0] == "obj":
        return names.current().app_id_attr.get(t[1][1]) == t[2]
    return False


def is_own_mailbox_id(t):
    """the id of a Mailbox object (created only by the get-or-create, after
    the mailbox row was ensured for its app)"""
    if t[0] in ("idof", "attr") and t[1][0] == "obj":
        return (t[1][1], t[2]) == names.current().mailbox_id_attr
    return False


def is_conn_side(t):
    """the side the connection was bound with"""
    return t[0] == "attr" and t[1][0] == "obj" and t[1][1] == "WebSocketServer" and \
        t[2] == names.current().side_attr


def is_listeners_reg(t):
    """a registry term denoting a Mailbox's listener table"""
    return t[0] == "reg" and t[2] == names.current().listeners[1]


# -- handler selection --------------------------------------------------------------
def calls(path_events, callee=None):
    for e, _ in flat_events(path_events):
        if e["k"] == "call" and (callee is None or e["callee"] == callee):
            yield e


def has_call(path, callee):
    for e in calls(path.events, callee):
        return True
    return False


def _type_decided(pc):
    """a (client value == string literal) test decided true: the dispatch"""
    for (t, b, site) in pc:
        if b and t[0] == "cmp" and t[1] == "==":
            if is_const(t[3]) and isinstance(t[3][1], str) and is_client_value(t[2]):
                return True
            if is_const(t[2]) and isinstance(t[2][1], str) and is_client_value(t[3]):
                return True
    return False


def assign_handlers(paths):
    """For each onMessage path: the command handler dispatched on it -- the
    first method of the protocol class that is called once the message type
    was decided and that is never called before a type is decided (which
    excludes the frame sender and any dispatch helper)."""
    generic = set()
    for p in paths:
        for e in p.events:
            if e["k"] == "call" and e["callee"].startswith("WebSocketServer.") and \
                    not _type_decided(e["pc"]):
                generic.add(e["callee"])
    for p in paths:
        p.handler = None
        for e in p.events:
            if e["k"] == "call" and e["callee"].startswith("WebSocketServer.") and \
                    e["callee"] not in generic and _type_decided(e["pc"]):
                p.handler = e["callee"].split(".")[1]
                break


def handler_of(path):
    """the command handler dispatched on this onMessage path, or None"""
    return getattr(path, "handler", None)


def is_handler_frame(model, qualname):
    """qualname is one of the dispatched command handlers"""
    hs = getattr(model, "_handler_names", None)
    if hs is None:
        hs = set("WebSocketServer." + h for v in dispatch_table(model).values() for h in v)
        model._handler_names = hs
    return qualname in hs


def dispatch_table(model):
    """message type literal -> handler method name, from the paths of
    onMessage: the (mtype == literal) test that is true on the path"""
    table = {}
    for p in model.paths("ws:onMessage"):
        h = handler_of(p)
        if not h:
            continue
        lit = None
        for (t, b, site) in p.pc:
            if b and t[0] == "cmp" and t[1] == "==" and is_const(t[3]) and \
                    isinstance(t[3][1], str) and is_client_value(t[2]):
                lit = t[3][1]
            if b and t[0] == "cmp" and t[1] == "==" and is_const(t[2]) and \
                    isinstance(t[2][1], str) and is_client_value(t[3]):
                lit = t[2][1]
        if lit is not None:
            table.setdefault(lit, set()).add(h)
    return table


def handler_paths(model, handler):
    return [p for p in model.paths("ws:onMessage") if handler_of(p) == handler]


def handler_for(model, mtype):
    tab = dispatch_table(model)
    hs = tab.get(mtype)
    if not hs:
        raise AnalysisError("anchor vanished: no dispatch arm for %r" % mtype)
    if len(hs) > 1:
        raise AnalysisError("ambiguous dispatch for %r: %s" % (mtype, sorted(hs)))
    return list(hs)[0]


# -- flattening -----------------------------------------------------------------------
def all_events(path, kinds=None):
    for e, loops in flat_events(path.events):
        if kinds is None or e["k"] in kinds:
            yield e, loops


def sql_events(path, db=None, kinds=None):
    for e, loops in all_events(path, ("sql",)):
        if db is not None and e["db"] != db:
            continue
        if kinds is not None and e["stmt"].kind not in kinds:
            continue
        yield e, loops


def all_sql_sites(model, entries):
    """site -> (event sample) over all paths of the given entries"""
    out = {}
    for en in entries:
        for p in model.paths(en):
            for e, loops in sql_events(p):
                out.setdefault(e["site"], []).append((p, e, loops))
    return out


def construct_of(e):
    """stable construct key: qualified function + normalised statement"""
    if e["k"] == "sql":
        return "%s: %s" % (e["func"], e["stmt"].normalized())
    if e["k"] == "send":
        return "%s: send(%s)" % (e["func"], frame_type(e))
    if e["k"] == "raise":
        return "%s: raise %s" % (e["func"], e["cls"])
    if e["k"] == "commit":
        return "%s: commit(%s)" % (e["func"], e["db"])
    if e["k"] == "call":
        return "%s: call %s" % (e["func"], e["callee"])
    return "%s: %s" % (e["func"], e["k"])


# -- transactions ---------------------------------------------------------------------
def linear_segments(events, db="chan"):
    """split a top-level event list into transactions on `db`.

    A loop whose alternatives contain no commit on `db` is kept as one event of
    the surrounding transaction; a loop with commits inside is a transaction
    boundary on both sides and its alternatives are segmented recursively
    (yielded separately).  Yields lists of events."""
    cur = []
    for e in events:
        if e["k"] == "commit" and e["db"] == db:
            cur.append(e)
            yield cur
            cur = []
        elif e["k"] == "loop" and _loop_commits(e, db):
            if cur:
                yield cur
            cur = []
            for alt in e["alts"]:
                for seg in linear_segments(alt["events"], db):
                    yield seg
        else:
            cur.append(e)
    if cur:
        yield cur


def _loop_commits(loop_ev, db):
    for alt in loop_ev["alts"]:
        for e, _ in flat_events(alt["events"]):
            if e["k"] == "commit" and e["db"] == db:
                return True
    return False


def seg_sql(seg, db="chan"):
    """(event, loops) for the SQL statements of a segment on db, descending
    into loops"""
    for e, loops in flat_events(seg):
        if e["k"] == "sql" and e["db"] == db:
            yield e, loops


def each_event(model, entries, kinds=None):
    """every event object of the given entries exactly once (events are shared
    between paths that fork after them, and loop alternatives between all
    continuations): yields (path, event, loops)"""
    seen = set()
    for en in entries:
        for p in model.paths(en):
            stack = [(p.events, ())]
            while stack:
                events, loops = stack.pop()
                for e in events:
                    if id(e) in seen:
                        continue
                    seen.add(id(e))
                    if kinds is None or e["k"] in kinds:
                        yield p, e, loops
                    if e["k"] == "loop":
                        for alt in e["alts"]:
                            stack.append((alt["events"], loops + (e,)))


def expand_merges(interp, term, pc=(), limit=4096):
    """all (pc, value) alternatives of a term whose value (or sub-terms) were
    merged over the branches of pure callees, nested merges included"""
    from .terms import walk
    inner = None
    if term[0] == "merge":
        inner = term
    else:
        for x in walk(term):
            if x[0] == "merge":
                inner = x
                break
    if inner is None:
        return [(tuple(pc), term)]
    out = []
    for (apc, aval) in interp.merges[inner]:
        new_term = aval if inner is term else _subst(term, inner, aval)
        out.extend(expand_merges(interp, new_term, tuple(pc) + tuple(apc), limit))
        if len(out) > limit:
            from .repo import AnalysisError
            raise AnalysisError("too many merged alternatives")
    return out


def expand_all_merges(interp, pc, value, limit=4096):
    """like expand_merges, for merges that occur in the path condition as
    well: every (pc, value) alternative with the merged terms replaced
    consistently in the conditions and in the value"""
    from .terms import walk
    inner = None
    for (t, b, site) in pc:
        for x in walk(t):
            if isinstance(x, tuple) and x and x[0] == "merge":
                inner = x
                break
        if inner is not None:
            break
    if inner is None and value is not None:
        for x in walk(value):
            if isinstance(x, tuple) and x and x[0] == "merge":
                inner = x
                break
    if inner is None:
        return [(tuple(pc), value)]
    out = []
    for (apc, aval) in interp.merges[inner]:
        npc = tuple((_subst(t, inner, aval), b, site) for (t, b, site) in pc) + tuple(apc)
        nval = None if value is None else (aval if value == inner else
                                           _subst(value, inner, aval))
        out.extend(expand_all_merges(interp, npc, nval, limit))
        if len(out) > limit:
            from .repo import AnalysisError
            raise AnalysisError("too many merged alternatives")
    return out


def _subst(t, old, new):
    if t == old:
        return new
    if not isinstance(t, tuple):
        return t
    r = tuple(_subst(x, old, new) if isinstance(x, tuple) else x for x in t)
    # a, b, c = <record>: the i-th item of a namedtuple / tuple value
    if len(r) == 3 and r[0] == "item" and isinstance(r[1], tuple) and isinstance(r[2], int):
        if r[1][0] == "nt" and 0 <= r[2] < len(r[1][2]):
            return r[1][2][r[2]][1]
        if r[1][0] == "tuple" and 0 <= r[2] < len(r[1][1]):
            return r[1][1][r[2]]
    return r
