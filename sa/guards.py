"""Abstract evaluation of 'no row has flag F' guards (R07.guard, R08.guard,
R05.count)."""
from .terms import is_const, strip_wrappers, walk


def flag_terms(t, rows, col):
    """does t mention column `col` of an element of rows?"""
    for x in walk(t):
        if x[0] == "sub" and x[2] == ("const", col) and x[1][0] == "elem" and \
                strip_wrappers(x[1][1]) == rows:
            return True
    return False


class Unknown(Exception):
    pass


def eval_flag(t, rows, col, some_set):
    """evaluate guard term t in the model where the rows of `rows` are
    non-empty and  some_set <=> at least one row has a truthy `col`.
    Returns a Python value (bool / int / list marker) or raises Unknown."""
    k = t[0]
    if k == "const":
        return t[1]
    if k == "not":
        return not _truth(eval_flag(t[1], rows, col, some_set))
    if k == "truth":
        return _truth(eval_flag(t[1], rows, col, some_set))
    if k == "comp":
        _, kind, elt, it, conds, site = t
        if strip_wrappers(it) != rows:
            raise Unknown()
        # filter on the flag -> empty iff no row has it
        if len(conds) == 1 and _is_flag(conds[0], rows, col):
            return ["x"] if some_set else []
        if not conds and _is_flag(elt, rows, col):
            # list of the flag values
            return [True, False] if some_set else [False]
        if not conds:
            return ["x"]
        raise Unknown()
    if k == "call":
        name = t[1]
        args = t[2]
        if name in ("any",) and len(args) == 1:
            v = eval_flag(args[0], rows, col, some_set)
            return any(v)
        if name in ("all",) and len(args) == 1:
            raise Unknown()
        if name == "len" and len(args) == 1:
            v = eval_flag(args[0], rows, col, some_set)
            if isinstance(v, list):
                # only emptiness is known
                return 0 if not v else _Pos()
            raise Unknown()
        if name in ("list", "sorted", "set", "tuple") and len(args) == 1:
            return eval_flag(args[0], rows, col, some_set)
        if name == "sum" and len(args) == 1:
            v = eval_flag(args[0], rows, col, some_set)
            if isinstance(v, list):
                return 0 if not any(v) else _Pos()
        raise Unknown()
    if k == "cmp":
        l = eval_flag(t[2], rows, col, some_set)
        r = eval_flag(t[3], rows, col, some_set)
        return _cmp(t[1], l, r)
    if k == "rows" and t == rows:
        return ["x"]
    raise Unknown()


class _Pos(object):
    """some positive integer"""


def _cmp(op, l, r):
    if isinstance(l, _Pos) and isinstance(r, int):
        if op == ">" and r <= 0:
            return True
        if op == ">=" and r <= 1:
            return True
        if op == "==" and r <= 0:
            return False
        if op == "<" and r <= 1:
            return False
        if op == "<=" and r <= 0:
            return False
        raise Unknown()
    if isinstance(l, int) and isinstance(r, int):
        return {"==": l == r, ">": l > r, ">=": l >= r, "<": l < r, "<=": l <= r}[op]
    raise Unknown()


def _truth(v):
    if isinstance(v, _Pos):
        return True
    return bool(v)


def _is_flag(t, rows, col):
    if t[0] == "truth":
        t = t[1]
    return t[0] == "sub" and t[2] == ("const", col) and t[1][0] == "elem" and \
        strip_wrappers(t[1][1]) == rows


def loop_guard(loop_events, rows, col):
    """the loop spelling of the guard:

        for r in rows:
            if r[col]: return        # (or raise)

    -> True when some `for` loop over `rows` among loop_events leaves the
    function on every iteration that sees a truthy `col` and carries on only on
    iterations that see a falsy one: code after the loop runs only when no row
    has the flag."""
    for lp in loop_events:
        if not lp.get("for") or lp["iter"] is None or strip_wrappers(lp["iter"]) != rows:
            continue
        leave = stay = 0
        ok = True
        for alt in lp["alts"]:
            pol = None
            for (t, b, _site) in alt["pc"]:
                tt, bb = t, b
                while tt[0] in ("not", "truth"):
                    if tt[0] == "not":
                        bb = not bb
                    tt = tt[1]
                if _is_flag(tt, rows, col):
                    pol = bb
            if pol is True and alt["out"] in ("return", "raise"):
                leave += 1
            elif pol is False and alt["out"] in ("normal", "continue"):
                stay += 1
            else:
                ok = False
        if ok and leave and stay:
            return True
    return False


def guard_verdict(pc, rows, col, loop_events=()):
    """Among the path conditions (those decided after the select was taken),
    find the ones depending on `col` of `rows`.
    -> (found, ok, text): ok iff some condition distinguishes 'no row has the
    flag' from 'some row has it' and the path took the no-row polarity, and no
    evaluable condition contradicts it."""
    found = False
    good = None
    for (t, b, site) in pc:
        if not flag_terms(t, rows, col):
            continue
        found = True
        try:
            none = _truth(eval_flag(t, rows, col, False))
            some = _truth(eval_flag(t, rows, col, True))
        except Unknown:
            continue
        if none == some:
            continue
        if b != none:
            return True, False, "the deletion happens on the branch where some row still " \
                "has `%s`" % col
        good = "reached only when no row has `%s`" % col
    if good:
        return True, True, good
    if loop_events and loop_guard(loop_events, rows, col):
        return True, True, "reached only after a loop over the rows that leaves on the " \
            "first row that has `%s`" % col
    if found:
        return True, False, "the conditions on `%s` do not establish that no row has it" % col
    return False, False, "not guarded by the `%s` flags of the side rows" % col
