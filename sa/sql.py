"""E2 -- SQL model: tokenizer, schema parser, statement parser.

Only the subset of SQL used by magic-wormhole-mailbox-server and by plausible
repairs of it is understood.  Anything else raises SqlUnparsed, which the
callers turn into ANALYSIS-ERROR (exit 2) for rules that need the statement.
"""
import re


class SqlUnparsed(Exception):
    pass


_TOKEN_RE = re.compile(r"""
    (?P<ws>\s+)
  | (?P<comment>--[^\n]*)
  | (?P<bq>`[^`]*`)
  | (?P<dq>"[^"]*")
  | (?P<str>'(?:[^']|'')*')
  | (?P<num>\d+(?:\.\d+)?)
  | (?P<qm>\?|[:@$][A-Za-z_][A-Za-z_0-9]*)
  | (?P<op><>|!=|<=|>=|==|=|<|>|\|\|)
  | (?P<punct>[(),;.*+\-/])
  | (?P<word>[A-Za-z_][A-Za-z_0-9]*)
""", re.X)

KEYWORDS = {
    "SELECT", "DISTINCT", "FROM", "WHERE", "AND", "OR", "NOT", "IN", "IS",
    "NULL", "ORDER", "BY", "ASC", "DESC", "LIMIT", "INSERT", "INTO", "VALUES",
    "UPDATE", "SET", "DELETE", "CREATE", "TABLE", "INDEX", "UNIQUE", "IF",
    "EXISTS", "ON", "PRIMARY", "KEY", "AUTOINCREMENT", "REFERENCES", "BEGIN",
    "COMMIT", "TRANSACTION", "PRAGMA", "DROP", "ALTER", "ADD", "COLUMN",
    "FOREIGN", "DEFAULT", "END", "ROLLBACK", "OFFSET", "COUNT", "REPLACE",
    "DEFERRED", "IMMEDIATE", "EXCLUSIVE", "CONSTRAINT", "RENAME", "TO",
    "JOIN", "LEFT", "INNER", "OUTER", "CROSS", "AS", "GROUP", "HAVING", "USING",
    "NATURAL", "RIGHT", "FULL", "VACUUM", "UNION", "ALL",
}


class Tok(object):
    __slots__ = ("kind", "text", "pos")

    def __init__(self, kind, text, pos):
        self.kind = kind
        self.text = text
        self.pos = pos

    def __repr__(self):
        return "Tok(%s,%r)" % (self.kind, self.text)


def tokenize(text):
    toks = []
    pos = 0
    while pos < len(text):
        m = _TOKEN_RE.match(text, pos)
        if not m:
            raise SqlUnparsed("cannot tokenize at %r" % text[pos:pos + 20])
        pos = m.end()
        kind = m.lastgroup
        t = m.group(kind)
        if kind in ("ws", "comment"):
            continue
        if kind == "bq" or kind == "dq":
            toks.append(Tok("ident", t[1:-1], m.start()))
        elif kind == "word":
            if t.upper() in KEYWORDS:
                toks.append(Tok("kw", t.upper(), m.start()))
            else:
                toks.append(Tok("ident", t, m.start()))
        else:
            toks.append(Tok(kind, t, m.start()))
    return toks


# --------------------------------------------------------------------------
# AST for statements

class Stmt(object):
    """A parsed statement.

    kind: select|insert|update|delete|create_table|create_index|begin|commit|
          pragma|drop|alter|rollback
    table: main table
    cols: select list / insert column list / update set columns
    values: for insert -- list of value atoms aligned with cols; for update --
            list of value atoms aligned with cols
    where: Where tree or None
    nparams: number of '?' placeholders (in textual order)
    """

    def __init__(self, kind, **kw):
        self.kind = kind
        self.table = kw.get("table")
        self.cols = kw.get("cols", [])
        self.values = kw.get("values", [])
        self.where = kw.get("where")
        self.distinct = kw.get("distinct", False)
        self.order_by = kw.get("order_by", [])
        self.limit = kw.get("limit")
        self.extra = kw.get("extra", {})
        self.nparams = kw.get("nparams", 0)
        self.text = kw.get("text", "")

    @property
    def mutating(self):
        return self.kind in ("insert", "update", "delete", "create_table",
                             "create_index", "drop", "alter", "vacuum")

    @property
    def plain_rows(self):
        """a SELECT that returns every row its WHERE matches, once each and as
        stored: no DISTINCT, GROUP BY / HAVING, LIMIT, join or computed column"""
        return self.kind == "select" and not self.distinct and self.limit is None and \
            not self.extra.get("group_by") and not self.extra.get("having") and \
            not self.extra.get("joins") and not self.extra.get("functions")

    @property
    def all_rows(self):
        """like plain_rows, but DISTINCT is allowed (a set of values is read)"""
        return self.kind == "select" and self.limit is None and \
            not self.extra.get("group_by") and not self.extra.get("having") and \
            not self.extra.get("joins") and not self.extra.get("functions") and \
            not self.extra.get("union") and \
            not self.extra.get("union")

    def normalized(self):
        """Canonical one-line rendering (used as construct key)."""
        k = self.kind
        if k == "select":
            s = "SELECT %s%s FROM %s" % ("DISTINCT " if self.distinct else "",
                                         ",".join(self.cols), self.table)
            for (jk, jt, on) in self.extra.get("joins", []):
                s += " %s JOIN %s" % (jk.upper(), jt)
                if on is not None:
                    s += " ON " + on.render()
            for m in self.extra.get("union", []):
                s += " UNION " + m.normalized()
            if self.extra.get("group_by"):
                tail = " GROUP BY %s" % ",".join(self.extra["group_by"])
                if self.extra.get("having"):
                    tail += " HAVING %s" % self.extra["having"]
                if self.where is not None:
                    return (s + " WHERE " + self.where.render() + tail).strip()
                return (s + tail).strip()
        elif k == "insert":
            s = "INSERT INTO %s (%s)" % (self.table, ",".join(self.cols))
        elif k == "update":
            s = "UPDATE %s SET %s" % (self.table, ",".join(self.cols))
        elif k == "delete":
            s = "DELETE FROM %s" % self.table
        elif k == "pragma":
            s = "PRAGMA %s" % self.extra.get("name")
            if self.extra.get("value") is not None:
                s += "=%s" % self.extra.get("value")
        else:
            s = "%s %s" % (k.upper(), self.table or "")
        if self.where is not None:
            s += " WHERE " + self.where.render()
        return s.strip()

    def __repr__(self):
        return "<Stmt %s>" % self.normalized()


class Where(object):
    """op: 'and'|'or'|'not'|'cmp'|'isnull'|'notnull'|'in'|'notin'|'subcmp'
    cmp: col, cmpop, value (Atom; kind 'subq' = a scalar subquery)
    subcmp: sub (Stmt) cmpop value -- a scalar subquery on the left
    in: col, sub (Stmt)
    """

    def __init__(self, op, **kw):
        self.op = op
        self.args = kw.get("args", [])
        self.col = kw.get("col")
        self.cmpop = kw.get("cmpop")
        self.value = kw.get("value")
        self.sub = kw.get("sub")

    def render(self):
        if self.op in ("and", "or"):
            parts = sorted(a.render() for a in self.args)
            return "(" + (" %s " % self.op.upper()).join(parts) + ")"
        if self.op == "not":
            return "NOT " + self.args[0].render()
        if self.op == "cmp":
            return "%s%s%s" % (self.col, self.cmpop, self.value.render())
        if self.op == "subcmp":
            return "(%s)%s%s" % (self.sub.normalized(), self.cmpop, self.value.render())
        if self.op == "isnull":
            return "%s IS NULL" % self.col
        if self.op == "notnull":
            return "%s IS NOT NULL" % self.col
        if self.op in ("in", "notin"):
            return "%s %sIN (%s)" % (self.col,
                                     "NOT " if self.op == "notin" else "",
                                     self.sub.normalized())
        return "?"

    def dnf(self):
        """list of conjunctions, each a list of leaf Where nodes.
        NOT over non-leaf -> SqlUnparsed (not in use)."""
        if self.op == "and":
            res = [[]]
            for a in self.args:
                sub = a.dnf()
                res = [x + y for x in res for y in sub]
            return res
        if self.op == "or":
            res = []
            for a in self.args:
                res.extend(a.dnf())
            return res
        if self.op == "not":
            raise SqlUnparsed("NOT over compound condition")
        return [[self]]

    def leaves(self):
        if self.op in ("and", "or", "not"):
            out = []
            for a in self.args:
                out.extend(a.leaves())
            return out
        return [self]


class Atom(object):
    """kind: 'param' (index), 'lit' (value), 'col' (name), 'null'"""

    def __init__(self, kind, value=None):
        self.kind = kind
        self.value = value

    def render(self):
        if self.kind == "param":
            return "?"
        if self.kind == "null":
            return "NULL"
        if self.kind == "subq":
            return "(%s)" % self.value.normalized()
        return str(self.value)

    def __repr__(self):
        return "Atom(%s,%r)" % (self.kind, self.value)


class _P(object):
    def __init__(self, toks, text):
        self.toks = toks
        self.i = 0
        self.text = text
        self.nparams = 0
        self.param_names = []   # per placeholder: None for '?', the name for ':name'

    def peek(self, k=0):
        if self.i + k < len(self.toks):
            return self.toks[self.i + k]
        return Tok("eof", "", -1)

    def at_kw(self, *kws):
        t = self.peek()
        return t.kind == "kw" and t.text in kws

    def at_punct(self, p):
        t = self.peek()
        return t.kind == "punct" and t.text == p

    def eat_kw(self, *kws):
        if self.at_kw(*kws):
            self.i += 1
            return self.toks[self.i - 1].text
        return None

    def expect_kw(self, *kws):
        r = self.eat_kw(*kws)
        if r is None:
            raise SqlUnparsed("expected %s at %r in %r" % (
                "/".join(kws), self.peek(), self.text))
        return r

    def eat_punct(self, p):
        if self.at_punct(p):
            self.i += 1
            return True
        return False

    def expect_punct(self, p):
        if not self.eat_punct(p):
            raise SqlUnparsed("expected %r at %r in %r" % (p, self.peek(),
                                                           self.text))

    def ident(self):
        t = self.peek()
        if t.kind == "ident":
            self.i += 1
            return t.text
        # some keywords are used as identifiers (e.g. column `version`, `added`)
        if t.kind == "kw" and t.text in ("KEY", "ADD", "END", "COUNT", "TO",
                                        "REPLACE", "COLUMN"):
            self.i += 1
            return t.text.lower()
        raise SqlUnparsed("expected identifier at %r in %r" % (t, self.text))

    def atom(self):
        t = self.peek()
        if t.kind == "qm":
            self.i += 1
            a = Atom("param", self.nparams)
            self.nparams += 1
            self.param_names.append(t.text[1:] if len(t.text) > 1 else None)
            return a
        if t.kind == "num":
            self.i += 1
            return Atom("lit", float(t.text) if "." in t.text else int(t.text))
        if t.kind == "str":
            self.i += 1
            return Atom("lit", t.text[1:-1].replace("''", "'"))
        if t.kind == "kw" and t.text == "NULL":
            self.i += 1
            return Atom("null")
        if t.kind == "punct" and t.text == "-" and self.peek(1).kind == "num":
            self.i += 2
            n = self.toks[self.i - 1].text
            return Atom("lit", -(float(n) if "." in n else int(n)))
        if t.kind == "punct" and t.text == "(" and self.peek(1).kind == "kw" and \
                self.peek(1).text == "SELECT":
            # a scalar subquery used as a value
            self.i += 1
            sub = self.select()
            self.expect_punct(")")
            return Atom("subq", sub)
        if t.kind in ("ident", "kw") and self.peek(1).kind == "punct" and \
                self.peek(1).text == "(" and t.text.upper() not in ("VALUES", "IN", "SELECT"):
            # a function / CAST expression: a computed value
            fn = t.text.upper()
            self.i += 1
            start = self.i
            self._skip_call()
            return Atom("expr", "%s(%s)" % (fn, " ".join(
                x.text for x in self.toks[start + 1:self.i - 1])))
        if t.kind == "ident":
            self.i += 1
            return Atom("col", t.text)
        raise SqlUnparsed("expected value at %r in %r" % (t, self.text))

    # WHERE grammar: or_expr := and_expr (OR and_expr)*
    def _pragma_value(self):
        """a pragma value: a word, a string, or a (signed) number"""
        sign = ""
        v = self.peek()
        if v.kind in ("op", "punct") and v.text in ("-", "+"):
            sign = v.text
            self.i += 1
            v = self.peek()
        self.i += 1
        return sign + v.text

    def where(self):
        return self.or_expr()

    def or_expr(self):
        args = [self.and_expr()]
        while self.eat_kw("OR"):
            args.append(self.and_expr())
        return args[0] if len(args) == 1 else Where("or", args=args)

    def and_expr(self):
        args = [self.not_expr()]
        while self.eat_kw("AND"):
            args.append(self.not_expr())
        return args[0] if len(args) == 1 else Where("and", args=args)

    NEG_CMP = {"=": "!=", "!=": "=", "<": ">=", ">": "<=", "<=": ">", ">=": "<"}

    def not_expr(self):
        if self.eat_kw("NOT"):
            inner = self.not_expr()
            # NOT over a leaf comparison is the complementary comparison
            # (NOT `flag`  ==  `flag` = 0)
            if inner.op == "cmp" and inner.cmpop in self.NEG_CMP:
                return Where("cmp", col=inner.col, cmpop=self.NEG_CMP[inner.cmpop],
                             value=inner.value)
            if inner.op == "isnull":
                return Where("notnull", col=inner.col)
            if inner.op == "notnull":
                return Where("isnull", col=inner.col)
            return Where("not", args=[inner])
        return self.pred()

    def pred(self):
        if self.at_punct("(") and self.peek(1).kind == "kw" and \
                self.peek(1).text == "SELECT":
            # (SELECT ...) <op> value: a scalar subquery compared with a value
            self.i += 1
            sub = self.select()
            self.expect_punct(")")
            t = self.peek()
            if t.kind != "op":
                raise SqlUnparsed("unsupported predicate at %r in %r" % (t, self.text))
            self.i += 1
            return Where("subcmp", sub=sub, cmpop=t.text, value=self.atom())
        if self.at_punct("("):
            self.i += 1
            w = self.or_expr()
            self.expect_punct(")")
            return w
        col = self.qcol()
        t = self.peek()
        if t.kind == "op":
            self.i += 1
            op = t.text
            if op == "==":
                op = "="
            if op == "<>":
                op = "!="
            val = self.atom()
            if val.kind == "col" and self.eat_punct("."):
                val = Atom("col", self._qualify(val.value, self.ident()))
            return Where("cmp", col=col, cmpop=op, value=val)
        if self.eat_kw("IS"):
            if self.eat_kw("NOT"):
                if self.eat_kw("NULL"):
                    return Where("notnull", col=col)
                # col IS NOT <value>: null-safe inequality
                return Where("cmp", col=col, cmpop="!=", value=self.atom())
            if self.eat_kw("NULL"):
                return Where("isnull", col=col)
            # col IS <value>: null-safe equality
            return Where("cmp", col=col, cmpop="=", value=self.atom())
        neg = False
        if self.eat_kw("NOT"):
            neg = True
        if self.eat_kw("IN"):
            self.expect_punct("(")
            if not self.at_kw("SELECT"):
                raise SqlUnparsed("IN (...) with a literal list: %r" % self.text)
            sub = self.select()
            self.expect_punct(")")
            return Where("notin" if neg else "in", col=col, sub=sub)
        if not neg and (t.kind == "eof" or (t.kind == "kw" and t.text in (
                "AND", "OR", "GROUP", "ORDER", "LIMIT", "HAVING")) or
                (t.kind == "punct" and t.text == ")")):
            # bare column used as a boolean
            return Where("cmp", col=col, cmpop="!=", value=Atom("lit", 0))
        raise SqlUnparsed("unsupported predicate at %r in %r" % (t, self.text))

    primary = None

    def _qualify(self, table, col):
        """columns of the statement's primary table are unqualified; columns
        of joined tables keep the form table.col"""
        table = getattr(self, "aliases", {}).get(table, table)
        if self.primary is None or table == self.primary:
            return col
        return "%s.%s" % (table, col)

    def qcol(self):
        name = self.ident()
        if self.eat_punct("."):
            if self.eat_punct("*"):
                return "*"
            return self._qualify(name, self.ident())
        return name

    def _find_primary(self):
        """look ahead for the FROM table of the select starting here"""
        depth = 0
        j = self.i
        while j < len(self.toks):
            tk = self.toks[j]
            if tk.kind == "punct" and tk.text == "(":
                depth += 1
            elif tk.kind == "punct" and tk.text == ")":
                if depth == 0:
                    return None
                depth -= 1
            elif depth == 0 and tk.kind == "kw" and tk.text == "FROM":
                if j + 1 < len(self.toks) and self.toks[j + 1].kind == "ident":
                    return self.toks[j + 1].text
                return None
            j += 1
        return None

    def _find_aliases(self):
        """look ahead: FROM t [AS] a / JOIN t [AS] a of the select starting here"""
        out = {}
        depth = 0
        j = self.i
        while j < len(self.toks):
            tk = self.toks[j]
            if tk.kind == "punct" and tk.text == "(":
                depth += 1
            elif tk.kind == "punct" and tk.text == ")":
                if depth == 0:
                    break
                depth -= 1
            elif depth == 0 and tk.kind == "kw" and tk.text in ("FROM", "JOIN") and \
                    j + 1 < len(self.toks) and self.toks[j + 1].kind == "ident":
                t = self.toks[j + 1].text
                k = j + 2
                if k < len(self.toks) and self.toks[k].kind == "kw" and self.toks[k].text == "AS":
                    k += 1
                if k < len(self.toks) and self.toks[k].kind == "ident":
                    out[self.toks[k].text] = t
            j += 1
        return out

    def _table_alias(self):
        """consume an optional [AS] alias after a table name"""
        if self.eat_kw("AS"):
            self.ident()
        elif self.peek().kind == "ident":
            self.i += 1

    def _skip_call(self):
        """consume ( ... ) of a function call in a select list"""
        self.expect_punct("(")
        depth = 0
        while self.peek().kind != "eof":
            tk = self.peek()
            if tk.kind == "punct" and tk.text == "(":
                depth += 1
            elif tk.kind == "punct" and tk.text == ")":
                if depth == 0:
                    break
                depth -= 1
            elif tk.kind == "qm":
                self.nparams += 1
                self.param_names.append(tk.text[1:] if len(tk.text) > 1 else None)
            self.i += 1
        self.expect_punct(")")

    def select(self):
        self.expect_kw("SELECT")
        saved_primary = self.primary
        saved_aliases = getattr(self, "aliases", {})
        self.primary = self._find_primary()
        self.aliases = self._find_aliases()
        try:
            return self._select_body()
        finally:
            self.primary = saved_primary
            self.aliases = saved_aliases

    def _select_body(self):
        distinct = bool(self.eat_kw("DISTINCT"))
        cols = []
        extra = {}
        while True:
            if self.eat_punct("*"):
                cols.append("*")
            elif self.at_kw("COUNT") and self.peek(1).kind == "punct" \
                    and self.peek(1).text == "(":
                self.i += 2
                if not self.eat_punct("*"):
                    if not self.at_punct(")"):
                        self.eat_kw("DISTINCT")
                        self.qcol()       # COUNT(col) / COUNT(t.col)
                self.expect_punct(")")
                c = "COUNT()"
                if self.eat_kw("AS"):
                    extra["count_alias"] = self.ident()
                cols.append(c)
            elif self.peek().kind in ("ident", "kw") and self.peek(1).kind == "punct" \
                    and self.peek(1).text == "(" and self.peek().text.upper() != "FROM":
                # an aggregate / scalar function: the value is computed, not a
                # stored column
                fn = self.peek().text.upper()
                self.i += 1
                self._skip_call()
                c = "%s()" % fn
                extra.setdefault("functions", []).append(fn)
                if self.eat_kw("AS"):
                    c = self.ident()
                cols.append(c)
            else:
                c = self.qcol()
                if self.eat_kw("AS"):
                    c = self.ident()
                cols.append(c)
            if not self.eat_punct(","):
                break
        self.expect_kw("FROM")
        table = self.ident()
        self._table_alias()
        joins = []
        while self.at_kw("JOIN", "LEFT", "INNER", "CROSS", "NATURAL", "RIGHT", "FULL") \
                or self.at_punct(","):
            if self.at_punct(","):
                raise SqlUnparsed("comma joins are not modelled: %r" % self.text)
            kind = "inner"
            if self.eat_kw("LEFT"):
                kind = "left"
                self.eat_kw("OUTER")
            elif self.eat_kw("INNER"):
                kind = "inner"
            elif self.at_kw("CROSS", "NATURAL", "RIGHT", "FULL"):
                raise SqlUnparsed("join kind not modelled: %r" % self.text)
            self.expect_kw("JOIN")
            jt = self.ident()
            self._table_alias()
            on = None
            if self.eat_kw("ON"):
                on = self.where()
            joins.append((kind, jt, on))
        if joins:
            extra["joins"] = joins
        where = None
        if self.eat_kw("WHERE"):
            where = self.where()
        # ON conditions of inner joins restrict the result like WHERE conjuncts
        for (kind, jt, on) in joins:
            if kind == "inner" and on is not None:
                where = on if where is None else Where("and", args=[where, on])
        if self.eat_kw("GROUP"):
            self.expect_kw("BY")
            gcols = [self.qcol()]
            while self.eat_punct(","):
                gcols.append(self.qcol())
            extra["group_by"] = gcols
            if self.eat_kw("HAVING"):
                # HAVING COUNT(*) <op> n  /  HAVING <col> <op> value
                toks = []
                depth = 0
                while self.peek().kind != "eof":
                    tk = self.peek()
                    if tk.kind == "punct" and tk.text == "(":
                        depth += 1
                    elif tk.kind == "punct" and tk.text == ")":
                        if depth == 0:
                            break
                        depth -= 1
                    elif depth == 0 and tk.kind == "kw" and tk.text in ("ORDER", "LIMIT"):
                        break
                    elif tk.kind == "qm":
                        self.nparams += 1
                        self.param_names.append(tk.text[1:] if len(tk.text) > 1 else None)
                    toks.append(tk.text)
                    self.i += 1
                extra["having"] = " ".join(toks)
        order = []
        if self.eat_kw("ORDER"):
            self.expect_kw("BY")
            while True:
                c = self.qcol()
                d = self.eat_kw("ASC", "DESC") or "ASC"
                order.append((c, d))
                if not self.eat_punct(","):
                    break
        limit = None
        if self.eat_kw("LIMIT"):
            limit = self.atom()
        st = Stmt("select", table=table, cols=cols, where=where,
                  distinct=distinct, order_by=order, limit=limit,
                  extra=extra)
        if self.at_kw("UNION"):
            # a UNION b [UNION c]: the members are kept on the first select
            members = []
            while self.eat_kw("UNION"):
                if self.eat_kw("ALL"):
                    st.extra["union_all"] = True
                members.append(self.select())
            flat = []
            for m in members:
                flat.append(m)
                flat.extend(m.extra.pop("union", []))
            st.extra["union"] = flat
        return st

    def statement(self):
        t = self.peek()
        if t.kind != "kw":
            raise SqlUnparsed("statement does not start with a keyword: %r"
                              % self.text)
        if t.text == "SELECT":
            return self.select()
        if t.text in ("INSERT", "REPLACE"):
            self.i += 1
            extra = {}
            if t.text == "INSERT" and self.eat_kw("OR"):
                extra["or"] = self.ident() if not self.at_kw("REPLACE") \
                    else self.eat_kw("REPLACE")
            if t.text == "REPLACE":
                extra["or"] = "REPLACE"
            self.expect_kw("INTO")
            table = self.ident()
            self.expect_punct("(")
            cols = [self.ident()]
            while self.eat_punct(","):
                cols.append(self.ident())
            self.expect_punct(")")
            self.expect_kw("VALUES")
            self.expect_punct("(")
            vals = [self.atom()]
            while self.eat_punct(","):
                vals.append(self.atom())
            self.expect_punct(")")
            if len(vals) != len(cols):
                raise SqlUnparsed("INSERT column/value count mismatch: %r"
                                  % self.text)
            return Stmt("insert", table=table, cols=cols, values=vals,
                        extra=extra)
        if t.text == "UPDATE":
            self.i += 1
            table = self.ident()
            self.expect_kw("SET")
            cols, vals = [], []
            while True:
                cols.append(self.ident())
                tt = self.peek()
                if not (tt.kind == "op" and tt.text == "="):
                    raise SqlUnparsed("UPDATE SET without '=': %r" % self.text)
                self.i += 1
                vals.append(self.atom())
                if not self.eat_punct(","):
                    break
            where = None
            if self.eat_kw("WHERE"):
                where = self.where()
            return Stmt("update", table=table, cols=cols, values=vals,
                        where=where)
        if t.text == "DELETE":
            self.i += 1
            self.expect_kw("FROM")
            table = self.ident()
            where = None
            if self.eat_kw("WHERE"):
                where = self.where()
            return Stmt("delete", table=table, where=where)
        if t.text == "PRAGMA":
            self.i += 1
            name = self.ident()
            value = None
            tt = self.peek()
            if tt.kind == "op" and tt.text == "=":
                self.i += 1
                value = self._pragma_value()
            elif self.eat_punct("("):
                value = self._pragma_value()
                self.expect_punct(")")
            return Stmt("pragma", extra={"name": name.lower(),
                                         "value": (value or None)})
        if t.text == "VACUUM":
            # rewrites the whole database file
            self.i += 1
            while self.peek().kind != "eof" and not self.at_punct(";"):
                self.i += 1
            return Stmt("vacuum")
        if t.text == "BEGIN":
            self.i += 1
            self.eat_kw("DEFERRED", "IMMEDIATE", "EXCLUSIVE")
            self.eat_kw("TRANSACTION")
            return Stmt("begin")
        if t.text in ("COMMIT", "END"):
            self.i += 1
            self.eat_kw("TRANSACTION")
            return Stmt("commit")
        if t.text == "ROLLBACK":
            self.i += 1
            self.eat_kw("TRANSACTION")
            return Stmt("rollback")
        if t.text == "CREATE":
            return self.create()
        if t.text == "DROP":
            self.i += 1
            what = self.expect_kw("TABLE", "INDEX")
            if self.eat_kw("IF"):
                self.expect_kw("EXISTS")
            name = self.ident()
            return Stmt("drop", table=name, extra={"what": what.lower()})
        if t.text == "ALTER":
            self.i += 1
            self.expect_kw("TABLE")
            table = self.ident()
            if self.eat_kw("ADD"):
                self.eat_kw("COLUMN")
                col = self.coldef()
                return Stmt("alter", table=table,
                            extra={"action": "add_column", "column": col})
            if self.eat_kw("RENAME"):
                # rename table / column: treated as destructive by C20 rules
                rest = []
                while self.peek().kind != "eof" and not self.at_punct(";"):
                    rest.append(self.peek().text)
                    self.i += 1
                return Stmt("alter", table=table,
                            extra={"action": "rename", "rest": rest})
            if self.eat_kw("DROP"):
                self.eat_kw("COLUMN")
                col = self.ident()
                return Stmt("alter", table=table,
                            extra={"action": "drop_column", "column": col})
            raise SqlUnparsed("unsupported ALTER: %r" % self.text)
        raise SqlUnparsed("unsupported statement: %r" % self.text)

    def coldef(self):
        name = self.ident()
        col = {"name": name, "type": None, "pk": False, "autoinc": False,
               "references": None, "unique": False, "notnull": False,
               "collate": None}
        # optional type: an identifier (VARCHAR, INTEGER, BOOLEAN)
        if self.peek().kind == "ident":
            col["type"] = self.ident().upper()
            if self.eat_punct("("):
                self.atom()
                self.expect_punct(")")
        while True:
            if self.eat_kw("PRIMARY"):
                self.expect_kw("KEY")
                col["pk"] = True
                self.eat_kw("ASC", "DESC")
                if self.eat_kw("AUTOINCREMENT"):
                    col["autoinc"] = True
            elif self.eat_kw("REFERENCES"):
                rt = self.ident()
                rc = None
                if self.eat_punct("("):
                    rc = self.ident()
                    self.expect_punct(")")
                col["references"] = (rt, rc)
                # ON DELETE CASCADE etc.
                while self.at_kw("ON"):
                    self.i += 1
                    ev = self.expect_kw("DELETE", "UPDATE")
                    act = []
                    while self.peek().kind in ("ident", "kw") and not \
                            self.at_kw("ON", "PRIMARY", "REFERENCES", "UNIQUE",
                                       "NOT", "DEFAULT"):
                        act.append(self.peek().text.upper())
                        self.i += 1
                    col.setdefault("on", {})[ev] = " ".join(act)
            elif self.eat_kw("UNIQUE"):
                col["unique"] = True
            elif self.at_kw("NOT") and self.peek(1).kind == "kw" and \
                    self.peek(1).text == "NULL":
                self.i += 2
                col["notnull"] = True
            elif self.eat_kw("DEFAULT"):
                self.atom()
            elif self.peek().kind in ("ident", "kw") and \
                    self.peek().text.upper() == "COLLATE":
                self.i += 1
                col["collate"] = self.peek().text.upper()
                self.i += 1
            else:
                break
        return col

    def create(self):
        self.expect_kw("CREATE")
        unique = bool(self.eat_kw("UNIQUE"))
        what = self.expect_kw("TABLE", "INDEX")
        ine = False
        if self.eat_kw("IF"):
            self.expect_kw("NOT")
            self.expect_kw("EXISTS")
            ine = True
        name = self.ident()
        if what == "INDEX":
            self.expect_kw("ON")
            table = self.ident()
            self.expect_punct("(")
            cols = [self.ident()]
            while self.eat_punct(","):
                cols.append(self.ident())
            self.expect_punct(")")
            return Stmt("create_index", table=table, cols=cols,
                        extra={"name": name, "unique": unique,
                               "if_not_exists": ine})
        if unique:
            raise SqlUnparsed("CREATE UNIQUE TABLE")
        self.expect_punct("(")
        columns = []
        constraints = []
        while True:
            if self.at_kw("PRIMARY", "UNIQUE", "FOREIGN", "CONSTRAINT"):
                if self.eat_kw("CONSTRAINT"):
                    self.ident()
                k = self.expect_kw("PRIMARY", "UNIQUE", "FOREIGN")
                if k in ("PRIMARY", "FOREIGN"):
                    self.expect_kw("KEY")
                self.expect_punct("(")
                cs = [self.ident()]
                while self.eat_punct(","):
                    cs.append(self.ident())
                self.expect_punct(")")
                ref = None
                if k == "FOREIGN":
                    self.expect_kw("REFERENCES")
                    rt = self.ident()
                    rcs = []
                    if self.eat_punct("("):
                        rcs.append(self.ident())
                        while self.eat_punct(","):
                            rcs.append(self.ident())
                        self.expect_punct(")")
                    ref = (rt, rcs)
                constraints.append({"kind": k.lower(), "cols": cs, "ref": ref})
            else:
                columns.append(self.coldef())
            if not self.eat_punct(","):
                break
        self.expect_punct(")")
        return Stmt("create_table", table=name, cols=[c["name"] for c in columns],
                    extra={"columns": columns, "constraints": constraints,
                           "if_not_exists": ine})


def parse_statement(text):
    toks = tokenize(text)
    p = _P(toks, text)
    st = p.statement()
    p.eat_punct(";")
    if p.peek().kind != "eof":
        raise SqlUnparsed("trailing tokens %r in %r" % (p.peek(), text))
    st.nparams = p.nparams
    st.param_names = list(p.param_names)
    st.text = " ".join(text.split())
    return st


def split_script(text):
    """split a script into statement texts (no triggers in use, so ';' is
    a safe separator outside quotes/comments)."""
    toks = tokenize(text)
    stmts = []
    start = None
    last_end = 0
    cur = []
    for t in toks:
        if t.kind == "punct" and t.text == ";":
            if cur:
                stmts.append(cur)
            cur = []
        else:
            cur.append(t)
    if cur:
        stmts.append(cur)
    return stmts


def parse_script(text):
    out = []
    for toks in split_script(text):
        p = _P(toks, " ".join(t.text for t in toks))
        st = p.statement()
        if p.peek().kind != "eof":
            raise SqlUnparsed("trailing tokens %r in script statement %r" %
                              (p.peek(), p.text))
        st.nparams = p.nparams
        st.param_names = list(p.param_names)
        st.text = p.text
        out.append(st)
    return out


# --------------------------------------------------------------------------
# Schema

class Table(object):
    def __init__(self, name):
        self.name = name
        self.columns = []      # list of column dicts, in order
        self.pk = []           # declared primary key columns
        self.uniques = []      # list of column lists (incl. unique indexes)
        self.fks = []          # (col, ref_table, ref_col)
        self.indexes = {}      # name -> (cols, unique)

    def col(self, name):
        for c in self.columns:
            if c["name"] == name:
                return c
        return None

    def colnames(self):
        return [c["name"] for c in self.columns]

    def autoinc_col(self):
        for c in self.columns:
            if c["autoinc"] or (c["pk"] and (c["type"] or "") == "INTEGER"):
                return c["name"]
        return None

    def unique_keys(self):
        keys = []
        if self.pk:
            keys.append(list(self.pk))
        keys.extend(self.uniques)
        return keys

    def signature(self):
        return (self.name,
                tuple((c["name"], c["type"], c["pk"], c["autoinc"],
                       c["references"], c["unique"], c.get("collate"))
                      for c in self.columns),
                tuple(sorted((n, tuple(v[0]), v[1])
                             for n, v in self.indexes.items())))


class Schema(object):
    def __init__(self, name=""):
        self.name = name
        self.tables = {}
        self.order = []

    def apply(self, st):
        """apply a DDL statement; returns False when the statement is not
        DDL."""
        if st.kind == "create_table":
            if st.table in self.tables:
                if st.extra.get("if_not_exists"):
                    return True
                raise SqlUnparsed("table %s created twice" % st.table)
            t = Table(st.table)
            for c in st.extra["columns"]:
                t.columns.append(dict(c))
                if c["pk"]:
                    t.pk = [c["name"]]
                if c["unique"]:
                    t.uniques.append([c["name"]])
                if c["references"]:
                    t.fks.append((c["name"], c["references"][0],
                                  c["references"][1]))
            for k in st.extra["constraints"]:
                if k["kind"] == "primary":
                    t.pk = list(k["cols"])
                elif k["kind"] == "unique":
                    t.uniques.append(list(k["cols"]))
                elif k["kind"] == "foreign":
                    rt, rcs = k["ref"]
                    for i, c in enumerate(k["cols"]):
                        t.fks.append((c, rt, rcs[i] if i < len(rcs) else None))
            self.tables[st.table] = t
            self.order.append(st.table)
            return True
        if st.kind == "create_index":
            t = self.tables.get(st.table)
            if t is None:
                raise SqlUnparsed("index on unknown table %s" % st.table)
            nm = st.extra["name"]
            if nm in t.indexes and st.extra.get("if_not_exists"):
                return True
            t.indexes[nm] = (list(st.cols), st.extra["unique"])
            if st.extra["unique"]:
                t.uniques.append(list(st.cols))
            return True
        if st.kind == "drop":
            if st.extra["what"] == "table":
                self.tables.pop(st.table, None)
                if st.table in self.order:
                    self.order.remove(st.table)
            else:
                for t in self.tables.values():
                    t.indexes.pop(st.table, None)
            return True
        if st.kind == "alter":
            t = self.tables.get(st.table)
            if t is None:
                raise SqlUnparsed("ALTER on unknown table %s" % st.table)
            if st.extra["action"] == "add_column":
                c = st.extra["column"]
                t.columns.append(dict(c))
                if c["references"]:
                    t.fks.append((c["name"], c["references"][0],
                                  c["references"][1]))
            elif st.extra["action"] == "drop_column":
                t.columns = [c for c in t.columns
                             if c["name"] != st.extra["column"]]
            else:
                raise SqlUnparsed("ALTER RENAME not modelled")
            return True
        return False

    def children_of(self, table):
        """declared FK children: list of (child_table, child_col, parent_col)"""
        out = []
        for t in self.tables.values():
            for (c, rt, rc) in t.fks:
                if rt == table:
                    out.append((t.name, c, rc))
        return out

    def signature(self):
        return tuple(sorted(t.signature() for t in self.tables.values()))


def schema_from_script(text, name=""):
    s = Schema(name)
    stmts = parse_script(text)
    for st in stmts:
        s.apply(st)
    return s, stmts
