"""Anchors by role: which methods play the parts the rules talk about, found
from the code (what the dispatch arms call), not from their names."""
from .events import (all_events, handler_for, handler_paths, each_event,
                     is_client_value)
from .repo import AnalysisError
from .terms import mentions, is_const


class Roles(object):
    def __init__(self, model):
        self.model = model
        m = model
        self.h = {}
        for cmd in ("bind", "list", "allocate", "claim", "release", "open", "add",
                    "close", "ping"):
            self.h[cmd] = handler_for(m, cmd)
        self.claim_op = self._first_ns_call("claim", "AppNamespace")
        self.release_op = self._first_ns_call("release", "AppNamespace")
        self.alloc_op = self._first_ns_call("allocate", "AppNamespace")
        self.open_op = self._first_ns_call("open", "AppNamespace")
        self.add_op = self._first_ns_call("add", "Mailbox")
        self.close_op = self._close_op()
        self.sweep_all, self.sweep_app = self._sweeps()
        self.listening_attr = self._listening_attr()

    def _first_ns_call(self, cmd, cls):
        h = self.h[cmd]
        for p in handler_paths(self.model, h):
            for e, _ in all_events(p, ("call",)):
                if e["func"].startswith("WebSocketServer.") and \
                        ("WebSocketServer." + h) in e["stack"] + (e["func"],) and \
                        e["callee"].startswith(cls + "."):
                    return e["callee"]
        raise AnalysisError("role: the %s handler calls no %s method" % (cmd, cls))

    def _close_op(self):
        """the Mailbox method the close handler passes the client's mood to"""
        h = self.h["close"]
        for p in handler_paths(self.model, h):
            for e, _ in all_events(p, ("call",)):
                if e["func"].startswith("WebSocketServer.") and e["callee"].startswith("Mailbox."):
                    if any(mentions(a, lambda x: is_const(x) and x[1] == "mood")
                           for a in e["args"]):
                        return e["callee"]
        # fallback: the last Mailbox method called before `closed`
        last = None
        for p in handler_paths(self.model, h):
            for e, _ in all_events(p, ("call",)):
                if e["func"].startswith("WebSocketServer.") and e["callee"].startswith("Mailbox."):
                    last = e["callee"]
        if last is None:
            raise AnalysisError("role: the close handler calls no Mailbox method")
        return last

    def _listening_attr(self):
        """the connection flag set true where the listener is registered"""
        h = self.h["open"]
        for p in handler_paths(self.model, h):
            registered = any(e["reg"][0] == "reg" and e["reg"][2] == self.model.names.listeners[1]
                             for e, _ in all_events(p, ("reg_set",)))
            if not registered:
                continue
            for e, _ in all_events(p, ("setattr",)):
                if e["obj"][0] == "obj" and e["obj"][1] == "WebSocketServer" and \
                        e["value"] == ("const", True) and \
                        ("WebSocketServer." + h) in e["stack"] + (e["func"],):
                    return e["attr"]
        # no attribute of the connection is set true where the listener is
        # registered: "is this connection subscribed?" is kept elsewhere (a state
        # helper object), which the listener rules do not follow
        cls = self.model.repo.classes.get("WebSocketServer")
        init = cls[1]["methods"].get("__init__") if cls else None
        import ast as _ast
        has_default = init is not None and any(
            isinstance(n, _ast.Attribute) and n.attr == "_listening" and
            isinstance(n.ctx, _ast.Store) for n in _ast.walk(init.node))
        if not has_default:
            from .repo import AnalysisError
            raise AnalysisError("role: no connection attribute records that the connection "
                                "is subscribed (set true where the listener is registered)")
        return "_listening"

    def _sweeps(self):
        """sweep_all: the Server method the timer callable runs (directly or
        through helpers) that visits the apps; sweep_app: the AppNamespace
        method it calls per app, inside its loop (possibly through a helper)"""
        sweep_all = None
        sweep_app = None
        for p, e, loops in each_event(self.model, ["timer"], ("call",)):
            if sweep_app is None and e["callee"].startswith("AppNamespace.") and loops \
                    and len(e["args"]) >= 2 and not e["callee"].split(".")[1].startswith("__") \
                    and e["func"].startswith("Server."):
                # the outermost Server method on the stack is the sweep
                servers = [f for f in e["stack"] if f.startswith("Server.")]
                if servers:
                    sweep_all = servers[0]
                    sweep_app = e["callee"]
        if sweep_all is None or sweep_app is None:
            raise AnalysisError("role: the timer callable does not reach a per-app sweep "
                                "(sweep_all=%s, sweep_app=%s)" % (sweep_all, sweep_app))
        return sweep_all, sweep_app


_cache = {}


def get(model):
    if id(model) not in _cache:
        _cache[id(model)] = Roles(model)
    return _cache[id(model)]
