"""E3 / E3' -- transaction and foreign-key analysis on E1 paths.

Computes, over all runtime entry points:
  * FK-order on the delete side (parent delete covered by child deletes in the
    same transaction),
  * FK-order on the insert side (parent known to exist),
  * uniqueness guards (guard select keyed exactly by the logical key),
  * child-delete pairing (side rows disappear only with their parent),
  * crash-stability of the child-non-empty invariants,
  * E3': unguarded [0] on a possibly empty fetched list,
and from these the may-raise sites (IntegrityError / IndexError) with the
dirty state they would leave and the handlers they would reach.
"""
from .engine import flat_events
from .events import construct_of
from .repo import AnalysisError
from .terms import strip_wrappers, mentions, show, is_const, walk, plain

# logical uniqueness (not declared in the schema; one line of reason each)
LOGICAL_KEYS = {
    "nameplates": ("app_id", "name"),          # one live nameplate per (app, name): C03
    "nameplate_sides": ("nameplates_id", "side"),  # one claim row per (nameplate, side): C10
    "mailbox_sides": ("mailbox_id", "side"),   # one open row per (mailbox, side): C10
}


def pc_truth(pc):
    """term -> bool from a path condition (same normalisation as learn())"""
    out = {}

    def learn(t, v):
        if t[0] == "not":
            return learn(t[1], not v)
        if t[0] == "truth":
            return learn(t[1], v)
        if t[0] == "and" and v:
            for x in t[1]:
                learn(x, True)
            return
        out[t] = v
        if t[0] == "isnone":
            # `x is None` decides x's truthiness when true; a fetched row that
            # is not None is a non-empty mapping, i.e. truthy
            if v:
                out[t[1]] = False
            elif t[1][0] in ("row", "obj"):
                out[t[1]] = True
    for (t, b, site) in pc:
        learn(t, b)
    return out


class Finding(object):
    def __init__(self, rule_kind, construct, site, ok, detail, event, path,
                 may_raise=None):
        self.kind = rule_kind
        self.construct = construct
        self.site = site
        self.ok = ok
        self.detail = detail
        self.event = event
        self.path = path
        self.may_raise = may_raise  # exception class or None


class E3(object):
    def __init__(self, model, entries=None):
        self.model = model
        self.repo = model.repo
        self.schema = self.repo.channel_schema()
        self.entries = entries or ["ws:onMessage", "ws:onClose", "ws:onOpen",
                                   "ws:onConnect", "timer"]
        self.findings = []
        self._seen = {}
        self._done = set()
        self._done_idx = set()
        self.invariants = {}
        self.unguarded_consumers = {}
        self.unproved = []
        self.counts = {"fk_delete": 0, "fk_insert": 0, "unique": 0,
                       "child_delete": 0, "index": 0, "parent_insert": 0}
        self.children = {}
        for t in self.schema.tables.values():
            for (c, pt, pc) in t.fks:
                self.children.setdefault(pt, []).append(
                    (t.name, c, pc or (self.schema.tables[pt].pk[0]
                                       if self.schema.tables[pt].pk else None)))
        self.parents = {}
        for p, lst in self.children.items():
            for (c, f, pk) in lst:
                self.parents.setdefault(c, []).append((p, f, pk))
        self._analyse()

    # ------------------------------------------------------------------
    def add(self, kind, construct, e, ok, detail, path, may_raise=None):
        key = (kind, construct)
        site = "%s:%d" % (e["site"][0], e["site"][1]) if e is not None else ""
        if key in self._seen:
            f = self._seen[key]
            if f.ok and not ok:
                f.ok = False
                f.detail = detail
                f.event = e
                f.path = path
                f.site = site
                f.may_raise = may_raise
            return f
        f = Finding(kind, construct, site, ok, detail, e, path, may_raise)
        self._seen[key] = f
        self.findings.append(f)
        return f

    def _analyse(self):
        # pass 1: the invariants (need all parent inserts / child deletes)
        for en in self.entries:
            for p in self.model.paths(en):
                self._walk(p, p.events, [], (), "structure")
        self._invariants()
        # pass 2: index sites (need the invariants)
        for en in self.entries:
            for p in self.model.paths(en):
                self._index_sites(p)

    # -- transaction walker -------------------------------------------------------
    def _walk(self, path, events, prior, loops, mode):
        """prior: list of earlier items of the current chan transaction
        (sql events or loop composites), innermost last"""
        prior = list(prior)
        for idx, e in enumerate(events):
            k = e["k"]
            if k == "commit" and e["db"] == "chan":
                prior = []
            elif k == "loop" and id(e) in self._done:
                if any(x["k"] == "commit" and x["db"] == "chan"
                       for alt in e["alts"] for x, _ in flat_events(alt["events"])):
                    prior = []
                else:
                    prior.append(e)
            elif k == "loop":
                self._done.add(id(e))
                has_commit = False
                for alt in e["alts"]:
                    for x, _ in flat_events(alt["events"]):
                        if x["k"] == "commit" and x["db"] == "chan":
                            has_commit = True
                for alt in e["alts"]:
                    self._walk(path, alt["events"], [] if has_commit else prior,
                               loops + (e,), mode)
                if has_commit:
                    prior = []
                else:
                    prior.append(e)
            elif k in ("sql", "commit") and e["db"] == "usage":
                self._check_usage_handle(path, e)
                if k == "sql" and e["stmt"].kind == "insert":
                    self._check_usage_insert(path, e)
            elif k == "sql" and e["db"] == "chan":
                st = e["stmt"]
                later = events[idx + 1:]
                if st.kind == "delete":
                    self._check_delete(path, e, prior, loops, later)
                elif st.kind == "insert":
                    self._check_insert(path, e, prior, loops, later, events[:idx])
                prior.append(e)

    # -- delete side -----------------------------------------------------------------
    def _prior_sql(self, prior, table, kind="delete"):
        for it in prior:
            if it["k"] == "sql" and it["db"] == "chan" and it["stmt"].kind == kind \
                    and it["stmt"].table == table:
                yield it

    def _check_delete(self, path, e, prior, loops, later):
        st = e["stmt"]
        tbl = st.table
        eq = e["binds"]["where_eq"]
        # parent role
        for (ctab, f, pk) in self.children.get(tbl, []):
            self.counts["fk_delete"] += 1
            ok, how = self._covered(e, eq, tbl, ctab, f, pk, prior, loops)
            if not ok and self._coverage_unproved(ctab, f, prior):
                self.unproved.append(
                    "%s: rows of `%s` are deleted earlier in the transaction by their own "
                    "key, but the analyser cannot relate that selection to the deleted "
                    "`%s` rows (%s)" % (construct_of(e), ctab, tbl, how))
                continue
            self.add("fk_delete", "%s [child %s]" % (construct_of(e), ctab), e, ok,
                     how if ok else
                     "rows of `%s` referencing the deleted `%s` rows are not "
                     "deleted earlier in the same transaction (%s): FOREIGN KEY "
                     "constraint can fail" % (ctab, tbl, how), path,
                     None if ok else "IntegrityError")
        # child role: side rows disappear only together with their parent
        for (ptab, f, pk) in self.parents.get(tbl, []):
            if ptab == "mailboxes" and tbl == "nameplates":
                continue  # nameplates are retired on their own (release)
            self.counts["child_delete"] += 1
            ok, how = self._paired_with_parent(e, eq, tbl, ptab, f, pk, later, loops)
            self.add("child_delete", construct_of(e), e, ok,
                     how if ok else
                     "rows of `%s` are deleted without deleting their `%s` row "
                     "in the same transaction (%s)" % (tbl, ptab, how), path)

    def _coverage_unproved(self, ctab, f, prior):
        """a child delete keyed by the FK column or by the child's own primary
        key precedes the parent delete, in a shape none of the coverage idioms
        recognises: neither proved nor refuted"""
        ctable = self.schema.tables[ctab]
        cpk = ctable.pk[0] if ctable.pk else None
        for x in sql_in(prior):
            if x["stmt"].kind == "delete" and x["stmt"].table == ctab:
                cols = set()
                for conj in x["binds"]["dnf"]:
                    for (c, op, term) in conj:
                        cols.add(c)
                if cols and cols <= {f, cpk, "app_id"} - {None}:
                    return True
        return False

    def _covered(self, e, eq, ptab, ctab, f, pk, prior, loops):
        binds = e["binds"]
        if eq is None:
            return False, "parent delete has a non-conjunctive WHERE"
        if not eq:
            # DELETE FROM parent without WHERE: children must be emptied too
            for it in self._prior_sql(prior, ctab):
                if it["binds"]["where_eq"] == {}:
                    return True, "whole child table emptied first"
            return False, "unconditional parent delete"
        if pk in eq and len(eq) >= 1:
            key = eq[pk]
            for it in self._prior_sql(prior, ctab):
                ceq = it["binds"]["where_eq"]
                if ceq is not None and ceq == {f: key}:
                    return True, "child delete keyed by the same value"
                if ceq is None and self._in_subselect(it, f, ptab, pk, {pk: key}):
                    return True, "child delete keyed by sub-select on the parent key"
            # idiom 4: for r in SELECT * FROM C WHERE f=key: DELETE FROM C WHERE cpk=r[cpk]
            r4 = self._loop_over_children(key, ptab, ctab, f, pk, prior)
            if r4:
                return True, r4
            # idiom 3: collect-then-delete loops
            if key[0] == "elem":
                r = self._idiom3(key, ptab, ctab, f, pk, prior)
                if r:
                    return True, r
            return False, "no delete on `%s` keyed %s=%s precedes it" % (ctab, f, show(key)[:60])
        # parent selected by a non-key column g = v
        for it in self._prior_sql(prior, ctab):
            if self._in_subselect(it, f, ptab, pk, eq):
                return True, "child delete keyed by sub-select with the parent's own condition"
        # a loop that deletes the children of each selected parent row first
        for it in prior:
            if it["k"] == "loop":
                r = self._loop_deletes_children(it, eq, ptab, ctab, f, pk)
                if r:
                    return True, r
        return False, "parent rows are selected by %s; no child delete uses that " \
            "selection" % ",".join(sorted(eq))

    def _in_subselect(self, it, f, ptab, pk, parent_eq):
        dnf = it["binds"]["dnf"]
        if len(dnf) != 1 or len(dnf[0]) != 1:
            return False
        (col, op, val) = dnf[0][0]
        if col != f or op != "in" or val[0] != "subselect":
            return False
        _, stab, scols, seq = val
        if stab != ptab or tuple(scols) != (pk,) or seq is None:
            return False
        return dict(seq) == dict(parent_eq)

    def _loop_deletes_children(self, loop, parent_eq, ptab, ctab, f, pk):
        """for r in SELECT .. FROM P WHERE <parent_eq>: DELETE FROM C WHERE f=r[pk]"""
        it = strip_wrappers(loop["iter"]) if loop["iter"] else None
        if not it or it[0] != "rows":
            return None
        sel = self.model.interp.sql_sites.get(it[1])
        if sel is None or sel.table != ptab:
            return None
        # the select's bindings must equal the parent delete's
        found = None
        for alt in loop["alts"]:
            if alt["out"] != "normal":
                continue
            ok = False
            for x, _ in flat_events(alt["events"]):
                if x["k"] == "sql" and x["stmt"].kind == "delete" and x["stmt"].table == ctab:
                    ceq = x["binds"]["where_eq"]
                    if ceq and set(ceq) == {f}:
                        v = ceq[f]
                        if v[0] == "sub" and v[1][0] == "elem" and \
                                strip_wrappers(v[1][1]) == it and v[2] == ("const", pk):
                            ok = True
            if not ok:
                return None
            found = True
        if not found:
            return None
        return "loop over the selected parent rows deletes their children first"

    def _loop_over_children(self, key, ptab, ctab, f, pk, prior):
        ctable = self.schema.tables[ctab]
        cpk = ctable.pk[0] if ctable.pk else None
        if cpk is None:
            return None
        for it in prior:
            if it["k"] != "loop" or not it["iter"]:
                continue
            rows = strip_wrappers(it["iter"])
            if rows[0] != "rows":
                continue
            sel = None
            for x in prior:
                if x["k"] == "sql" and x["site"] == rows[1]:
                    sel = x
            if sel is None or sel["stmt"].table != ctab or \
                    sel["binds"]["where_eq"] != {f: key}:
                continue
            good = True
            for alt in it["alts"]:
                if alt["out"] != "normal":
                    good = False
                    break
                found = False
                for x, _ in flat_events(alt["events"]):
                    if x["k"] == "sql" and x["stmt"].kind == "delete" and \
                            x["stmt"].table == ctab:
                        ceq = x["binds"]["where_eq"]
                        if ceq and set(ceq) == {cpk}:
                            v = ceq[cpk]
                            if v[0] == "sub" and v[2] == ("const", cpk) and \
                                    v[1][0] == "elem" and strip_wrappers(v[1][1]) == rows:
                                found = True
                if not found:
                    good = False
                    break
            if good and it["alts"]:
                return ("every `%s` row selected by %s = the parent key is deleted in "
                        "a loop of the same transaction" % (ctab, f))
        return None

    def _idiom3(self, key, ptab, ctab, f, pk, prior):
        """parent delete keyed by elem(collP); an earlier loop over collC deletes
        the child rows whose f is in collP (prune's old_nameplates / old_mailboxes
        form)"""
        collP = strip_wrappers(key[1])
        while collP[0] == "slice":
            # parents are deleted for a slice of collP only: a subset of the
            # parents whose children the earlier loop removed
            collP = strip_wrappers(collP[1])
        if collP[0] != "coll":
            return None
        interp = self.model.interp
        ctable = self.schema.tables[ctab]
        cpk = ctable.pk[0] if ctable.pk else None
        for it in prior:
            if it["k"] != "loop" or not it["iter"]:
                continue
            collC = strip_wrappers(it["iter"])
            if collC[0] != "coll":
                continue
            # every normal alternative deletes C where cpk = elem(collC)
            alts_ok = True
            for alt in it["alts"]:
                if alt["out"] in ("break", "return"):
                    alts_ok = False     # the child loop may stop early
                if alt["out"] != "normal":
                    continue
                found = False
                for x, _ in flat_events(alt["events"]):
                    if x["k"] == "sql" and x["stmt"].kind == "delete" and \
                            x["stmt"].table == ctab:
                        ceq = x["binds"]["where_eq"]
                        if ceq and set(ceq) == {cpk} and ceq[cpk][0] == "elem" and \
                                strip_wrappers(ceq[cpk][1]) == collC:
                            found = True
                if not found:
                    alts_ok = False
            if not alts_ok:
                continue
            adds = interp.coll_adds.get(collC[1], [])
            if not adds:
                continue
            good = True
            for a in adds:
                el = a["elem"]
                # elem must be row[cpk] of a row of SELECT FROM C
                if not (el[0] == "sub" and el[2] == ("const", cpk) and el[1][0] == "elem"):
                    good = False
                    break
                rows = strip_wrappers(el[1][1])
                sel = interp.sql_sites.get(rows[1]) if rows[0] == "rows" else None
                if sel is None or sel.table != ctab or sel.kind != "select":
                    good = False
                    break
                # guarded by  row[f] in collP
                guard = ("cmp", "in", ("sub", el[1], ("const", f)), collP)
                truth = pc_truth(a["pc"])
                if truth.get(guard) is not True:
                    good = False
                    break
                # the select may be restricted to this app only (insert-side
                # fact: a nameplate and its mailbox carry the same app_id)
                extra = set()
                if sel.where is not None:
                    for leaf in sel.where.leaves():
                        extra.add(leaf.col)
                if extra - {"app_id"}:
                    good = False
                    break
            if good:
                return ("collect-then-delete: `%s` rows whose %s is in the old set "
                        "are collected and deleted in an earlier loop of the same "
                        "transaction" % (ctab, f))
        return None

    def _paired_with_parent(self, e, eq, ctab, ptab, f, pk, later, loops):
        """a delete on child table ctab is followed, in the same transaction,
        by the delete of the parents it belongs to"""
        def later_sql():
            for x in later:
                if x["k"] == "commit" and x["db"] == "chan":
                    return
                if x["k"] == "sql" and x["db"] == "chan":
                    yield x
                if x["k"] == "loop":
                    return

        if eq is not None and set(eq) == {f}:
            key = eq[f]
            for x in later_sql():
                if x["stmt"].kind == "delete" and x["stmt"].table == ptab:
                    peq = x["binds"]["where_eq"]
                    if peq is not None and peq.get(pk) == key and len(peq) == 1:
                        return True, "parent deleted by the same key afterwards"
            return False, "no delete on `%s` keyed %s=%s follows before the commit" % (
                ptab, pk, show(key)[:50])
        dnf = e["binds"]["dnf"]
        if len(dnf) == 1 and len(dnf[0]) == 1 and dnf[0][0][1] == "in" and \
                dnf[0][0][0] == f and dnf[0][0][2][0] == "subselect":
            _, stab, scols, seq = dnf[0][0][2]
            if stab == ptab and tuple(scols) == (pk,) and seq is not None:
                for x in later_sql():
                    if x["stmt"].kind == "delete" and x["stmt"].table == ptab:
                        peq = x["binds"]["where_eq"]
                        if peq is not None and peq == dict(seq):
                            return True, "parents selected by the same condition are deleted afterwards"
                return False, "the parents selected by the sub-select are not deleted afterwards"
        if eq is not None and f in eq and len(eq) > 1:
            return False, "child rows are deleted selectively (%s)" % ",".join(sorted(eq))
        return False, "child delete is not keyed by its parent (%s)" % (
            e["stmt"].where.render() if e["stmt"].where else "no WHERE")

    def _check_usage_handle(self, path, e):
        """the usage database is optional: its handle is None unless configured,
        so every statement on it must be dominated by a test of the handle"""
        h = e.get("handle")
        if h != ("cfg", "usage_db"):
            return
        known = pc_truth(e["pc"]).get(("cfg", "usage_db"))
        if known is True:
            return
        what = construct_of(e) if e["k"] == "sql" else "%s: commit(usage)" % e["func"]
        self.add("nullhandle", "%s [usage handle tested]" % what, e, False,
                 "the statement runs on the usage-database handle without a test that one is "
                 "configured: with no usage database the handle is None and the call raises "
                 "AttributeError", path, "AttributeError")

    def _check_usage_insert(self, path, e):
        """usage records are appended without looking first: a declared UNIQUE
        key on their table makes the INSERT (and the command it belongs to)
        fail when a record with the same values exists"""
        st = e["stmt"]
        table = self.repo.usage_schema().tables.get(st.table)
        if table is None:
            return
        vals = e["binds"]["set"]
        for key in [tuple(k) for k in table.unique_keys()]:
            if table.autoinc_col() and key == (table.autoinc_col(),) and key[0] not in vals:
                continue
            if not all(c in vals for c in key):
                continue
            self.counts["unique"] += 1
            conflict = str(st.extra.get("or") or "").upper()
            ok = conflict in ("IGNORE", "REPLACE")
            self.add("unique", "%s [usage key %s]%s" % (construct_of(e), ",".join(key),
                                                         "" if ok else " !unguarded"),
                     e, ok, "" if ok else "usage `%s` declares (%s) unique and the record is "
                     "inserted without looking first: a second record with the same values "
                     "raises IntegrityError inside the command that writes it" % (
                         st.table, ",".join(key)), path, None if ok else "IntegrityError")

    # -- insert side -------------------------------------------------------------------
    def _check_insert(self, path, e, prior, loops, later, before):
        st = e["stmt"]
        tbl = st.table
        vals = e["binds"]["set"]
        truth = pc_truth(e["pc"])
        # (1) FK: parent exists
        for (ptab, f, pk) in self.parents.get(tbl, []):
            if f not in vals:
                continue
            self.counts["fk_insert"] += 1
            ok, how = self._parent_known(path, e, ptab, pk, vals[f], truth)
            self.add("fk_insert", "%s [parent %s]" % (construct_of(e), ptab), e, ok,
                     how if ok else "no fact on the path shows that the `%s` row %s "
                     "exists when the `%s` row is inserted" % (ptab, show(vals[f])[:50], tbl),
                     path, None if ok else "IntegrityError")
        # (2) uniqueness guard
        table = self.schema.tables.get(tbl)
        declared = [tuple(k) for k in table.unique_keys()] if table else []
        logical = LOGICAL_KEYS.get(tbl)
        keys = []
        if logical:
            keys.append(tuple(logical))
        for d in declared:
            if table.autoinc_col() and d == (table.autoinc_col(),) and d[0] not in vals:
                continue
            keys.append(d)
        for key in keys:
            self.counts["unique"] += 1
            ok, how, mr = self._guarded(path, e, tbl, key, vals, truth, declared)
            conflict = (st.extra.get("or") or "")
            if conflict and str(conflict).upper() in ("IGNORE", "REPLACE") and table is not None \
                    and key in declared and "app_id" in table.colnames() and "app_id" not in key:
                ok = False
                mr = None
                how = ("INSERT OR %s on `%s`, whose declared key (%s) is wider than one app: a "
                       "conflicting row of ANOTHER app is silently %s, and the caller goes "
                       "on as if the row were its own" % (
                           str(conflict).upper(), tbl, ",".join(key),
                           "kept" if str(conflict).upper() == "IGNORE" else "overwritten"))
            variant = ""
            if not ok:
                variant = " !" + ("conflict-clause" if conflict else
                                  "wider-guard" if "declared unique key" in how or
                                  "logical key is" in how else
                                  "unguarded" if "no guarding SELECT" in how else "guard")
            self.add("unique", "%s [key %s]%s" % (construct_of(e), ",".join(key), variant),
                     e, ok, how, path, mr)
        # (3) parent insert accompanied by a child insert in the same transaction
        for (ctab, f, pk) in self.children.get(tbl, []):
            if ctab == "nameplates" and tbl == "mailboxes":
                continue  # a mailbox need not have a nameplate
            self.counts["parent_insert"] += 1
            keyterm = vals.get(pk)
            if keyterm is None:
                keyterm = ("lastrowid", e["site"])
            ok = False
            boundary = None
            for x in later:
                if x["k"] == "commit" and x["db"] == "chan":
                    boundary = x
                    break
                if x["k"] == "sql" and x["db"] == "chan" and x["stmt"].kind == "insert" \
                        and x["stmt"].table == ctab and x["binds"]["set"].get(f) == keyterm:
                    ok = True
                    break
            self.add("parent_insert", "%s [first %s row]" % (construct_of(e), ctab), e, ok,
                     "child row inserted in the same transaction" if ok else
                     "the new `%s` row is committed (%s) before its first `%s` row is "
                     "inserted: a crash in between leaves a `%s` row without any `%s` row"
                     % (tbl, ("commit at %s:%d" % (boundary["site"][0], boundary["site"][1]))
                        if boundary else "end of the handler", ctab, tbl, ctab), path)

    def _events_before(self, path, e):
        """flat list of the events of the path that precede e (on e's own
        nesting chain)"""
        out = []

        def rec(events):
            for x in events:
                if x is e:
                    return True
                if x["k"] == "loop":
                    for alt in x["alts"]:
                        mark = len(out)
                        if rec(alt["events"]):
                            return True
                        del out[mark:]
                    # loop not containing e: its statements are 'before'
                    for alt in x["alts"]:
                        for y, _ in flat_events(alt["events"]):
                            out.append(y)
                else:
                    out.append(x)
            return False
        rec(path.events)
        return out

    def _parent_known(self, path, e, ptab, pk, term, truth):
        if term[0] == "lastrowid":
            st = self.model.interp.sql_sites.get(term[1])
            if st is not None and st.kind == "insert" and st.table == ptab:
                return True, "key is the rowid of the parent inserted on this path"
        if term[0] == "sub" and term[1][0] == "row" and term[2] == ("const", pk):
            st = self.model.interp.sql_sites.get(term[1][1])
            if st is not None and st.table == ptab:
                return True, "key read from a fetched `%s` row" % ptab
        for x in self._events_before(path, e):
            if x["k"] != "sql" or x["db"] != "chan" or x["stmt"].table != ptab:
                continue
            if x["stmt"].kind == "insert" and x["binds"]["set"].get(pk) == term:
                return True, "parent row inserted earlier on the path"
            if x["stmt"].kind == "select":
                eq = x["binds"]["where_eq"]
                if eq and eq.get(pk) == term:
                    row = ("row", x["site"])
                    if x.get("verdict") is True or truth.get(row) is True:
                        return True, "parent row selected (present) earlier on the path"
        return False, ""

    def _guarded(self, path, e, tbl, key, vals, truth, declared):
        """-> ok, text, may_raise"""
        if not all(k in vals for k in key):
            return True, "key column(s) not all inserted explicitly (rowid key)", None
        want = dict((k, vals[k]) for k in key)
        before = self._events_before(path, e)
        guard = None
        for x in reversed(before):
            if x["k"] == "sql" and x["db"] == "chan" and x["stmt"].table == tbl:
                if x["stmt"].kind == "insert":
                    break
                if x["stmt"].kind == "select" and x["binds"]["where_eq"] is not None:
                    guard = x
                    break
        if guard is None:
            return False, "no guarding SELECT on `%s` precedes the INSERT: duplicate " \
                "rows for key (%s) are possible" % (tbl, ",".join(key)), \
                ("IntegrityError" if key in declared else None)
        geq = guard["binds"]["where_eq"]
        row = ("row", guard["site"])
        absent = (guard.get("verdict") is False) or (truth.get(row) is False)
        if not absent:
            return False, "the INSERT is not confined to the branch where the " \
                "guarding SELECT (%s:%d) found no row" % (guard["site"][0], guard["site"][1]), \
                ("IntegrityError" if key in declared else None)
        if geq == want:
            return True, "guard select keyed exactly by (%s), absent branch" % ",".join(key), None
        if set(geq) > set(key) and all(geq[k] == want[k] for k in key):
            return False, "the guard filters on (%s) but the %s key is (%s): 'no such " \
                "row' does not imply the INSERT cannot collide" % (
                    ",".join(sorted(geq)), "declared unique" if key in declared else "logical",
                    ",".join(key)), ("IntegrityError" if key in declared else None)
        return False, "the guard select is keyed by (%s), not by the key (%s) with the " \
            "inserted values" % (",".join(sorted(geq)), ",".join(key)), \
            ("IntegrityError" if key in declared else None)

    # -- invariants ---------------------------------------------------------------------
    def _invariants(self):
        """child-non-empty invariants P -> C: crash-stable iff every parent
        insert has its child insert in the same transaction and every child
        delete is paired with its parent's delete"""
        for (ptab, ctab) in (("nameplates", "nameplate_sides"),
                             ("mailboxes", "mailbox_sides")):
            reasons = []
            for f in self.findings:
                if f.kind == "parent_insert" and not f.ok and \
                        f.event["stmt"].table == ptab and ("[first %s row]" % ctab) in f.construct:
                    reasons.append(f)
                if f.kind == "child_delete" and not f.ok and f.event["stmt"].table == ctab:
                    reasons.append(f)
            self.invariants[(ptab, ctab)] = reasons

    # -- E3' ----------------------------------------------------------------------------------
    def _index_sites(self, path):
        self._index_walk(path, path.events, {})

    def _index_walk(self, path, events, selects):
        for e in events:
            k = e["k"]
            if k == "sql" and e["stmt"].kind == "select":
                selects[e["site"]] = e
            elif k in ("reg_set", "reg_get") and e.get("key") is not None:
                selects[("regkey", e["reg"], plain(e["key"]))] = e
            elif k == "reg_del" and (e.get("how") in ("del", "remove") or
                                     (e.get("how") == "pop" and e.get("nargs") == 1)) and \
                    e.get("key") is not None and e["reg"][0] == "reg":
                if id(e) in self._done_idx:
                    continue
                self._done_idx.add(id(e))
                self._regdel_one(path, e, selects)
            elif k == "loop":
                if id(e) in self._done_idx:
                    continue
                self._done_idx.add(id(e))
                for alt in e["alts"]:
                    self._index_walk(path, alt["events"], dict(selects))
            elif k == "pure":
                if id(e) in self._done_idx:
                    continue
                self._done_idx.add(id(e))
                for evs in e["alt_events"]:
                    self._index_walk(path, evs, dict(selects))
            elif k == "index":
                if id(e) in self._done_idx:
                    continue
                self._done_idx.add(id(e))
                self._index_one(path, e, selects)

    def _regdel_one(self, path, e, selects):
        """del R[k] / R.remove(k) raises when k is absent: the key must be known
        to be present (stored or fetched on the path, or tested `k in R`)"""
        reg, key = e["reg"], plain(e["key"])
        self.counts["index"] += 1
        construct = "%s: del %s[%s]" % (e["func"], reg[2], _name_of(key))
        present = ("regkey", reg, key) in selects
        absent = False
        for t, v in pc_truth(e["pc"]).items():
            if t[0] == "cmp" and t[1] == "in" and plain(t[2]) == key and t[3] == reg:
                if v is True:
                    present = True
                elif v is False:
                    absent = True
        if ("regkey", reg, key) in selects:
            absent = False   # stored / fetched after any earlier absence test
        if present and not absent:
            self.add("index", construct, e, True, "the key is known to be in the registry "
                     "on this path", path)
            return
        self.add("index", construct, e, False,
                 "the key is %s: the deletion raises KeyError" % (
                     "absent on this path (the object was not taken from the registry)"
                     if absent else "not known to be in the registry"), path, "KeyError")

    def _index_one(self, path, e, selects):
        if True:
            if not (is_const(e["key"]) and isinstance(e["key"][1], int)):
                return
            self.counts["index"] += 1
            base = e["base"]
            inner = strip_wrappers(base)
            rows = None
            if inner[0] == "rows":
                rows = inner
            elif inner[0] == "comp" and not inner[4]:
                it = strip_wrappers(inner[3])
                if it[0] == "rows":
                    rows = it
            construct = "%s: %s[%s]" % (e["func"], _name_of(base), e["key"][1])
            truth = pc_truth(e["pc"])
            guarded = False
            need = e["key"][1] + 1 if e["key"][1] >= 0 else -e["key"][1]
            for t, v in truth.items():
                if _len_lower_bound(t, v, (base, inner)) >= need:
                    guarded = True
            if guarded:
                self.add("index", construct, e, True, "emptiness of the list is tested "
                         "on the path before the subscript", path)
                return
            if rows is None:
                # not a list derived from fetched rows (e.g. a client-supplied
                # JSON value): outside E3' (C17 does not decide non-string fields)
                return
            sel = selects.get(rows[1])
            if sel is None:
                self.add("index", construct, e, False,
                         "select feeding the list not found on the path", path, "IndexError")
                return
            if sel.get("verdict") is True:
                self.add("index", construct + " <- %s" % construct_of(sel), e, True,
                         "a row matching the select is known to exist on this path", path)
                return
            ctab = sel["stmt"].table
            eq = sel["binds"]["where_eq"]
            inv = None
            for (ptab, f, pk) in self.parents.get(ctab, []):
                if eq is not None and set(eq) == {f} and (ptab, ctab) in self.invariants:
                    inv = (ptab, ctab)
            if inv is None:
                self.add("index", construct + " <- %s" % construct_of(sel), e, False,
                         "nothing shows that the select returns a row", path, "IndexError")
                return
            reasons = self.invariants[inv]
            ok = not reasons
            if not ok:
                self.unguarded_consumers.setdefault(inv, []).append(construct)
            self.add("index", construct + " <- %s" % construct_of(sel), e, ok,
                     ("relies on the invariant 'every `%s` row has a `%s` row', which is "
                      "crash-stable" % inv) if ok else
                     ("relies on 'every `%s` row has at least one `%s` row', which is not "
                      "maintained: %s" % (inv[0], inv[1], "; ".join(
                          "%s (%s)" % (r.construct, r.site) for r in reasons[:3]))),
                     path, None if ok else "IndexError")

    # -- may-raise ---------------------------------------------------------------------------
    def require_proved(self):
        if self.unproved:
            raise AnalysisError("E3 cannot decide foreign-key coverage: " + self.unproved[0])

    def may_raise(self):
        self.require_proved()
        return [f for f in self.findings if not f.ok and f.may_raise]

    def occurrences(self, f):
        """every event of the runtime paths at the site of finding f (a finding
        keeps one sample event; which handlers / sweeps reach the site must not
        depend on which sample that is)"""
        idx = getattr(self, "_site_index", None)
        if idx is None:
            from .events import each_event
            idx = {}
            seen = set()
            for _p, e, _l in each_event(self.model, self.model.runtime_entries()):
                if "site" not in e or id(e) in seen:
                    continue
                seen.add(id(e))
                idx.setdefault((e["k"], e["site"][:2]), []).append(e)
            self._site_index = idx
        ev = f.event
        occ = idx.get((ev["k"], ev["site"][:2]), [])
        if f.may_raise == "IntegrityError" and ev["k"] == "sql":
            # an INSERT whose key is a freshly drawn random id cannot collide
            # (assumption of C03): that occurrence cannot raise
            def fresh(x):
                vals = list((x.get("binds") or {}).get("set", {}).values())
                return any(mentions(v, lambda t: isinstance(t, tuple) and len(t) > 1 and
                                    t[0] == "call" and t[1] == "os.urandom") for v in vals)
            schema = self.model.repo.channel_schema()

            def fk_backed(x):
                # the key is read from a column that REFERENCES this table's
                # key: the referenced row exists, the guard in front of the
                # INSERT finds it and the INSERT is not reached
                tbl = x["stmt"].table
                for col, v in (x.get("binds") or {}).get("set", {}).items():
                    v = plain(v)
                    if v[0] == "sub" and v[1][0] == "row" and is_const(v[2]):
                        src = idx.get(("sql", v[1][1][:2]), [])
                        for se in src:
                            t = schema.tables.get(se["stmt"].table)
                            if t is not None and any(
                                    c == v[2][1] and rt == tbl and (rc in (None, col))
                                    for (c, rt, rc) in t.fks):
                                return True
                return False
            kept = [x for x in occ if not fresh(x) and not fk_backed(x)]
            occ = kept or occ[:0]
            if not occ:
                return [ev] if not (fresh(ev) or fk_backed(ev)) else []
        return occ or [ev]

    def by_kind(self, kind):
        if kind in ("fk_delete",):
            self.require_proved()
        return [f for f in self.findings if f.kind == kind]


def _len_lower_bound(t, v, lists):
    """the least length of one of `lists` that the condition t == v implies
    (0 when it implies nothing)"""
    while t[0] in ("not", "truth"):
        if t[0] == "not":
            v = not v
        t = t[1]
    if t in lists:
        return 1 if v else 0
    if t[0] == "cmp" and len(t) == 4:
        op, a, b = t[1], t[2], t[3]
        flip = {"<": ">", ">": "<", "<=": ">=", ">=": "<=", "==": "==", "!=": "!="}
        if is_const(a) and not is_const(b):
            a, b = b, a
            op = flip.get(op, op)
        if a[0] == "call" and a[1] == "len" and a[2] and a[2][0] in lists and \
                is_const(b) and isinstance(b[1], int):
            c = b[1]
            if not v:
                op = {"<": ">=", ">": "<=", "<=": ">", ">=": "<", "==": "!=",
                      "!=": "=="}.get(op, op)
            if op == ">":
                return c + 1
            if op in (">=", "=="):
                return c
            if op == "!=" and c == 0:
                return 1
    return 0


def _name_of(t):
    s = show(t)
    return s if len(s) < 40 else s[:37] + "..."


_cache = {}


def get(model):
    if id(model) not in _cache:
        _cache[id(model)] = E3(model)
    return _cache[id(model)]


class Tx(tuple):
    """(path, event, prior, later, loops) + .alt_pc (conditions of the
    innermost loop alternative, or of the path)"""
    alt_pc = ()


def walk_transactions(model, entries=None, db="chan"):
    """yield (path, event, prior, later, loops) for every SQL event on `db`,
    each event object once.  prior = earlier items of the same transaction
    (sql events and commit-free loop composites); later = following events of
    the same event list up to (not including) the next commit."""
    entries = entries or ["ws:onMessage", "ws:onClose", "ws:onOpen",
                          "ws:onConnect", "timer"]
    done = set()
    out = []

    def walk(path, events, prior, loops, alt=None):
        prior = list(prior)
        for idx, e in enumerate(events):
            k = e["k"]
            if k == "commit" and e["db"] == db:
                prior = []
            elif k == "loop":
                has_commit = any(x["k"] == "commit" and x["db"] == db
                                 for alt in e["alts"]
                                 for x, _ in flat_events(alt["events"]))
                if id(e) not in done:
                    done.add(id(e))
                    for a2 in e["alts"]:
                        walk(path, a2["events"], [] if has_commit else prior,
                             loops + (e,), a2)
                if has_commit:
                    prior = []
                else:
                    prior.append(e)
            elif k == "sql" and e["db"] == db:
                if True:
                    later = []
                    for x in events[idx + 1:]:
                        if x["k"] == "commit" and x["db"] == db:
                            break
                        later.append(x)
                    tx = Tx((path, e, list(prior), later, loops))
                    tx.alt_pc = alt["pc"] if alt is not None else path.pc
                    out.append(tx)
                prior.append(e)

    for en in entries:
        for p in model.paths(en):
            walk(p, p.events, [], ())
    return out


def sql_in(items, db="chan"):
    """sql events among transaction items, descending into loop composites"""
    for it in items:
        if it["k"] == "sql" and it["db"] == db:
            yield it
        elif it["k"] == "loop":
            for alt in it["alts"]:
                for x, _ in flat_events(alt["events"]):
                    if x["k"] == "sql" and x["db"] == db:
                        yield x
