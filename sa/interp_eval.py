"""E1, expressions, branch decisions."""
import ast

from .repo import AnalysisError, dotted
from .interp import Outcome, NORMAL, CFG_CLASSES
from .terms import NONE, TRUE, FALSE, const, is_const, plain

BUILTINS = {"len", "sorted", "set", "list", "dict", "bool", "sum", "any",
            "all", "int", "str", "float", "range", "enumerate", "isinstance",
            "type", "min", "max", "tuple", "repr", "print", "abs", "round",
            "zip", "map", "filter", "iter", "next", "hasattr", "getattr",
            "setattr", "super", "open", "frozenset", "reversed", "id", "hash",
            "bytes", "object", "divmod", "callable", "format", "vars"}
EXC_BUILTINS = {"Exception", "ValueError", "KeyError", "IndexError",
                "TypeError", "EnvironmentError", "OSError", "IOError",
                "AssertionError", "RuntimeError", "BaseException",
                "AttributeError", "LookupError", "FileNotFoundError",
                "NotImplementedError", "StopIteration"}

CMP_OPS = {ast.Eq: "==", ast.NotEq: "!=", ast.Lt: "<", ast.LtE: "<=",
           ast.Gt: ">", ast.GtE: ">=", ast.Is: "is", ast.IsNot: "isnot",
           ast.In: "in", ast.NotIn: "notin"}
BIN_OPS = {ast.Add: "+", ast.Sub: "-", ast.Mult: "*", ast.Div: "/",
           ast.FloorDiv: "//", ast.Mod: "%", ast.Pow: "**", ast.BitOr: "|",
           ast.BitAnd: "&", ast.BitXor: "^", ast.LShift: "<<",
           ast.RShift: ">>", ast.MatMult: "@"}


NON_NONE_CTORS = frozenset((
    "Counter", "dict", "list", "set", "frozenset", "tuple", "defaultdict", "OrderedDict",
    "deque", "str", "int", "float", "bytes", "bool", "sorted", "len", "range"))

class EvalMixin(object):

    # -- entry ---------------------------------------------------------------
    def eval(self, node, state, frame):
        """-> list of (state, term | Outcome)"""
        m = getattr(self, "ex_" + type(node).__name__, None)
        if m is None:
            raise AnalysisError("expression kind %s not modelled (%s:%s)" % (
                type(node).__name__, frame.func.module,
                getattr(node, "lineno", "?")))
        return m(node, state, frame)

    def eval_seq(self, nodes, state, frame):
        """-> list of (state, [terms] | Outcome)"""
        res = [(state, [])]
        for n in nodes:
            nxt = []
            for (s, vals) in res:
                if isinstance(vals, Outcome):
                    nxt.append((s, vals))
                    continue
                for (s2, v) in self.eval(n, s, frame):
                    if isinstance(v, Outcome):
                        nxt.append((s2, v))
                    else:
                        nxt.append((s2, vals + [v]))
            res = nxt
        return res

    # -- leaves ------------------------------------------------------------
    def ex_Constant(self, node, state, frame):
        return [(state, const(node.value))]

    def lookup_name(self, name, state, frame):
        f = frame
        while f is not None:
            env = state.envs.get(f.fid)
            if env is not None and name in env:
                return env[name]
            f = f.cells
        mod = self.repo.modules[frame.func.module]
        if name in mod.functions:
            return ("func", mod.name, name)
        if name in mod.classes:
            return ("class", name)
        if name in mod.constants:
            return self.module_const(mod, name)
        if name in mod.imports:
            origin = mod.imports[name]
            # from .server import make_server  ->  internal function/class
            if origin.startswith("."):
                parts = origin.lstrip(".").split(".")
                if len(parts) == 2 and parts[0] in self.repo.modules:
                    m2 = self.repo.modules[parts[0]]
                    if parts[1] in m2.functions:
                        return ("func", m2.name, parts[1])
                    if parts[1] in m2.classes:
                        return ("class", parts[1])
                    if parts[1] in m2.constants:
                        return self.module_const(m2, parts[1])
                return ("mod", origin.lstrip("."))
            return ("mod", origin)
        if name in BUILTINS:
            return ("builtin", name)
        if name in EXC_BUILTINS:
            return ("excclass", name)
        if name in ("True", "False", "None"):
            return const({"True": True, "False": False, "None": None}[name])
        return ("unknown", "name:" + name)

    def module_const(self, mod, name, depth=0):
        node = mod.constants[name]
        if isinstance(node, ast.Dict) and node.keys and \
                all(isinstance(k, ast.Constant) for k in node.keys) and \
                not self._module_name_mutated(mod, name):
            # a table: a dict literal with literal keys that nothing in the
            # module stores into
            key = ("table", id(node))
            if key not in self._fold_cache:
                self._fold_cache[key] = ("dictlit", tuple(
                    (const(k.value), self.fold(v, mod, depth + 1))
                    for k, v in zip(node.keys, node.values)))
            return self._fold_cache[key]
        return self.fold(node, mod, depth)

    def _module_name_mutated(self, mod, name):
        for n in ast.walk(mod.tree):
            if isinstance(n, ast.Subscript) and isinstance(n.ctx, (ast.Store, ast.Del)) and \
                    isinstance(n.value, ast.Name) and n.value.id == name:
                return True
            if isinstance(n, ast.Call) and isinstance(n.func, ast.Attribute) and \
                    isinstance(n.func.value, ast.Name) and n.func.value.id == name and \
                    n.func.attr in ("update", "pop", "setdefault", "clear", "popitem",
                                    "__setitem__", "__delitem__"):
                return True
            if isinstance(n, ast.Global) and name in n.names:
                return True
        return False

    def _nt_class_fields(self, mod, cname):
        """field names of `class X(NamedTuple): a: T; b: T = d` (typing style)"""
        cd = mod.classes.get(cname)
        if cd is None:
            return None
        node = cd["node"]
        if not any((dotted(b) or "").split(".")[-1] == "NamedTuple" for b in node.bases):
            return None
        fields = []
        for st in node.body:
            if isinstance(st, ast.AnnAssign) and isinstance(st.target, ast.Name):
                fields.append((st.target.id, st.value))
        return fields

    def fold(self, node, mod, depth=0):
        """constant folding of module-level expressions (memoised)"""
        key = id(node)
        if key not in self._fold_cache:
            self._fold_cache[key] = self._fold(node, mod, depth)
        return self._fold_cache[key]

    def _fold(self, node, mod, depth=0):
        if depth > 8:
            return ("unknown", "fold-depth")
        try:
            v = ast.literal_eval(node)
            hash(v)
            if isinstance(v, (set, frozenset, list, dict)):
                raise TypeError("mutable")
            return const(v)
        except Exception:
            pass
        if isinstance(node, (ast.Dict, ast.List, ast.Set)) or (
                isinstance(node, ast.Call) and dotted(node.func) in (
                    "set", "dict", "list", "collections.defaultdict", "defaultdict")):
            return ("modstate", getattr(node, "lineno", 0))
        if isinstance(node, ast.Name):
            if node.id in mod.constants:
                return self.module_const(mod, node.id, depth + 1)
            return ("unknown", "name:" + node.id)
        if isinstance(node, ast.Tuple):
            # a tuple of other module constants
            return ("tuple", tuple(self.fold(e, mod, depth + 1) for e in node.elts))
        if isinstance(node, ast.BinOp):
            l = self.fold(node.left, mod, depth + 1)
            r = self.fold(node.right, mod, depth + 1)
            return self.binop(BIN_OPS.get(type(node.op), "?"), l, r)
        if isinstance(node, ast.UnaryOp) and isinstance(node.op, ast.USub):
            v = self.fold(node.operand, mod, depth + 1)
            if is_const(v):
                return const(-v[1])
        if isinstance(node, ast.Call) and dotted(node.func) in (
                "namedtuple", "collections.namedtuple") and len(node.args) >= 2:
            try:
                nm = ast.literal_eval(node.args[0])
                fields = ast.literal_eval(node.args[1])
                if isinstance(fields, str):
                    fields = fields.replace(",", " ").split()
                return ("ntclass", nm, tuple(fields))
            except Exception:
                pass
        if isinstance(node, ast.Call) and isinstance(node.func, ast.Name):
            fields = self._nt_class_fields(mod, node.func.id)
            if fields is not None and len(node.args) <= len(fields) and \
                    all(kw.arg for kw in node.keywords):
                vals = {}
                for i, a in enumerate(node.args):
                    vals[fields[i][0]] = self.fold(a, mod, depth + 1)
                for kw in node.keywords:
                    vals[kw.arg] = self.fold(kw.value, mod, depth + 1)
                for (f, d) in fields:
                    if f not in vals and d is not None:
                        vals[f] = self.fold(d, mod, depth + 1)
                return ("nt", node.func.id, tuple(
                    (f, vals.get(f, ("unknown", "nt-missing"))) for (f, _) in fields))
        return ("unknown", "modconst:" + (dotted(node) or type(node).__name__))

    def ex_Name(self, node, state, frame):
        if node.id == "self" and frame.self_term is not None:
            env = state.envs.get(frame.fid, {})
            if "self" not in env:
                return [(state, frame.self_term)]
        return [(state, self.lookup_name(node.id, state, frame))]

    def ex_JoinedStr(self, node, state, frame):
        parts = [v.value for v in node.values if isinstance(v, ast.FormattedValue)]
        out = []
        for (s, vals) in self.eval_seq(parts, state, frame):
            if isinstance(vals, Outcome):
                out.append((s, vals))
            else:
                # literal pieces and formatted values, in order
                it = iter(vals)
                pieces = []
                for v in node.values:
                    if isinstance(v, ast.FormattedValue):
                        pieces.append(next(it))
                    elif isinstance(v, ast.Constant):
                        pieces.append(const(v.value))
                if all(is_const(x) for x in pieces):
                    try:
                        out.append((s, const("".join(str(x[1]) for x in pieces))))
                        continue
                    except Exception:
                        pass
                out.append((s, ("call", "fstring", tuple(pieces), ())))
        return out

    def ex_Tuple(self, node, state, frame):
        out = []
        for (s, vals) in self.eval_seq(node.elts, state, frame):
            if isinstance(vals, Outcome):
                out.append((s, vals))
            else:
                out.append((s, ("tuple", tuple(vals))))
        return out

    def ex_List(self, node, state, frame):
        if not node.elts:
            return [(state, ("coll", self.site(frame, node), "list"))]
        out = []
        for (s, vals) in self.eval_seq(node.elts, state, frame):
            if isinstance(vals, Outcome):
                out.append((s, vals))
            else:
                out.append((s, ("tuple", tuple(vals))))
        return out

    def ex_Set(self, node, state, frame):
        return self.ex_List(node, state, frame)

    def ex_Dict(self, node, state, frame):
        if any(k is None for k in node.keys):
            raise AnalysisError("dict unpacking not modelled")
        out = []
        for (s, vals) in self.eval_seq(list(node.keys) + list(node.values),
                                       state, frame):
            if isinstance(vals, Outcome):
                out.append((s, vals))
            else:
                n = len(node.keys)
                out.append((s, ("dictlit", tuple(zip(vals[:n], vals[n:])))))
        return out

    def ex_Lambda(self, node, state, frame):
        from .repo import FuncInfo
        fd = ast.FunctionDef(name="<lambda>", args=node.args,
                             body=[ast.Return(value=node.body)],
                             decorator_list=[], returns=None)
        ast.copy_location(fd, node)
        ast.fix_missing_locations(fd)
        fi = FuncInfo(frame.func.module, frame.func.cls, fd, parent=frame.func)
        cid = (fi.qualname, node.lineno)
        self.closures[cid] = (fi, frame)
        self.__dict__.setdefault("closure_frames", {}).setdefault(cid, []).append(frame)
        frame.has_closure = True
        return [(state, ("closure", cid))]

    def ex_Starred(self, node, state, frame):
        raise AnalysisError("starred expression not modelled")

    # -- operators -------------------------------------------------------------
    def binop(self, op, l, r):
        if is_const(l) and is_const(r):
            try:
                a, b = l[1], r[1]
                if op == "+":
                    return const(a + b)
                if op == "-":
                    return const(a - b)
                if op == "*":
                    return const(a * b)
                if op == "/":
                    return const(a / b)
                if op == "//":
                    return const(a // b)
                if op == "%":
                    return const(a % b)
                if op == "**":
                    return const(a ** b)
            except Exception:
                pass
        if op == "%" and is_const(l) and isinstance(l[1], str) and r[0] == "tuple" and \
                all(is_const(x) for x in r[1]):
            # "text %s" % (c1, c2): formatting with constants folds
            try:
                return const(l[1] % tuple(x[1] for x in r[1]))
            except Exception:
                pass
        return ("binop", op, l, r)

    def ex_BinOp(self, node, state, frame):
        out = []
        op = BIN_OPS.get(type(node.op), "?")
        for (s, vals) in self.eval_seq([node.left, node.right], state, frame):
            if isinstance(vals, Outcome):
                out.append((s, vals))
            else:
                out.append((s, self.binop(op, vals[0], vals[1])))
        return out

    def ex_UnaryOp(self, node, state, frame):
        out = []
        for (s, v) in self.eval(node.operand, state, frame):
            if isinstance(v, Outcome):
                out.append((s, v))
            elif isinstance(node.op, ast.Not):
                out.append((s, self.neg(v)))
            elif isinstance(node.op, ast.USub) and is_const(v):
                out.append((s, const(-v[1])))
            else:
                out.append((s, ("unop", type(node.op).__name__, v)))
        return out

    def neg(self, v):
        if is_const(v):
            return const(not v[1])
        if v[0] == "not":
            return ("truth", v[1])
        return ("not", v)

    def cmp(self, op, l, r):
        if op == "!=":
            return self.neg(self.cmp("==", l, r))
        if op == "isnot":
            return self.neg(self.cmp("is", l, r))
        if op == "notin":
            return self.neg(self.cmp("in", l, r))
        if is_const(l) and is_const(r):
            try:
                a, b = l[1], r[1]
                if op == "==":
                    return const(a == b)
                if op == "is":
                    return const(a is b or (a == b and isinstance(a, (bool, type(None)))))
                if op == "<":
                    return const(a < b)
                if op == "<=":
                    return const(a <= b)
                if op == ">":
                    return const(a > b)
                if op == ">=":
                    return const(a >= b)
                if op == "in":
                    return const(a in b)
            except Exception:
                pass
        if op == "in" and r[0] == "reg":
            l = plain(l)
        if op == "is" and is_const(r) and r[1] is None:
            return ("isnone", l)
        if op == "is" and is_const(l) and l[1] is None:
            return ("isnone", r)
        if op == "==" and l == r:
            return TRUE
        return ("cmp", op, l, r)

    def ex_Compare(self, node, state, frame):
        out = []
        nodes = [node.left] + list(node.comparators)
        for (s, vals) in self.eval_seq(nodes, state, frame):
            if isinstance(vals, Outcome):
                out.append((s, vals))
                continue
            terms = []
            for i, op in enumerate(node.ops):
                terms.append(self.cmp(CMP_OPS[type(op)], vals[i], vals[i + 1]))
            if len(terms) == 1:
                out.append((s, terms[0]))
            else:
                out.append((s, ("and", tuple(terms))))
        return out

    def ex_BoolOp(self, node, state, frame):
        """short-circuit: evaluate operands left to right, forking on the
        truth of each one when it is not decided."""
        is_and = isinstance(node.op, ast.And)
        results = []
        work = [(state, 0)]
        while work:
            s, i = work.pop()
            for (s2, v) in self.eval(node.values[i], s, frame):
                if isinstance(v, Outcome):
                    results.append((s2, v))
                    continue
                if i == len(node.values) - 1:
                    results.append((s2, v))
                    continue
                for (s3, b) in self.split(v, s2, frame, node.values[i]):
                    if b == is_and:
                        work.append((s3, i + 1))
                    else:
                        results.append((s3, v))
        return results

    def ex_NamedExpr(self, node, state, frame):
        out = []
        for (s, v) in self.eval(node.value, state, frame):
            if isinstance(v, Outcome):
                out.append((s, v))
                continue
            for (s1, o) in self.assign(node.target, v, s, frame, node):
                out.append((s1, v if not (isinstance(o, Outcome) and o.kind != "normal")
                            else o))
        return out

    def ex_IfExp(self, node, state, frame):
        out = []
        for (s, b) in self.branch(node.test, state, frame):
            if isinstance(b, Outcome):
                out.append((s, b))
            elif b:
                out.extend(self.eval(node.body, s, frame))
            else:
                out.extend(self.eval(node.orelse, s, frame))
        return out

    # -- comprehensions --------------------------------------------------------
    def _comp(self, node, elt_nodes, kind, state, frame):
        if len(node.generators) != 1:
            raise AnalysisError("nested comprehension not modelled")
        gen = node.generators[0]
        out = []
        for (s, it) in self.eval(gen.iter, state, frame):
            if isinstance(it, Outcome):
                out.append((s, it))
                continue
            csite = self.site(frame, node)
            self.refuse_opaque_iteration(it)
            if it[0] == "cursor":
                it = ("rows", it[1])
            elem = ("elem", it, csite)
            env = s.envs[frame.fid]
            saved = dict(env)
            for (s1, o) in self.assign(gen.target, elem, s, frame, node):
                pass
            # conditions and element are evaluated without forking: they are
            # pure row/field expressions in this code base
            nodes = list(gen.ifs) + list(elt_nodes)
            pre_facts, pre_pc, n_ev = dict(s.facts), s.pc, len(s.events)
            res = self.eval_seq(nodes, s, frame)
            if len(res) > 1 and not any(isinstance(v, Outcome) for (_, v) in res) and \
                    all(all(e["k"] in ("index", "call", "ret", "pure")
                            for e in s_i.events[n_ev:]) for (s_i, _) in res):
                # a per-element choice (`a if c else b`): the element is one of
                # the alternatives; nothing decided per element survives
                s0 = res[0][0]
                s0.facts, s0.pc = pre_facts, pre_pc
                width = len(res[0][1])
                merged = []
                for i in range(width):
                    alts_i = []
                    for (_, vs) in res:
                        if vs[i] not in alts_i:
                            alts_i.append(vs[i])
                    merged.append(alts_i[0] if len(alts_i) == 1 else
                                  ("call", "choice", tuple(alts_i), ()))
                res = [(s0, merged)]
            if len(res) != 1 or isinstance(res[0][1], Outcome):
                raise AnalysisError("comprehension with branching element "
                                    "(%s:%d)" % (frame.func.module, node.lineno))
            s2, vals = res[0]
            conds = tuple(vals[:len(gen.ifs)])
            elts = vals[len(gen.ifs):]
            elt = elts[0] if len(elts) == 1 else ("tuple", tuple(elts))
            env2 = s2.envs[frame.fid]
            env2.clear()
            env2.update(saved)
            out.append((s2, ("comp", kind, elt, it, conds, csite)))
        return out

    def ex_ListComp(self, node, state, frame):
        return self._comp(node, [node.elt], "list", state, frame)

    def ex_SetComp(self, node, state, frame):
        return self._comp(node, [node.elt], "set", state, frame)

    def ex_GeneratorExp(self, node, state, frame):
        return self._comp(node, [node.elt], "gen", state, frame)

    def ex_DictComp(self, node, state, frame):
        return self._comp(node, [node.key, node.value], "dict", state, frame)

    # -- decisions ---------------------------------------------------------------
    def decide(self, t, state):
        """True / False / None (unknown)"""
        k = t[0]
        if k == "const":
            return bool(t[1])
        if k == "not":
            d = self.decide(t[1], state)
            return None if d is None else (not d)
        if k == "truth":
            return self.decide(t[1], state)
        if k in ("dictlit", "kwdict", "tuple") and isinstance(t[1], tuple):
            return len(t[1]) > 0
        if k == "and":
            ds = [self.decide(x, state) for x in t[1]]
            if any(d is False for d in ds):
                return False
            if all(d is True for d in ds):
                return True
            return None
        if k == "isnone":
            x = t[1]
            if is_const(x):
                return x[1] is None
            if x[0] in ("closure", "tuple", "kwdict", "dictlit", "coll", "nt",
                        "func", "class", "db", "reg", "comp", "rows", "conn"):
                return False
            if x[0] == "obj" and not self.maybe_none(x):
                return False
            if x[0] in ("attr", "reg") and x[1][0] == "obj" and isinstance(x[2], str) and \
                    self.never_none_attr(x[1][1], x[2]):
                return False
            if x[0] == "call" and isinstance(x[1], str) and \
                    x[1].split(".")[-1] in NON_NONE_CTORS:
                # the result of a container / number / string constructor
                return False
            if t in state.facts:
                return state.facts[t]
            tr = state.facts.get(x)
            if tr is True:
                return False
            return None
        if k == "obj":
            if self.maybe_none(t):
                if t in state.facts:
                    return state.facts[t]
                return None
            return True
        if k in ("closure", "func", "class", "db", "conn", "bound", "mod"):
            return True
        if k == "tuple":
            return len(t[1]) > 0
        if k in ("kwdict", "dictlit"):
            if len(t[1]) > 0:
                return True
        if k == "cmp" and t[2][0] == "call" and t[2][1] == "len" and \
                is_const(t[3]) and t[2][2] and \
                ("len", self._unwrap_rows(t[2][2][0])) in state.facts:
            n = state.facts[("len", self._unwrap_rows(t[2][2][0]))]
            c = t[3][1]
            try:
                return {">": n > c, ">=": n >= c, "<": n < c, "<=": n <= c,
                        "==": n == c}[t[1]]
            except Exception:
                pass
        if k == "cmp" and t[2][0] == "call" and t[2][1] == "len" and is_const(t[3]) \
                and t[1] in (">", ">="):
            # len(filter over rows) <= number of rows, when that is known
            inner = t[2][2][0]
            while inner[0] == "call" and inner[1] in ("list", "sorted", "set", "tuple") \
                    and inner[2]:
                inner = inner[2][0]
            if inner[0] == "comp":
                src = inner[3]
                while src[0] == "call" and src[1] in ("list", "sorted", "tuple") and src[2]:
                    src = src[2][0]
                if src[0] == "rows" and ("len", src) in state.facts:
                    n = state.facts[("len", src)]
                    c = t[3][1]
                    if (t[1] == ">" and n <= c) or (t[1] == ">=" and n < c):
                        return False
        if k == "cmp" and t[1] == "in" and t[3][0] == "reg":
            if (t[3], t[2]) in state.regs:
                return True
        if t in state.facts:
            return state.facts[t]
        if ("isnone", t) in state.facts and state.facts[("isnone", t)]:
            return False
        return None

    def _unwrap_rows(self, x):
        while x[0] == "call" and x[1] in ("list", "sorted", "tuple") and x[2]:
            x = x[2][0]
        return x

    def never_none_attr(self, cname, attr):
        """every assignment `self.<attr> = e` in the class gives a container /
        number / string constructor result or a literal container"""
        cache = self.__dict__.setdefault("_never_none", {})
        if (cname, attr) not in cache:
            ok, seen = True, False
            ent = self.repo.classes.get(cname)
            for meth in (ent[1]["methods"].values() if ent else ()):
                for n in ast.walk(meth.node):
                    if not isinstance(n, ast.Assign):
                        continue
                    for tg in n.targets:
                        if isinstance(tg, ast.Attribute) and isinstance(tg.value, ast.Name) \
                                and tg.value.id == "self" and tg.attr == attr:
                            seen = True
                            v = n.value
                            if isinstance(v, (ast.Dict, ast.List, ast.Set, ast.DictComp,
                                              ast.ListComp, ast.SetComp, ast.Tuple)):
                                continue
                            if isinstance(v, ast.Call) and not v.keywords and (
                                    (isinstance(v.func, ast.Name) and
                                     v.func.id in NON_NONE_CTORS) or
                                    (isinstance(v.func, ast.Attribute) and
                                     v.func.attr in NON_NONE_CTORS)):
                                continue
                            ok = False
            cache[(cname, attr)] = ok and seen
        return cache[(cname, attr)]

    def maybe_none(self, obj):
        tag = obj[2]
        return isinstance(tag, tuple) and tag and tag[0] == "held"

    def learn(self, t, value, state):
        """record that term t has the given truthiness"""
        k = t[0]
        if k == "not":
            return self.learn(t[1], not value, state)
        if k == "truth":
            return self.learn(t[1], value, state)
        if k == "and" and value:
            for x in t[1]:
                self.learn(x, True, state)
            return
        state.facts[t] = value
        if k == "isnone" and value:
            state.facts[t[1]] = False
        if k != "isnone" and value:
            state.facts[("isnone", t)] = False
        if k == "row":
            self.learn_row(t, value, state)

    def split(self, v, state, frame, node):
        """-> list of (state, bool): decide or fork on the truthiness of v"""
        d = self.decide(v, state)
        if d is not None:
            return [(state, d)]
        if v[0] == "not" and v[1][0] == "cmp" and v[1][1] == "in":
            return [(s, not b) for (s, b) in self.split(v[1], state, frame, node)]
        site = self.site(frame, node)
        out = []
        if v[0] == "cmp" and v[1] == "in" and not is_const(v[2]):
            # x in ("a", "b", ...): one branch per literal (x == "a", ...), so
            # that what follows knows which one it is
            lits = None
            if v[3][0] == "tuple" and all(is_const(c) for c in v[3][1]):
                lits = list(v[3][1])
            elif v[3][0] == "const" and isinstance(v[3][1], tuple):
                lits = [("const", c) for c in v[3][1]]
            if lits is not None and 0 < len(lits) <= 16:
                for c in lits:
                    eq = ("cmp", "==", v[2], c)
                    if self.decide(eq, state) is False:
                        continue
                    s = state.fork()
                    self.learn(eq, True, s)
                    self.learn(v, True, s)
                    s.pc = s.pc + ((eq, True, site),)
                    out.append((s, True))
                s = state.fork()
                self.learn(v, False, s)
                for c in lits:
                    self.learn(("cmp", "==", v[2], c), False, s)
                s.pc = s.pc + ((v, False, site),)
                out.append((s, False))
                self.npaths += len(out) - 1
                return out
        for b in (True, False):
            s = state.fork()
            self.learn(v, b, s)
            s.pc = s.pc + ((v, b, site),)
            out.append((s, b))
        self.npaths += 1
        return out

    def known_const(self, t, state):
        """the constant a term is known to equal on this path, or None"""
        if is_const(t):
            return t
        for k, val in state.facts.items():
            if val is True and k[0] == "cmp" and k[1] == "==":
                if k[2] == t and is_const(k[3]):
                    return k[3]
                if k[3] == t and is_const(k[2]):
                    return k[2]
        if t[0] == "binop" and t[1] == "+":
            a, b = self.known_const(t[2], state), self.known_const(t[3], state)
            if a is not None and b is not None:
                try:
                    return const(a[1] + b[1])
                except Exception:
                    return None
        return None

    def branch(self, test, state, frame):
        """-> list of (state, bool | Outcome)"""
        out = []
        for (s, v) in self.eval(test, state, frame):
            if isinstance(v, Outcome):
                out.append((s, v))
            else:
                out.extend(self.split(v, s, frame, test))
        return out
