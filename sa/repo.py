"""Front end: locate and parse the sources of /repo's current working tree.

Nothing here imports or runs the server; everything is ast / text.
"""
import ast
import os
import warnings

from . import sql as sqlmod


class AnalysisError(Exception):
    """The analyser cannot model the tree (vanished anchor, unparsed SQL,
    unknown construct).  Reported as ANALYSIS-ERROR, exit 2."""


class PlumbingViolation(AnalysisError):
    """A command-line option does not reach the Server at all (no constructor
    slot is fed from it).  Carries the bootstrap model so that the checks of
    the properties that are about this option can report it as a violation;
    every other check has no verdict."""

    def __init__(self, model, role, key, detail):
        AnalysisError.__init__(self, "configuration plumbing: option %s does not reach the "
                               "server (%s)" % (key, detail))
        self.model = model
        self.role = role
        self.key = key
        self.detail = detail


REPO = os.environ.get("VERIF_REPO", "/repo")
PKG = "src/wormhole_mailbox_server"
MODULES = ["server", "server_websocket", "server_tap", "database", "web",
           "util"]
SCHEMA_DIR = PKG + "/db-schemas"
PROTOCOL_DOC = "docs/server-protocol.md"


class FuncInfo(object):
    def __init__(self, module, cls, node, parent=None):
        self.module = module
        self.cls = cls
        self.node = node
        self.parent = parent  # enclosing FuncInfo for nested defs
        self.name = node.name
        if parent is not None:
            self.qualname = parent.qualname + ".<locals>." + node.name
        elif cls:
            self.qualname = "%s.%s" % (cls, node.name)
        else:
            self.qualname = node.name
        self.params = [a.arg for a in node.args.args]
        self.kwarg = node.args.kwarg.arg if node.args.kwarg else None
        self.vararg = node.args.vararg.arg if node.args.vararg else None
        self.defaults = node.args.defaults
        decs = []
        for d in node.decorator_list:
            if isinstance(d, ast.Call):
                d = d.func
            if isinstance(d, ast.Name):
                decs.append(d.id)
            elif isinstance(d, ast.Attribute):
                decs.append(d.attr)
        self.decorators = decs
        self.is_static = "staticmethod" in decs
        self.is_classmethod = "classmethod" in decs
        self.is_property = "property" in decs or "cached_property" in decs

    def __repr__(self):
        return "<Func %s:%s>" % (self.module, self.qualname)


class ModuleInfo(object):
    def __init__(self, name, path, text):
        self.name = name
        self.path = path
        self.text = text
        self.lines = text.splitlines()
        with warnings.catch_warnings():
            warnings.simplefilter("ignore")
            self.tree = ast.parse(text, filename=path)
        self.functions = {}   # name -> FuncInfo (module level)
        self.classes = {}     # name -> {"node":, "methods": {name: FuncInfo}, "bases": [...]}
        self.imports = {}     # local name -> dotted origin
        self.constants = {}   # module-level NAME = <expr node>
        self._index()

    def _index(self):
        for node in self.tree.body:
            if isinstance(node, ast.FunctionDef):
                self.functions[node.name] = FuncInfo(self.name, None, node)
            elif isinstance(node, ast.ClassDef):
                methods = {}
                cattrs = {}
                for sub in node.body:
                    if isinstance(sub, ast.FunctionDef):
                        methods[sub.name] = FuncInfo(self.name, node.name, sub)
                    elif isinstance(sub, ast.Assign):
                        for t in sub.targets:
                            if isinstance(t, ast.Name):
                                cattrs[t.id] = sub.value
                bases = []
                for b in node.bases:
                    bases.append(dotted(b))
                self.classes[node.name] = {"node": node, "methods": methods,
                                           "bases": bases, "attrs": cattrs}
            elif isinstance(node, ast.Import):
                for a in node.names:
                    self.imports[a.asname or a.name.split(".")[0]] = \
                        a.name if a.asname else a.name.split(".")[0]
            elif isinstance(node, ast.ImportFrom):
                mod = ("." * node.level) + (node.module or "")
                for a in node.names:
                    self.imports[a.asname or a.name] = mod + "." + a.name
            elif isinstance(node, ast.Assign):
                for t in node.targets:
                    if isinstance(t, ast.Name):
                        self.constants[t.id] = node.value

    def src(self, node):
        try:
            return ast.get_source_segment(self.text, node) or ""
        except Exception:
            return ""


def dotted(node):
    if isinstance(node, ast.Name):
        return node.id
    if isinstance(node, ast.Attribute):
        b = dotted(node.value)
        return (b + "." + node.attr) if b else None
    return None


class Repo(object):
    def __init__(self, root=None, overrides=None):
        """overrides: {relative path: text} replaces file contents in memory
        (used by the self-test to analyse mutants of the current tree)"""
        self.root = root or REPO
        self.overrides = overrides or {}
        self.modules = {}
        self.files_read = []
        # the modules the rules name, plus every other module a change adds to
        # the package (a helper module is part of the program, not a library)
        mods = list(MODULES)
        pkgdir = os.path.join(self.root, PKG)
        extra = set()
        if os.path.isdir(pkgdir):
            for fn in os.listdir(pkgdir):
                if fn.endswith(".py"):
                    extra.add(fn[:-3])
        for rel in self.overrides:
            if rel.startswith(PKG + "/") and rel.endswith(".py") and \
                    "/" not in rel[len(PKG) + 1:]:
                extra.add(rel[len(PKG) + 1:-3])
        for m in sorted(extra):
            if m not in mods and m not in ("__init__", "__main__", "_version",
                                           "increase_rlimits"):
                mods.append(m)
        for m in mods:
            p = os.path.join(self.root, PKG, m + ".py")
            rel = os.path.join(PKG, m + ".py")
            if rel in self.overrides:
                text = self.overrides[rel]
            else:
                if not os.path.exists(p):
                    raise AnalysisError("source file vanished: %s" % p)
                with open(p, "r", encoding="utf-8") as f:
                    text = f.read()
            if True:
                pass
            try:
                self.modules[m] = ModuleInfo(m, os.path.join(PKG, m + ".py"), text)
            except SyntaxError as e:
                raise AnalysisError("cannot parse %s: %s" % (p, e))
            self.files_read.append(os.path.join(PKG, m + ".py"))
        self.schema_texts = {}
        sd = os.path.join(self.root, SCHEMA_DIR)
        if os.path.isdir(sd):
            for fn in sorted(os.listdir(sd)):
                if fn.endswith(".sql"):
                    rel = os.path.join(SCHEMA_DIR, fn)
                    if rel in self.overrides:
                        self.schema_texts[fn] = self.overrides[rel]
                    else:
                        with open(os.path.join(sd, fn), "r", encoding="utf-8") as f:
                            self.schema_texts[fn] = f.read()
                    self.files_read.append(os.path.join(SCHEMA_DIR, fn))
        # schema files that exist only in an in-memory patch
        for rel in sorted(self.overrides):
            if rel.startswith(SCHEMA_DIR + "/") and rel.endswith(".sql"):
                fn = rel[len(SCHEMA_DIR) + 1:]
                if fn not in self.schema_texts and self.overrides[rel] is not None:
                    self.schema_texts[fn] = self.overrides[rel]
                    self.files_read.append(rel)
        self.protocol_doc = None
        pd = os.path.join(self.root, PROTOCOL_DOC)
        if os.path.exists(pd):
            with open(pd, "r", encoding="utf-8") as f:
                self.protocol_doc = f.read()
            self.files_read.append(PROTOCOL_DOC)
        self.setup_py = None
        sp = os.path.join(self.root, "setup.py")
        if os.path.exists(sp):
            with open(sp, "r", encoding="utf-8") as f:
                self.setup_py = f.read()
            self.files_read.append("setup.py")
        self._schemas = {}
        self.canonical_names = self._canonicalise()
        # class name -> (ModuleInfo, classdict); names are unique in this pkg
        self.classes = {}
        for m in self.modules.values():
            for cn, cd in m.classes.items():
                if cn in self.classes:
                    raise AnalysisError("duplicate class name %s" % cn)
                self.classes[cn] = (m, cd)
        # mixins are flattened: a method inherited from a base class of the
        # package is a method of the inheriting class (qualified by its name),
        # so that rules attribute what it does to the class whose objects run it
        def _inherit(cn, seen=()):
            m, cd = self.classes[cn]
            for b in cd.get("bases", ()):
                bn = b.split(".")[-1] if isinstance(b, str) else None
                if not bn or bn == cn or bn in seen or bn not in self.classes:
                    continue
                _inherit(bn, seen + (cn,))
                bm, bcd = self.classes[bn]
                for name, fi in bcd["methods"].items():
                    if name not in cd["methods"]:
                        cd["methods"][name] = FuncInfo(fi.module, cn, fi.node)
                for an, av in bcd.get("attrs", {}).items():
                    cd["attrs"].setdefault(an, av)
        for cn in list(self.classes):
            _inherit(cn)

    # -- canonical class names ---------------------------------------------------
    def _canonicalise(self):
        """Three classes no test pins by name are known to the analyser by the
        part they play, not by what they are called; the parsed trees are
        rewritten to the canonical names so that the rest of the analyser can
        use them (positions are unchanged):
          * the protocol class: what WebSocketServerFactory.protocol names
            -> WebSocketServer
          * the protocol error: what onMessage's answering `except` clause
            catches -> Error
          * the refusal of a re-claim: the exception the protocol class turns
            into Error("reclaimed") -> ReclaimedError
        Returns {source name: canonical name} for the names that differed."""
        ren = {}
        ws = self.modules.get("server_websocket")
        if ws is None:
            return ren
        fac = ws.classes.get("WebSocketServerFactory")
        proto = fac["attrs"].get("protocol") if fac else None
        if not isinstance(proto, ast.Name) or proto.id not in ws.classes:
            raise AnalysisError("anchor vanished: WebSocketServerFactory.protocol does "
                                "not name a class of server_websocket.py")
        if proto.id != "WebSocketServer":
            ren[proto.id] = "WebSocketServer"
        pcls = ws.classes[proto.id]
        onmsg = pcls["methods"].get("onMessage")
        err = None
        if onmsg is not None:
            for n in ast.walk(onmsg.node):
                if isinstance(n, ast.ExceptHandler) and isinstance(n.type, ast.Name) and \
                        n.type.id in ws.classes:
                    err = n.type.id
        if err is None:
            raise AnalysisError("anchor vanished: onMessage has no `except <protocol "
                                "error class>` clause")
        if err != "Error":
            ren[err] = "Error"
        for meth in pcls["methods"].values():
            for n in ast.walk(meth.node):
                if isinstance(n, ast.ExceptHandler) and isinstance(n.type, ast.Name):
                    for r in ast.walk(n):
                        if isinstance(r, ast.Raise) and isinstance(r.exc, ast.Call) and \
                                isinstance(r.exc.func, ast.Name) and r.exc.func.id == err and \
                                r.exc.args and isinstance(r.exc.args[0], ast.Constant) and \
                                r.exc.args[0].value == "reclaimed" and \
                                n.type.id != "ReclaimedError":
                            ren[n.type.id] = "ReclaimedError"
        if not ren:
            return ren
        taken = set()
        for m in self.modules.values():
            taken.update(m.classes)
            taken.update(m.functions)
        for src, canon in ren.items():
            if canon in taken:
                raise AnalysisError("cannot canonicalise %s -> %s: the name is taken"
                                    % (src, canon))
        for name, m in list(self.modules.items()):
            changed = False
            for n in ast.walk(m.tree):
                if isinstance(n, ast.Name) and n.id in ren:
                    n.id = ren[n.id]
                    changed = True
                elif isinstance(n, ast.ClassDef) and n.name in ren:
                    n.name = ren[n.name]
                    changed = True
                elif isinstance(n, ast.alias) and n.name in ren and n.asname is None:
                    n.name = ren[n.name]
                    changed = True
            if changed:
                m.functions, m.classes, m.imports, m.constants = {}, {}, {}, {}
                m._index()
        return ren

    # -- lookups ---------------------------------------------------------
    def module(self, name):
        return self.modules[name]

    def cls(self, name):
        return self.classes.get(name)

    def method(self, cls, name, _depth=0):
        ent = self.classes.get(cls)
        if not ent:
            return None
        m = ent[1]["methods"].get(name)
        if m is not None or _depth > 4:
            return m
        # inherited from a base class of the package (mixins), left to right
        for b in ent[1].get("bases", ()):
            bn = b.split(".")[-1] if isinstance(b, str) else None
            if bn and bn != cls and bn in self.classes:
                m = self.method(bn, name, _depth + 1)
                if m is not None:
                    return m
        return None

    def function(self, module, name):
        return self.modules[module].functions.get(name)

    def require_method(self, cls, name):
        f = self.method(cls, name)
        if f is None:
            raise AnalysisError("anchor vanished: method %s.%s" % (cls, name))
        return f

    def require_function(self, module, name):
        f = self.function(module, name)
        if f is None:
            raise AnalysisError("anchor vanished: function %s.%s" % (module, name))
        return f

    def all_functions(self):
        for m in self.modules.values():
            for f in m.functions.values():
                yield f
            for cd in m.classes.values():
                for f in cd["methods"].values():
                    yield f

    # -- schemas ----------------------------------------------------------
    def schema(self, filename):
        if filename not in self._schemas:
            if filename not in self.schema_texts:
                raise AnalysisError("schema file vanished: %s" % filename)
            try:
                self._schemas[filename] = sqlmod.schema_from_script(
                    self.schema_texts[filename], filename)
            except sqlmod.SqlUnparsed as e:
                raise AnalysisError("cannot parse %s: %s" % (filename, e))
        return self._schemas[filename]

    def target_versions(self):
        """CHANNELDB_TARGET_VERSION / USAGEDB_TARGET_VERSION from database.py
        (constant folded)."""
        db = self.modules["database"]
        out = {}
        for nm, key in (("CHANNELDB_TARGET_VERSION", "channel"),
                        ("USAGEDB_TARGET_VERSION", "usage")):
            node = db.constants.get(nm)
            if node is None:
                raise AnalysisError("anchor vanished: database.%s" % nm)
            try:
                out[key] = ast.literal_eval(node)
            except Exception:
                raise AnalysisError("database.%s is not a literal" % nm)
        return out

    def channel_schema(self):
        v = self.target_versions()["channel"]
        return self.schema("channel-v%d.sql" % v)[0]

    def usage_schema(self):
        v = self.target_versions()["usage"]
        return self.schema("usage-v%d.sql" % v)[0]

    def loc(self, module, node):
        return "%s:%d" % (self.modules[module].path, getattr(node, "lineno", 0))
