"""Attribute roles: which attribute of which class plays which part.

Nothing below matches an attribute by its *name*.  Every role is derived
from how the value gets there:

* the handle / configuration slots of ``Server`` from the values that
  ``makeService`` (through ``make_server``) stores in them -- anchored on the
  command-line option keys (``config["blur-usage"]`` ...) and on the two public
  ``create_or_upgrade_*_db`` functions;
* the slots of ``AppNamespace`` / ``Mailbox`` from the constructor chain: the
  argument passed at the registry's construct site, followed through the
  constructor parameter into ``self.<attr> = <param>``;
* the id attributes from the registry key, the listener table as the Mailbox
  container that stores tuples of callables, the connection's side attribute
  as the one assigned from the ``side`` field of a client message.

The rule R-plumb (sa/rules/shared.py) checks what this derivation assumes:
the slots are assigned only in constructors, and every *other* construct site
passes values of the same role.
"""
import ast

from .repo import AnalysisError
from .terms import is_const, mentions

CFG_CLASSES = ("Server", "AppNamespace", "Mailbox")

CURRENT = None   # the Names of the model being analysed (one at a time)


def current():
    if CURRENT is None:
        raise AnalysisError("attribute roles requested before a model exists")
    return CURRENT


def classify_server_value(v, interp=None):
    """role term of a value stored into a Server slot by makeService"""
    if interp is not None and mentions(v, lambda x: x[0] == "merge"):
        from .events import expand_merges
        roles = set(classify_server_value(val) for (_pc, val) in
                    expand_merges(interp, v, ()))
        return roles.pop() if len(roles) == 1 else None
    def cfgkey(t, key):
        return t[0] == "sub" and is_const(t[2]) and t[2][1] == key and \
            t[1][0] == "param"
    if v[0] == "call" and v[1] == "create_or_upgrade_channel_db":
        return ("db", "chan")
    if v[0] == "call" and v[1] == "create_or_upgrade_usage_db":
        return ("cfg", "usage_db")
    if cfgkey(v, "blur-usage"):
        return ("cfg", "blur_usage")
    if cfgkey(v, "allow-list"):
        return ("cfg", "allow_list")
    if v[0] == "isnone" and cfgkey(v[1], "blur-usage"):
        return ("cfg", "log_requests")
    if mentions(v, lambda x: cfgkey(x, "log-fd")):
        return ("cfg", "log_file")
    if v[0] in ("coll", "dictlit", "kwdict"):
        return ("cfg", "welcome")
    return None


def _self_attr(node):
    if isinstance(node, ast.Attribute) and isinstance(node.value, ast.Name) and \
            node.value.id == "self":
        return node.attr
    return None


def _param_slots(init):
    """param name -> [attr] for every  self.<attr> = <param>  in a constructor"""
    out = {}
    for n in ast.walk(init.node):
        if isinstance(n, ast.Assign) and len(n.targets) == 1 and \
                isinstance(n.value, ast.Name) and n.value.id in init.params:
            a = _self_attr(n.targets[0])
            if a is not None:
                out.setdefault(n.value.id, []).append(a)
    return out


def _args_by_param(call, init):
    """param name -> argument expression of one construct site"""
    out = {}
    for i, a in enumerate(call.args):
        if i + 1 < len(init.params):
            out[init.params[i + 1]] = a
    for kw in call.keywords:
        if kw.arg is not None:
            out[kw.arg] = kw.value
    return out


class Names(object):
    def __init__(self, interp, server_slots):
        """server_slots: attr -> role term for class Server ({} while
        bootstrapping)"""
        self.repo = interp.repo
        self.cfg = {}                 # (cls, attr) -> ("db","chan") | ("cfg", role)
        self.app_id_attr = {}         # cls -> attr
        self.mailbox_id_attr = None   # (cls, attr)
        self.apps = None              # (owner cls, attr): registry of namespaces
        self.mailboxes = None         # (owner cls, attr): registry of mailboxes
        self.listeners = None         # (cls, attr): the listener table
        self.side_attr = None
        self.conn_mailbox_attr = None
        self.conn_app_attr = None
        self.bootstrap = not server_slots
        for attr, role in server_slots.items():
            self.cfg[("Server", attr)] = role
        regs = interp.registries
        for (owner, attr), r in regs.items():
            if r["value_cls"] == "AppNamespace" and owner == "Server":
                self.apps = (owner, attr)
            if r["value_cls"] == "Mailbox" and owner == "AppNamespace":
                self.mailboxes = (owner, attr)
        if self.apps is None or self.mailboxes is None:
            raise AnalysisError("anchor vanished: the namespace / mailbox registries "
                                "(get-or-create of AppNamespace in Server, of Mailbox "
                                "in AppNamespace) were not found")
        ra, rm = regs[self.apps], regs[self.mailboxes]
        if ra.get("id_attr") is None or rm.get("id_attr") is None:
            raise AnalysisError("anchor vanished: the registry key is not stored in "
                                "the constructed object")
        self.app_id_attr["AppNamespace"] = ra["id_attr"]
        self.mailbox_id_attr = ("Mailbox", rm["id_attr"])
        self._chain("Server", ra)
        self._chain("AppNamespace", rm)
        self._listeners(interp)
        self._connection(interp)

    # -- constructor chain ---------------------------------------------------------
    def _chain(self, owner, reg):
        vcls = reg["value_cls"]
        init = self.repo.method(vcls, "__init__")
        if init is None:
            raise AnalysisError("%s has no constructor" % vcls)
        slots = _param_slots(init)
        for pname, arg in _args_by_param(reg["construct"], init).items():
            a = _self_attr(arg)
            if a is None and isinstance(arg, ast.Name):
                # a local alias:  db = self._db ... T(db, ...)
                vals = [n.value for n in ast.walk(reg["func"].node)
                        if isinstance(n, ast.Assign) and len(n.targets) == 1 and
                        isinstance(n.targets[0], ast.Name) and n.targets[0].id == arg.id]
                if len(vals) == 1:
                    a = _self_attr(vals[0])
            if a is None:
                continue
            role = self.cfg.get((owner, a))
            if role is not None:
                if pname not in slots:
                    raise AnalysisError(
                        "%s.__init__ does not store its parameter %s (receives %s.%s)"
                        % (vcls, pname, owner, a))
                for attr in slots[pname]:
                    self.cfg[(vcls, attr)] = role
            if self.app_id_attr.get(owner) == a:
                for attr in slots.get(pname, []):
                    self.app_id_attr[vcls] = attr

    def _listeners(self, interp):
        cands = sorted(a for (c, a) in interp.container_attrs() if c == "Mailbox")
        best = []
        ent = self.repo.classes.get("Mailbox")
        for a in cands:
            for meth in ent[1]["methods"].values():
                for n in ast.walk(meth.node):
                    if isinstance(n, ast.Assign) and len(n.targets) == 1 and \
                            isinstance(n.targets[0], ast.Subscript) and \
                            _self_attr(n.targets[0].value) == a and \
                            isinstance(n.value, ast.Tuple):
                        best.append(a)
        pick = best or cands
        if not pick:
            raise AnalysisError("anchor vanished: Mailbox keeps no listener table")
        self.listeners = ("Mailbox", pick[0])

    def _connection(self, interp):
        ent = self.repo.classes.get("WebSocketServer")
        if ent is None:
            raise AnalysisError("anchor vanished: class WebSocketServer")
        sides = []
        for meth in ent[1]["methods"].values():
            for n in ast.walk(meth.node):
                if not isinstance(n, ast.Assign):
                    continue
                for tgt in n.targets:       # also  side = self._side = msg["side"]
                    a = _self_attr(tgt)
                    if a is None:
                        continue
                    val = n.value
                    if isinstance(val, ast.Name):
                        # side = msg["side"] ... self._side = side
                        loc = [m.value for m in ast.walk(meth.node)
                               if isinstance(m, ast.Assign) and
                               any(isinstance(t2, ast.Name) and t2.id == val.id
                                   for t2 in m.targets)]
                        if len(loc) == 1:
                            val = loc[0]
                    for x in ast.walk(val):
                        if isinstance(x, ast.Subscript) and \
                                isinstance(x.slice, ast.Constant) and x.slice.value == "side":
                            sides.append(a)
                        # required(msg, "side", ...) / msg.get("side")
                        if isinstance(x, ast.Call) and any(
                                isinstance(g, ast.Constant) and g.value == "side"
                                for g in x.args):
                            sides.append(a)
        if not sides:
            raise AnalysisError("anchor vanished: no connection attribute is assigned "
                                "from the `side` field of a message")
        self.side_attr = sides[0]
        for (c, a), ty in sorted(interp.attr_types.items()):
            if c == "WebSocketServer" and ty == "Mailbox" and self.conn_mailbox_attr is None:
                self.conn_mailbox_attr = a
            if c == "WebSocketServer" and ty == "AppNamespace" and self.conn_app_attr is None:
                self.conn_app_attr = a

    # -- queries ---------------------------------------------------------------------
    def role(self, cls, attr):
        return self.cfg.get((cls, attr))

    def slot(self, cls, role):
        """the attribute of cls holding ("cfg", role) / ("db","chan")"""
        for (c, a), r in self.cfg.items():
            if c == cls and r == role:
                return a
        return None

    def reg_name(self, which):
        owner, attr = getattr(self, which)
        return "%s.%s" % (owner, attr)

    def require_complete(self):
        need = {"Server": [("db", "chan"), ("cfg", "usage_db"), ("cfg", "blur_usage"),
                           ("cfg", "allow_list"), ("cfg", "log_requests")],
                "AppNamespace": [("db", "chan"), ("cfg", "usage_db"), ("cfg", "blur_usage"),
                                 ("cfg", "allow_list")],
                "Mailbox": [("db", "chan"), ("cfg", "usage_db")]}
        for cls, roles in need.items():
            for r in roles:
                if self.slot(cls, r) is None:
                    raise AnalysisError(
                        "configuration plumbing not recognised: no attribute of %s "
                        "receives %s through the constructor chain" % (cls, r[1]))
        if "Mailbox" not in self.app_id_attr:
            raise AnalysisError("configuration plumbing not recognised: Mailbox does "
                                "not receive its namespace's app id")
