"""Self-test corpus (thorough tier): in-memory mutants of the current tree on
which the property's rules must fire, and benign variants on which they must
stay silent.  See sa/selftest_corpus.py."""


def run(prop, ctx):
    try:
        from . import selftest_corpus
    except ImportError:
        ctx.note("self-test corpus not available")
        return
    selftest_corpus.run(prop, ctx)
