"""E1, statements."""
import ast

from .repo import AnalysisError
from .interp import (State, Frame, Outcome, NORMAL, MAX_PATHS,
                     MAX_LOOP_ROUNDS)
from .terms import NONE, TRUE, FALSE, const, is_const, mentions, plain


def short_name(name):
    """last two dotted components: twisted.python.log.msg -> log.msg"""
    parts = name.split(".")
    return ".".join(parts[-2:])


class ExecMixin(object):

    # -- events ----------------------------------------------------------
    _unroll_tag = 0

    def site(self, frame, node):
        cs = getattr(frame, "callsite", None)
        if cs is not None:
            return (cs[0], cs[1], cs[2] + 1000 * self._unroll_tag)
        # inside an unrolled constant loop every iteration gets its own sites
        return (self.repo.modules[frame.func.module].path,
                getattr(node, "lineno", 0),
                getattr(node, "col_offset", 0) + 1000 * self._unroll_tag)

    def ev(self, state, kind, frame, node, **fields):
        e = {"k": kind, "site": self.site(frame, node),
             "func": frame.func.qualname, "stack": state.stack,
             "dirty": state.dirty, "wrote": state.wrote, "pc": state.pc,
             "handlers": state.handlers}
        e.update(fields)
        state.events.append(e)
        return e

    # -- blocks ------------------------------------------------------------
    def exec_block(self, stmts, state, frame):
        """returns list of (state, Outcome)"""
        results = []
        work = [(state, 0)]
        while work:
            st, i = work.pop()
            if i >= len(stmts):
                results.append((st, NORMAL))
                continue
            outs = self.exec_stmt(stmts[i], st, frame)
            for (s2, out) in outs:
                if out.kind == "normal":
                    work.append((s2, i + 1))
                else:
                    results.append((s2, out))
            if len(results) + len(work) > MAX_PATHS:
                raise AnalysisError("path bound exceeded in %s" %
                                    frame.func.qualname)
        return results

    def exec_stmt(self, node, state, frame):
        m = getattr(self, "st_" + type(node).__name__, None)
        if m is None:
            raise AnalysisError("statement kind %s not modelled (%s:%s)" % (
                type(node).__name__, frame.func.module, node.lineno))
        return m(node, state, frame)

    # -- helpers -----------------------------------------------------------
    def _each(self, node, state, frame, cont):
        """evaluate expression node, call cont(state, term) -> list of
        (state, Outcome) for every normal result, pass raises through."""
        out = []
        for (s, v) in self.eval(node, state, frame):
            if isinstance(v, Outcome):
                out.append((s, v))
            else:
                out.extend(cont(s, v))
        return out

    # -- simple statements ---------------------------------------------------
    def st_Expr(self, node, state, frame):
        if isinstance(node.value, ast.Constant):
            return [(state, NORMAL)]
        c = node.value
        if isinstance(c, ast.Call) and isinstance(c.func, ast.Attribute) and \
                c.func.attr == "executemany" and len(c.args) == 2 and not c.keywords:
            # db.executemany(SQL, SEQ) is `for p in SEQ: db.execute(SQL, p)`
            key = id(node)
            cache = self.__dict__.setdefault("_executemany_loops", {})
            if key not in cache:
                var = "__executemany_%d" % node.lineno
                seq = c.args[1]
                comp = None
                if isinstance(seq, (ast.ListComp, ast.GeneratorExp, ast.SetComp)):
                    comp = seq
                elif isinstance(seq, ast.Name):
                    # a local assigned once, from a comprehension, and only read
                    stores = [n for n in ast.walk(frame.func.node)
                              if isinstance(n, ast.Name) and n.id == seq.id and
                              isinstance(n.ctx, (ast.Store, ast.Del))]
                    touched = [n for n in ast.walk(frame.func.node)
                               if isinstance(n, ast.Attribute) and
                               isinstance(n.value, ast.Name) and n.value.id == seq.id]
                    if len(stores) == 1 and not touched:
                        for n in ast.walk(frame.func.node):
                            if isinstance(n, ast.Assign) and len(n.targets) == 1 and \
                                    n.targets[0] is stores[0] and \
                                    isinstance(n.value, (ast.ListComp, ast.GeneratorExp)):
                                comp = n.value
                if comp is not None and len(comp.generators) == 1 and \
                        not comp.generators[0].is_async:
                    # [elt for x in it if c]  ->  for x in it: if c: execute(SQL, elt)
                    gen = comp.generators[0]
                    call = ast.Call(func=ast.Attribute(value=c.func.value, attr="execute",
                                                       ctx=ast.Load()),
                                    args=[c.args[0], comp.elt], keywords=[])
                    body = [ast.Expr(value=call)]
                    for cond in reversed(gen.ifs):
                        body = [ast.If(test=cond, body=body, orelse=[])]
                    loop = ast.For(target=gen.target, iter=gen.iter, body=body, orelse=[])
                else:
                    call = ast.Call(func=ast.Attribute(value=c.func.value, attr="execute",
                                                       ctx=ast.Load()),
                                    args=[c.args[0], ast.Name(id=var, ctx=ast.Load())],
                                    keywords=[])
                    loop = ast.For(target=ast.Name(id=var, ctx=ast.Store()), iter=seq,
                                   body=[ast.Expr(value=call)], orelse=[])
                ast.copy_location(loop, node)
                for n in ast.walk(loop):
                    if not hasattr(n, "lineno"):
                        ast.copy_location(n, node)
                ast.fix_missing_locations(loop)
                cache[key] = loop
            return self.exec_stmt(cache[key], state, frame)
        return self._each(node.value, state, frame,
                          lambda s, v: [(s, NORMAL)])

    def st_Pass(self, node, state, frame):
        return [(state, NORMAL)]

    def st_Assert(self, node, state, frame):
        # assumed to hold (DESIGN: asserts on identifiers are assumptions)
        return [(state, NORMAL)]

    def st_Import(self, node, state, frame):
        return [(state, NORMAL)]

    st_ImportFrom = st_Import
    st_Global = st_Import
    st_Nonlocal = st_Import

    def st_Delete(self, node, state, frame):
        for t in node.targets:
            if isinstance(t, ast.Name):
                state.envs[frame.fid].pop(t.id, None)
            elif isinstance(t, ast.Subscript):
                def cont(s, base, t=t):
                    return self._each(t.slice, s, frame,
                                      lambda s2, key: self._del_item(s2, frame, t, base, key))
                return self._each(t.value, state, frame, cont)
            else:
                raise AnalysisError("del of %s not modelled" % type(t).__name__)
        return [(state, NORMAL)]

    def _del_item(self, state, frame, node, base, key):
        self.ev(state, "reg_del", frame, node, reg=base, key=key, how="del")
        return [(state, NORMAL)]

    def st_Return(self, node, state, frame):
        if node.value is None:
            return [(state, Outcome("return", NONE))]
        return self._each(node.value, state, frame,
                          lambda s, v: [(s, Outcome("return", v))])

    def st_Break(self, node, state, frame):
        return [(state, Outcome("break"))]

    def st_Continue(self, node, state, frame):
        return [(state, Outcome("continue"))]

    def st_Raise(self, node, state, frame):
        if node.exc is None:
            # re-raise inside handler
            cur = state.envs[frame.fid].get("$exc")
            cls = cur[1] if cur else "Exception"
            self.ev(state, "raise", frame, node, cls=cls, reraise=True)
            return [(state, Outcome("raise", cur, cls=cls, site=self.site(frame, node)))]
        exc = node.exc
        args = []
        if isinstance(exc, ast.Call):
            cname = self._exc_name(exc.func)
            argnodes = exc.args
        else:
            cname = self._exc_name(exc)
            argnodes = []
            if isinstance(exc, ast.Name) and exc.id in state.envs[frame.fid] and \
                    state.envs[frame.fid][exc.id][0] == "exc":
                cname = state.envs[frame.fid][exc.id][1]

        def cont(s, vals):
            self.ev(s, "raise", frame, node, cls=cname, args=tuple(vals))
            return [(s, Outcome("raise", ("exc", cname, self.site(frame, node), tuple(vals)),
                                cls=cname, site=self.site(frame, node)))]
        return self._each_seq(argnodes, state, frame, cont)

    def _exc_name(self, node):
        if isinstance(node, ast.Name):
            return node.id
        if isinstance(node, ast.Attribute):
            return node.attr
        return "Exception"

    def _each_seq(self, nodes, state, frame, cont):
        out = []
        for (s, vals) in self.eval_seq(nodes, state, frame):
            if isinstance(vals, Outcome):
                out.append((s, vals))
            else:
                out.extend(cont(s, vals))
        return out

    # -- assignment --------------------------------------------------------
    def _filtered_comp_as_loop(self, node):
        """name = {elt for x in IT if C}  (or the list form), read as

            name = set()
            for x in IT:
                if C: name.add(elt)

        so that a set built by a filtering comprehension is the same object
        for the rules (a collection with recorded, path-conditioned additions)
        as one built by the explicit loop."""
        if len(node.targets) != 1 or not isinstance(node.targets[0], ast.Name):
            return None
        v = node.value
        if not isinstance(v, (ast.SetComp, ast.ListComp)) or len(v.generators) != 1:
            return None
        g = v.generators[0]
        if g.is_async:
            return None
        name = node.targets[0].id
        if any(isinstance(x, ast.Name) and x.id == name for x in ast.walk(v)):
            return None
        is_set = isinstance(v, ast.SetComp)
        init = ast.Assign(
            targets=[ast.Name(id=name, ctx=ast.Store())],
            value=ast.Call(func=ast.Name(id="set", ctx=ast.Load()), args=[], keywords=[])
            if is_set else ast.List(elts=[], ctx=ast.Load()), type_comment=None)
        add = ast.Expr(value=ast.Call(
            func=ast.Attribute(value=ast.Name(id=name, ctx=ast.Load()),
                               attr="add" if is_set else "append", ctx=ast.Load()),
            args=[v.elt], keywords=[]))
        if g.ifs:
            cond = g.ifs[0] if len(g.ifs) == 1 else ast.BoolOp(op=ast.And(),
                                                               values=list(g.ifs))
            body = [ast.If(test=cond, body=[add], orelse=[])]
        else:
            body = [add]          # an unfiltered copy: every element is added
        loop = ast.For(target=g.target, iter=g.iter, body=body,
                       orelse=[], type_comment=None)
        for n in (init, loop):
            ast.copy_location(n, v)
            for x in ast.walk(n):
                if not hasattr(x, "lineno"):
                    ast.copy_location(x, v)
            ast.fix_missing_locations(n)
        return [init, loop]

    def _iterated_later(self, name, node, frame):
        """is the local `name` the iterable of a for loop further down?"""
        for x in ast.walk(frame.func.node):
            if isinstance(x, ast.For) and x.lineno > node.lineno and any(
                    isinstance(y, ast.Name) and y.id == name for y in ast.walk(x.iter)):
                return True
        return False

    def st_Assign(self, node, state, frame):
        as_loop = self._filtered_comp_as_loop(node)
        if as_loop is not None and not self._iterated_later(node.targets[0].id, node, frame):
            # a value that is only tested / returned stays a term -- unless it is
            # one part of a partition: a sibling comprehension over the same
            # source is iterated (the parts are then read the same way)
            src = ast.dump(node.value.generators[0].iter)
            sib = False
            for x in ast.walk(frame.func.node):
                if x is not node and isinstance(x, ast.Assign) and \
                        self._filtered_comp_as_loop(x) is not None and \
                        ast.dump(x.value.generators[0].iter) == src and \
                        self._iterated_later(x.targets[0].id, x, frame):
                    sib = True
            if not sib:
                as_loop = None
        if as_loop is not None:
            return self.exec_block(as_loop, state, frame)

        def cont(s, v):
            res = [(s, NORMAL)]
            for t in node.targets:
                nxt = []
                for (s1, o) in res:
                    if o.kind != "normal":
                        nxt.append((s1, o))
                    else:
                        nxt.extend(self.assign(t, v, s1, frame, node))
                res = nxt
            return res
        return self._each(node.value, state, frame, cont)

    def st_AnnAssign(self, node, state, frame):
        if node.value is None:
            return [(state, NORMAL)]
        return self._each(node.value, state, frame,
                          lambda s, v: self.assign(node.target, v, s, frame, node))

    def st_AugAssign(self, node, state, frame):
        load = ast.copy_location(
            ast.BinOp(left=self._as_load(node.target), op=node.op,
                      right=node.value), node)
        ast.fix_missing_locations(load)
        return self._each(load, state, frame,
                          lambda s, v: self.assign(node.target, v, s, frame, node))

    def _as_load(self, t):
        if isinstance(t, ast.Name):
            return ast.copy_location(ast.Name(id=t.id, ctx=ast.Load()), t)
        if isinstance(t, ast.Attribute):
            return ast.copy_location(ast.Attribute(value=t.value, attr=t.attr,
                                                   ctx=ast.Load()), t)
        if isinstance(t, ast.Subscript):
            return ast.copy_location(ast.Subscript(value=t.value, slice=t.slice,
                                                   ctx=ast.Load()), t)
        raise AnalysisError("augmented assignment target not modelled")

    def assign(self, target, value, state, frame, stmt):
        """returns list of (state, Outcome)"""
        if isinstance(target, ast.Name):
            state.envs[frame.fid][target.id] = value
            return [(state, NORMAL)]
        if isinstance(target, (ast.Tuple, ast.List)):
            res = [(state, NORMAL)]
            for i, el in enumerate(target.elts):
                if value[0] == "tuple" and i < len(value[1]):
                    item = value[1][i]
                elif value[0] == "nt" and i < len(value[2]):
                    item = value[2][i][1]
                else:
                    item = ("item", value, i)
                nxt = []
                for (s1, o) in res:
                    nxt.extend(self.assign(el, item, s1, frame, stmt))
                res = nxt
            return res
        if isinstance(target, ast.Attribute):
            def cont(s, obj):
                return self.set_attr(obj, target.attr, value, s, frame, stmt)
            return self._each(target.value, state, frame, cont)
        if isinstance(target, ast.Subscript):
            def cont(s, base):
                return self._each(target.slice, s, frame,
                                  lambda s2, key: self.set_item(base, key, value, s2, frame, stmt, target))
            return self._each(target.value, state, frame, cont)
        raise AnalysisError("assignment target %s not modelled" %
                            type(target).__name__)

    def set_attr(self, obj, attr, value, state, frame, stmt):
        if obj[0] == "obj":
            old = state.heap.get((obj[2], attr))
            state.heap[(obj[2], attr)] = value
            # forget truthiness facts about the symbolic attribute
            sym = ("attr", obj, attr)
            for k in [k for k in state.facts if k == sym or
                      (k[0] in ("isnone",) and k[1] == sym)]:
                del state.facts[k]
            self.ev(state, "setattr", frame, stmt, obj=obj, attr=attr,
                    value=value, old=old)
            return [(state, NORMAL)]
        self.ev(state, "setattr", frame, stmt, obj=obj, attr=attr, value=value,
                old=None)
        return [(state, NORMAL)]

    def set_item(self, base, key, value, state, frame, stmt, target):
        # local keyword dict: functional update
        if base[0] == "kwdict" and isinstance(target.value, ast.Name) and is_const(key):
            items = tuple((k, v) for (k, v) in base[1] if k != key[1]) + ((key[1], value),)
            state.envs[frame.fid][target.value.id] = ("kwdict", items)
            return [(state, NORMAL)]
        if base[0] == "dictlit" and isinstance(target.value, ast.Name) and is_const(key):
            items = tuple((k, v) for (k, v) in base[1] if k != key) + ((key, value),)
            state.envs[frame.fid][target.value.id] = ("dictlit", items)
            return [(state, NORMAL)]
        if base[0] == "opaquedict":
            return [(state, NORMAL)]
        if base[0] in ("dictlit", "loopvar") and isinstance(target.value, ast.Name) and \
                base[0] == "dictlit":
            # a local dict filled under computed keys (a mapping used as a work
            # list / classification): what it holds afterwards is not modelled,
            # and rules that follow the collection would misjudge it
            # ... so it becomes opaque: reading an entry gives an unknown value,
            # and *iterating* it (where what it holds matters) stops the analysis
            state.envs[frame.fid][target.value.id] = (
                "opaquedict", target.value.id, frame.func.module, stmt.lineno)
            return [(state, NORMAL)]
        # registry / heap dict store
        key = plain(key)
        if value[0] == "obj":
            state.regs[(base, key)] = value
        self.ev(state, "reg_set", frame, stmt, reg=base, key=key, value=value)
        return [(state, NORMAL)]

    def _run_contextmanager(self, node, cm, state, frame):
        from .interp import Frame
        fi, pre, yval, post = cm
        ce = node.items[0].context_expr
        out = []
        for (s, vals) in self.eval_seq(list(ce.args) + [k.value for k in ce.keywords],
                                       state, frame):
            if isinstance(vals, Outcome):
                out.append((s, vals))
                continue
            args = vals[:len(ce.args)]
            kwargs = dict(zip([k.arg for k in ce.keywords], vals[len(ce.args):]))
            nf = Frame(fi, None, frame.depth + 1)
            env = {}
            params = list(fi.params)
            for j, pn in enumerate(params):
                if j < len(args):
                    env[pn] = args[j]
                elif pn in kwargs:
                    env[pn] = kwargs[pn]
                else:
                    dj = j - (len(params) - len(fi.defaults))
                    env[pn] = self.fold(fi.defaults[dj], self.repo.modules[fi.module]) \
                        if dj >= 0 else ("unknown", "missing-arg:" + pn)
            s.envs[nf.fid] = env
            s.stack = s.stack + (fi.qualname,)
            for (s1, o1) in self.exec_block(pre, s, nf):
                if o1.kind != "normal":
                    s1.stack = s1.stack[:-1]
                    out.append((s1, o1))
                    continue
                ys = self.eval(yval, s1, nf) if yval is not None else [(s1, NONE)]
                for (s2, yv) in ys:
                    if isinstance(yv, Outcome):
                        s2.stack = s2.stack[:-1]
                        out.append((s2, yv))
                        continue
                    s2.stack = s2.stack[:-1]
                    starts = [(s2, NORMAL)]
                    if node.items[0].optional_vars is not None:
                        starts = self.assign(node.items[0].optional_vars, yv, s2, frame, node)
                    for (s3, o3) in starts:
                        for (s4, o4) in self.exec_block(node.body, s3, frame):
                            if o4.kind == "raise":
                                # thrown into the generator at the yield: no
                                # handler there, post is skipped
                                out.append((s4, o4))
                                continue
                            s4.stack = s4.stack + (fi.qualname,)
                            for (s5, o5) in self.exec_block(post, s4, nf):
                                s5.stack = s5.stack[:-1]
                                out.append((s5, o4 if o5.kind == "normal" else o5))
        for (sx, _) in out:
            sx.envs.pop(nf.fid, None) if out else None
        return out

    # -- function definitions ------------------------------------------------
    def st_FunctionDef(self, node, state, frame):
        from .repo import FuncInfo
        fi = FuncInfo(frame.func.module, frame.func.cls, node, parent=frame.func)
        cid = (fi.qualname, node.lineno)
        self.closures[cid] = (fi, frame)
        self.__dict__.setdefault("closure_frames", {}).setdefault(cid, []).append(frame)
        frame.has_closure = True
        state.envs[frame.fid][node.name] = ("closure", cid)
        return [(state, NORMAL)]

    # -- if ---------------------------------------------------------------
    BENIGN_EXT = ("log.msg", "log.err", "print")

    def _benign_events(self, evs):
        for e in evs:
            if e["k"] == "ext" and short_name(e["name"]) in self.BENIGN_EXT:
                continue
            return False
        return True

    def _is_type_assertion(self, node):
        """`if not isinstance(x, T): raise TypeError(...)` (or AssertionError):
        the explicit spelling of `assert isinstance(x, T)` -- like an assert it
        is an assumption about the types of internal values (DESIGN: asserts
        on identifiers are assumptions), not a branch of the protocol"""
        t = node.test
        if node.orelse or len(node.body) != 1 or not isinstance(node.body[0], ast.Raise):
            return False
        if not (isinstance(t, ast.UnaryOp) and isinstance(t.op, ast.Not) and
                isinstance(t.operand, ast.Call) and isinstance(t.operand.func, ast.Name)
                and t.operand.func.id == "isinstance"):
            return False
        exc = node.body[0].exc
        if isinstance(exc, ast.Call):
            exc = exc.func
        return isinstance(exc, ast.Name) and exc.id in ("TypeError", "AssertionError")

    def st_If(self, node, state, frame):
        if self._is_type_assertion(node):
            return [(state, NORMAL)]
        out = []
        n0 = len(state.events)
        pc0 = state.pc
        facts0 = state.facts
        for (s, b) in self.branch(node.test, state, frame):
            if isinstance(b, Outcome):
                out.append((s, b))
                continue
            if b:
                out.extend(self._block_in(node.body, s, frame))
            else:
                out.extend(self._block_in(node.orelse, s, frame))
        # benign diamond: arms that only log are merged back into one path
        if len(out) > 1 and all(o.kind == "normal" for (_, o) in out):
            s0 = out[0][0]
            a0 = (s0.dirty, s0.wrote, s0.heap, s0.envs, s0.regs, s0.rowfacts,
                  s0.fresh, s0.sel)
            same = True
            for (s, o) in out:
                if not self._benign_events(s.events[n0:]):
                    same = False
                    break
                if (s.dirty, s.wrote, s.heap, s.envs, s.regs, s.rowfacts,
                        s.fresh, s.sel) != a0:
                    same = False
                    break
            if same:
                arms = [(s.pc[len(pc0):], s.events[n0:]) for (s, o) in out]
                s0.events = s0.events[:n0]
                s0.pc = pc0
                s0.facts = dict((k, v) for k, v in s0.facts.items()
                                if all(s.facts.get(k, None) == v and k in s.facts
                                       for (s, o) in out))
                self.ev(s0, "benign_if", frame, node, arms=arms)
                return [(s0, NORMAL)]
        return out

    def _block_in(self, stmts, state, frame):
        """run a block with a private copy of the frame env (paths must not
        share variable bindings) and write the env back into the state-bound
        frame clone."""
        # envs are per-path: clone the frame chain lazily by copying env
        return self.exec_block(stmts, state, frame)

    # -- try ----------------------------------------------------------------
    def st_Try(self, node, state, frame):
        hnames = []
        for h in node.handlers:
            if h.type is None:
                hnames.append(("BaseException",))
            elif isinstance(h.type, ast.Tuple):
                hnames.append(tuple(self._exc_name(e) for e in h.type.elts))
            else:
                hnames.append((self._exc_name(h.type),))
        flat = tuple(n for hn in hnames for n in hn)
        state.handlers = state.handlers + ((flat, self.site(frame, node)),)
        depth = len(state.handlers)
        results = []
        for (s, o) in self.exec_block(node.body, state, frame):
            s.handlers = s.handlers[:depth - 1]
            if o.kind == "raise":
                handled = False
                for h, names in zip(node.handlers, hnames):
                    if self.exc_matches(o.cls, names):
                        handled = True
                        self.ev(s, "catch", frame, h, cls=o.cls, by=names)
                        if h.name:
                            s.envs[frame.fid][h.name] = o.value or ("exc", o.cls, o.site, ())
                        s.envs[frame.fid]["$exc"] = o.value or ("exc", o.cls, o.site, ())
                        results.extend(self.exec_block(h.body, s, frame))
                        break
                if not handled:
                    results.append((s, o))
            elif o.kind == "normal" and node.orelse:
                results.extend(self.exec_block(node.orelse, s, frame))
            else:
                results.append((s, o))
        if node.finalbody:
            fin = []
            for (s, o) in results:
                for (s2, o2) in self.exec_block(node.finalbody, s, frame):
                    fin.append((s2, o if o2.kind == "normal" else o2))
            results = fin
        return results

    EXC_PARENTS = {
        "Error": "Exception", "CrowdedError": "Exception",
        "ReclaimedError": "Exception", "DBError": "Exception",
        "DBDoesntExist": "Exception", "DBAlreadyExists": "Exception",
        "ValueError": "Exception", "KeyError": "LookupError",
        "IndexError": "LookupError", "LookupError": "Exception",
        "TypeError": "Exception", "AssertionError": "Exception",
        "IntegrityError": "DatabaseError", "OperationalError": "DatabaseError",
        "DatabaseError": "Exception", "EnvironmentError": "Exception",
        "OSError": "Exception", "IOError": "Exception",
        "FileNotFoundError": "OSError", "UsageError": "Exception",
        "Exception": "BaseException", "AttributeError": "Exception",
        "RuntimeError": "Exception", "StopIteration": "Exception",
    }

    def exc_matches(self, cls, names):
        seen = 0
        c = cls
        while c and seen < 10:
            if c in names:
                return True
            if c in ("OSError", "IOError", "EnvironmentError") and \
                    set(names) & {"OSError", "IOError", "EnvironmentError"}:
                return True
            # classes of the package: their declared bases (the table below
            # describes library classes and the tree's defaults only)
            nxt = None if c in self.repo.classes else self.EXC_PARENTS.get(c)
            if nxt is None:
                # internal exception classes: look at the class bases
                ent = self.repo.classes.get(c)
                if ent:
                    bases = ent[1]["bases"]
                    nxt = bases[0].split(".")[-1] if bases else "Exception"
                elif c != "BaseException":
                    nxt = "Exception"
            c = nxt
            seen += 1
        return False

    # -- with ----------------------------------------------------------------
    def _simple_contextmanager(self, node, state, frame):
        """`with helper(args) [as v]:` where helper is a function of the package
        decorated with contextlib.contextmanager and shaped  pre; yield X; post
        (no try around the yield): the block runs between pre and post, and
        post is skipped when the block raises.  Returns (fi, pre, yield value
        node, post) or None."""
        if len(node.items) != 1:
            return None
        ce = node.items[0].context_expr
        if not (isinstance(ce, ast.Call) and isinstance(ce.func, ast.Name)):
            return None
        tgt = self.lookup_name(ce.func.id, state, frame)
        if tgt[0] != "func":
            return None
        fi = self.repo.function(tgt[1], tgt[2])
        if fi is None:
            return None
        from .repo import dotted
        if not any((dotted(d) or "").split(".")[-1] == "contextmanager"
                   for d in fi.node.decorator_list):
            return None
        body = [st for st in fi.node.body
                if not (isinstance(st, ast.Expr) and isinstance(st.value, ast.Constant))]
        idx = [i for i, st in enumerate(body)
               if isinstance(st, ast.Expr) and isinstance(st.value, ast.Yield)]
        nyields = sum(1 for n in ast.walk(fi.node) if isinstance(n, (ast.Yield, ast.YieldFrom)))
        if len(idx) != 1 or nyields != 1:
            raise AnalysisError("context manager %s is not of the form pre; yield; post "
                                "(%s:%d)" % (fi.qualname, frame.func.module, node.lineno))
        i = idx[0]
        return fi, body[:i], body[i].value.value, body[i + 1:]

    def st_With(self, node, state, frame):
        cm = self._simple_contextmanager(node, state, frame)
        if cm is not None:
            return self._run_contextmanager(node, cm, state, frame)
        res = [(state, NORMAL)]
        dbs = []   # database handles used as context managers (sqlite3:
        #            commit when the block is left normally, rollback on an
        #            exception; the connection stays open)
        for item in node.items:
            nxt = []
            for (s, o) in res:
                if o.kind != "normal":
                    nxt.append((s, o))
                    continue

                def cont(s2, v, item=item):
                    dbn = self.db_name(v)
                    if dbn is not None and (dbn, v) not in dbs:
                        dbs.append((dbn, v))
                    if item.optional_vars is not None:
                        return self.assign(item.optional_vars, v, s2, frame, node)
                    return [(s2, NORMAL)]
                nxt.extend(self._each(item.context_expr, s, frame, cont))
            res = nxt
        out = []
        for (s, o) in res:
            if o.kind != "normal":
                out.append((s, o))
                continue
            for (s2, o2) in self.exec_block(node.body, s, frame):
                for (dbn, v) in dbs:
                    self.db_call(v, dbn, "rollback" if o2.kind == "raise" else "commit",
                                 [], {}, s2, frame, node)
                out.append((s2, o2))
        return out
