"""E1 -- inlining abstract interpreter producing abstract event paths.

See DESIGN.md section 3.2.  The interpreter walks the Python AST from an entry
point, inlines internal callees, evaluates expressions to provenance terms
(sa/terms.py), forks on branch tests it cannot decide (recording the fact so
that later tests of the same term agree), treats loops as composite events
whose body alternatives are explored from every reachable abstract state, and
records events.  Nothing of the analysed program is executed.
"""
import ast

from . import sql as sqlmod
from .repo import AnalysisError, dotted
from .terms import (NONE, TRUE, FALSE, const, is_const, mentions, walk,
                    strip_wrappers)

MAX_DEPTH = 14
MAX_PATHS = 20000
MAX_LOOP_ROUNDS = 6

# attributes that carry the same value through the constructor chain
# makeService -> make_server -> Server -> AppNamespace -> Mailbox; the chain
# itself is checked by rule R-plumb (sa/rules/shared.py).
CFG_CLASSES = ("Server", "AppNamespace", "Mailbox")

DB_METHODS = ("execute", "executescript", "commit", "close", "rollback")


class Frame(object):
    __slots__ = ("func", "fid", "self_term", "depth", "cells", "has_closure", "callsite")
    _next = [0]

    def __init__(self, func, self_term, depth, cells=None):
        self.func = func
        Frame._next[0] += 1
        self.fid = Frame._next[0]   # key of this frame's env in State.envs
        self.self_term = self_term
        self.depth = depth
        self.cells = cells  # enclosing Frame (for closures) or None
        self.has_closure = False
        self.callsite = None   # set for SQL pass-through helpers: the caller's site


class State(object):
    __slots__ = ("heap", "facts", "dirty", "wrote", "events", "pc",
                 "rowfacts", "regs", "handlers", "stack", "fresh", "envs", "sel")

    def __init__(self):
        self.heap = {}       # (objtag, attr) -> term
        self.facts = {}      # term -> bool (truthiness)
        self.dirty = frozenset()
        self.wrote = False
        self.events = []
        self.pc = ()         # tuple of (term, polarity, site)
        self.rowfacts = ()   # tuple of (kind, table, frozenset((col, term)))
        self.regs = {}       # (regterm, keyterm) -> obj term
        self.handlers = ()   # enclosing try handlers: tuple of tuple(class names)
        self.stack = ()      # qualnames of inlined frames
        self.fresh = ()      # (table, col, term) rows created on this path
        self.envs = {}       # frame id -> {var: term}
        self.sel = {}        # select site -> (table, frozenset((col, term)), simple)

    def fork(self):
        s = State()
        s.heap = dict(self.heap)
        s.facts = dict(self.facts)
        s.dirty = self.dirty
        s.wrote = self.wrote
        s.events = list(self.events)
        s.pc = self.pc
        s.rowfacts = self.rowfacts
        s.regs = dict(self.regs)
        s.handlers = self.handlers
        s.stack = self.stack
        s.fresh = self.fresh
        s.envs = dict((k, dict(v)) for k, v in self.envs.items())
        s.sel = dict(self.sel)
        return s

    def abstract(self, frame):
        consts = []
        if frame is not None:
            for k, v in self.envs.get(frame.fid, {}).items():
                if is_const(v) and isinstance(v[1], (bool, type(None))):
                    consts.append((k, v))
                elif v[0] == "opaquedict":
                    # "this local dict has been filled" distinguishes states
                    consts.append((k, ("const", "<filled>")))
        return (self.dirty, self.wrote, frozenset(consts),
                frozenset(self.heap.items()), frozenset(self.facts.items()),
                self.rowfacts, self.fresh)


class Outcome(object):
    __slots__ = ("kind", "value", "cls", "site")

    def __init__(self, kind, value=None, cls=None, site=None):
        self.kind = kind      # normal | return | raise | break | continue
        self.value = value
        self.cls = cls
        self.site = site

    def __repr__(self):
        return "<%s %s>" % (self.kind, self.cls or "")


NORMAL = Outcome("normal")


class Raised(Exception):
    """internal: an expression evaluation raised in the analysed program"""

    def __init__(self, state, outcome):
        self.state = state
        self.outcome = outcome


class InterpBase(object):
    def __init__(self, repo, server_slots=None):
        self.repo = repo
        self.server_slots = dict(server_slots or {})
        self.names = None
        self.closures = {}     # id -> (FuncInfo, Frame)
        self.coll_adds = {}    # coll site -> list of dict(elem, pc, site, func)
        self.npaths = 0
        self.unknown_externals = set()
        self.sql_sites = {}    # site -> Stmt
        self.listener_closures = None
        self.registries = None
        self.attr_types = None
        self.loop_rounds = {}
        self.merges = {}
        self._merge_ids = {}
        self._fold_cache = {}
        self.pure_memo = {}
        self._gen_cache = {}
        self._prepare()

    # ------------------------------------------------------------------
    # front-end derived tables
    def _prepare(self):
        from .repo import FuncInfo
        repo = self.repo
        # registries: class attr assigned {} in __init__ and used in a
        # get-or-create pattern  self.R[k] = T(...)
        self.registries = {}
        for cname, (mod, cd) in repo.classes.items():
            for meth in cd["methods"].values():
                for node in ast.walk(meth.node):
                    if isinstance(node, ast.Assign):
                        subs = [x for x in node.targets if isinstance(x, ast.Subscript)]
                        t = subs[0] if len(subs) == 1 else None
                        if isinstance(t, ast.Subscript) and \
                                isinstance(t.value, ast.Attribute) and \
                                isinstance(t.value.value, ast.Name) and \
                                t.value.value.id == "self":
                            call = node.value
                            if isinstance(call, ast.Name):
                                # x = T(...); self.R[k] = x
                                cands = [n.value for n in ast.walk(meth.node)
                                         if isinstance(n, ast.Assign) and
                                         len(n.targets) == 1 and
                                         isinstance(n.targets[0], ast.Name) and
                                         n.targets[0].id == call.id and
                                         isinstance(n.value, ast.Call) and
                                         isinstance(n.value.func, ast.Name) and
                                         n.value.func.id in repo.classes]
                                call = cands[0] if len(cands) == 1 else None
                            key_expr = t.slice
                            factory = None
                            if isinstance(call, ast.Call) and \
                                    isinstance(call.func, ast.Attribute) and \
                                    isinstance(call.func.value, ast.Name) and \
                                    call.func.value.id == "self" and \
                                    call.func.attr in cd["methods"]:
                                # self.R[k] = self._make(k): a factory method
                                # whose only result is T(...)
                                fac = cd["methods"][call.func.attr]
                                rets = [n.value for n in ast.walk(fac.node)
                                        if isinstance(n, ast.Return) and n.value is not None]
                                if len(rets) == 1 and isinstance(rets[0], ast.Call) and \
                                        isinstance(rets[0].func, ast.Name) and \
                                        rets[0].func.id in repo.classes:
                                    if isinstance(key_expr, ast.Name):
                                        for i, a in enumerate(call.args):
                                            if isinstance(a, ast.Name) and a.id == key_expr.id \
                                                    and i + 1 < len(fac.params):
                                                key_expr = ast.Name(id=fac.params[i + 1],
                                                                    ctx=ast.Load())
                                    factory = (fac, call)
                                    call = rets[0]
                            if isinstance(call, ast.Call) and \
                                    isinstance(call.func, ast.Name) and \
                                    call.func.id in repo.classes:
                                self.registries[(cname, t.value.attr)] = {
                                    "owner": cname, "attr": t.value.attr,
                                    "value_cls": call.func.id,
                                    "construct": call,
                                    "key_expr": key_expr,
                                    "func": meth if factory is None else factory[0],
                                    "store_func": meth,
                                    "factory": factory,
                                }
        # id attribute of each registry's value class (the slot the key goes to)
        self.id_attrs = set()
        for key, r in self.registries.items():
            r["id_attr"] = None
            init = repo.method(r["value_cls"], "__init__")
            ke = r["key_expr"]
            if init is None or not isinstance(ke, ast.Name):
                continue
            call = r["construct"]
            pname = None
            for i, a in enumerate(call.args):
                if isinstance(a, ast.Name) and a.id == ke.id and i + 1 < len(init.params):
                    pname = init.params[i + 1]
            for kw in call.keywords:
                if isinstance(kw.value, ast.Name) and kw.value.id == ke.id:
                    pname = kw.arg
            if pname is None:
                continue
            for n in ast.walk(init.node):
                if isinstance(n, ast.Assign) and len(n.targets) == 1 and \
                        isinstance(n.targets[0], ast.Attribute) and \
                        isinstance(n.value, ast.Name) and n.value.id == pname:
                    r["id_attr"] = n.targets[0].attr
                    self.id_attrs.add((r["value_cls"], n.targets[0].attr))
        # listener closures: non-test call sites of add_listener
        self.listener_closures = []
        for f in repo.all_functions():
            for node in ast.walk(f.node):
                if isinstance(node, ast.Call) and \
                        isinstance(node.func, ast.Attribute) and \
                        node.func.attr == "add_listener":
                    self.listener_closures.append((f, node))
        # attribute class typing
        self._infer_attr_types()
        # attribute roles (configuration slots, id attributes, listener table)
        from .names import Names
        self.names = Names(self, self.server_slots)
        for c, a in self.names.app_id_attr.items():
            self.id_attrs.add((c, a))

    def _expr_type(self, expr, cls, func, depth=0):
        """class name of an expression, None for const None, '?' unknown"""
        repo = self.repo
        if depth > 6:
            return "?"
        if isinstance(expr, ast.Constant):
            return None if expr.value is None else "#const"
        if isinstance(expr, ast.Call):
            f = expr.func
            if isinstance(f, ast.Name) and f.id in repo.classes:
                return f.id
            if isinstance(f, ast.Attribute) and f.attr in ("get", "pop", "setdefault") and \
                    isinstance(f.value, ast.Attribute) and \
                    isinstance(f.value.value, ast.Name) and f.value.value.id == "self":
                r = self.registries.get((cls, f.value.attr))
                if r:
                    return r["value_cls"]
            if isinstance(f, ast.Attribute):
                # method by unique name among internal classes
                cands = [c for c, (m, cd) in repo.classes.items()
                         if f.attr in cd["methods"]]
                if len(cands) == 1:
                    return self._ret_type(repo.method(cands[0], f.attr), depth + 1)
            if isinstance(f, ast.Name):
                for m in repo.modules.values():
                    if f.id in m.functions:
                        return self._ret_type(m.functions[f.id], depth + 1)
            return "?"
        if isinstance(expr, ast.Subscript) and isinstance(expr.value, ast.Attribute) \
                and isinstance(expr.value.value, ast.Name) and expr.value.value.id == "self":
            r = self.registries.get((cls, expr.value.attr))
            if r:
                return r["value_cls"]
            return "?"
        if isinstance(expr, ast.Attribute) and isinstance(expr.value, ast.Name) and \
                expr.value.id == "self" and depth > 0:
            # x = self.attr ... self.attr = x: says nothing new about the type
            return None
        if isinstance(expr, ast.Name):
            if expr.id == "self":
                return cls
            # single assignment local
            if func is not None:
                vals = []
                for node in ast.walk(func.node):
                    if isinstance(node, ast.Assign):
                        for t in node.targets:
                            if isinstance(t, ast.Name) and t.id == expr.id:
                                vals.append(node.value)
                tys = set(self._expr_type(v, cls, func, depth + 1) for v in vals)
                tys.discard(None)
                if len(tys) == 1:
                    return tys.pop()
            return "?"
        if isinstance(expr, (ast.Dict, ast.List, ast.Tuple, ast.Set,
                             ast.Compare, ast.BoolOp, ast.BinOp)):
            return "#const"
        return "?"

    def _ret_type(self, func, depth):
        types = set()
        for node in ast.walk(func.node):
            if isinstance(node, ast.Return) and node.value is not None:
                types.add(self._expr_type(node.value, func.cls, func, depth))
        types.discard(None)
        if len(types) == 1:
            return types.pop()
        return "?"

    def _infer_attr_types(self):
        repo = self.repo
        self.attr_types = {}
        for cname, (mod, cd) in repo.classes.items():
            seen = {}
            for meth in cd["methods"].values():
                for node in ast.walk(meth.node):
                    if isinstance(node, ast.Assign):
                        for t in node.targets:
                            if isinstance(t, ast.Attribute) and \
                                    isinstance(t.value, ast.Name) and \
                                    t.value.id == "self":
                                ty = self._expr_type(node.value, cname, meth)
                                if ty == "?" and isinstance(node.value, ast.Name) \
                                        and node.value.id in meth.params:
                                    ty = self._param_type(cname, meth, node.value.id)
                                seen.setdefault(t.attr, set()).add(ty)
            for attr, tys in seen.items():
                tys = set(tys)
                tys.discard(None)
                if len(tys) == 1:
                    ty = tys.pop()
                    if ty in repo.classes:
                        self.attr_types[(cname, attr)] = ty

    def _param_type(self, cname, meth, pname):
        """type of a constructor parameter from the internal construct sites"""
        if meth.name != "__init__":
            return "?"
        idx = meth.params.index(pname) - 1
        tys = set()
        for f in self.repo.all_functions():
            for node in ast.walk(f.node):
                if isinstance(node, ast.Call) and isinstance(node.func, ast.Name) \
                        and node.func.id == cname:
                    arg = None
                    if idx < len(node.args):
                        arg = node.args[idx]
                    for kw in node.keywords:
                        if kw.arg == pname:
                            arg = kw.value
                    if arg is not None:
                        tys.add(self._expr_type(arg, f.cls, f))
        tys.discard(None)
        if len(tys) == 1:
            return tys.pop()
        return "?"
