"""Apply a unified diff (git format) to file texts in memory.

Used by the thorough tier to analyse the seeded changes (seeded/*/patch.diff)
and the behaviour-preserving refactorings (benign/*.diff) as variants of the
*current* tree without touching the disk.  A patch whose context does not match
the current tree is reported as not applicable (None), never guessed."""
import os
import re

_HUNK = re.compile(r"^@@ -(\d+)(?:,(\d+))? \+(\d+)(?:,(\d+))? @@")


def parse(text):
    """-> list of (path, [hunks]); hunk = (old_start, [(tag, line), ...])"""
    files = []
    cur = None
    hunk = None
    all_lines = text.splitlines()
    need_old = need_new = 0     # lines still owed to the current hunk
    for li, line in enumerate(all_lines):
        if hunk is not None and (need_old > 0 or need_new > 0) and line[:1] in (" ", "+", "-"):
            # inside a hunk every line is content, also one that looks like a
            # header ("--- x" is the removal of the SQL comment "-- x")
            hunk[1].append((line[0], line[1:]))
            if line[0] in (" ", "-"):
                need_old -= 1
            if line[0] in (" ", "+"):
                need_new -= 1
            continue
        if line.startswith("diff --git "):
            cur = None
            hunk = None
            continue
        if line.startswith("--- "):
            continue
        if line.startswith("+++ "):
            p = line[4:].strip()
            if p.startswith("b/"):
                p = p[2:]
            cur = (p, [])
            files.append(cur)
            hunk = None
            continue
        m = _HUNK.match(line)
        if m and cur is not None:
            hunk = (int(m.group(1)), [])
            cur[1].append(hunk)
            need_old = int(m.group(2)) if m.group(2) is not None else 1
            need_new = int(m.group(4)) if m.group(4) is not None else 1
            continue
        if hunk is not None and line[:1] in (" ", "+", "-"):
            hunk[1].append((line[0], line[1:]))
        elif hunk is not None and line == "":
            hunk[1].append((" ", ""))
        elif line.startswith("\\"):
            continue
    return files


def apply(root, diff_text):
    """-> {relative path: new text} or None when some hunk does not apply"""
    out = {}
    for (path, hunks) in parse(diff_text):
        full = os.path.join(root, path)
        if os.path.exists(full):
            with open(full, "r", encoding="utf-8") as f:
                lines = f.read().split("\n")
        else:
            lines = [""]          # a file the patch creates
        offset = 0
        for (start, body) in hunks:
            old = [l for (t, l) in body if t in (" ", "-")]
            new = [l for (t, l) in body if t in (" ", "+")]
            # trailing context-only blank artefacts
            pos = None
            guess = max(0, start - 1 + offset)
            for delta in [0] + [d for k in range(1, 60) for d in (k, -k)]:
                i = guess + delta
                if i < 0 or i + len(old) > len(lines):
                    continue
                if lines[i:i + len(old)] == old:
                    pos = i
                    break
            if pos is None:
                if not old and not os.path.exists(full):
                    pos = 0
                else:
                    return None
            lines[pos:pos + len(old)] = new
            offset += len(new) - len(old)
        out[path] = "\n".join(lines)
    return out
