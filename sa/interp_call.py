"""E1: attributes, subscripts, calls, SQL events, registries."""
import ast

from . import sql as sqlmod
from .repo import AnalysisError, dotted
from .interp_exec import short_name
from .interp import (Outcome, NORMAL, Frame, CFG_CLASSES, State,
                     MAX_DEPTH)
from .interp_eval import NON_NONE_CTORS
from .terms import NONE, TRUE, FALSE, const, is_const, strip_wrappers, plain, walk

PURE_METHODS = {"lower", "upper", "strip", "decode", "encode", "split",
                "format", "join", "startswith", "endswith", "items", "keys",
                "values", "get", "copy", "replace", "lstrip", "rstrip",
                "isdigit", "fileno"}


class CallMixin(object):

    # -- attribute load ------------------------------------------------------
    def ex_Attribute(self, node, state, frame):
        out = []
        for (s, base) in self.eval(node.value, state, frame):
            if isinstance(base, Outcome):
                out.append((s, base))
                continue
            if base[0] == "obj":
                fi = self.repo.method(base[1], node.attr)
                if fi is not None and fi.is_property:
                    # a @property accessor: reading the attribute runs it
                    out.extend(self.call_function(fi, base, [], {}, s, frame, node))
                    continue
            out.append((s, self.get_attr(base, node.attr, s, frame, node)))
        return out

    def get_attr(self, base, attr, state, frame, node):
        k = base[0]
        if base in self.__dict__.get("path_typed", ()) and attr in (
                "name", "parent", "stem", "suffix"):
            if attr == "name":
                return ("call", "os.path.basename", (base,), ())
            if attr == "parent":
                v = ("call", "os.path.dirname", (base,), ())
                self.path_typed.add(v)
                return v
            return ("call", "pathlib." + attr, (base,), ())
        if k == "obj":
            cls, tag = base[1], base[2]
            role = self.names.cfg.get((cls, attr))
            if role is not None:
                return role
            if (tag, attr) in state.heap:
                v = state.heap[(tag, attr)]
                if (cls, attr) in self.id_attrs:
                    if v[0] == "idof":
                        v = v[3]
                    return ("idof", base, attr, v)
                if v[0] in ("dictlit", "coll") and (cls, attr) in self.container_attrs():
                    return ("reg", base, attr)
                return v
            ent = self.repo.classes.get(cls)
            if ent:
                meth = ent[1]["methods"].get(attr)
                if meth is not None:
                    return ("bound", base, cls, attr)
                if attr in ent[1]["attrs"]:
                    return self.fold(ent[1]["attrs"][attr], ent[0])
            if (cls, attr) in self.container_attrs():
                return ("reg", base, attr)
            ty = self.attr_types.get((cls, attr))
            if ty:
                return ("obj", ty, ("held", tag, attr))
            return ("attr", base, attr)
        if k == "attr" and base[2] == "factory" and attr == "server" and \
                base[1][0] == "obj" and base[1][1] == "WebSocketServer":
            # frozen receiver: WebSocketServerFactory.__init__ stores the
            # Server given to make_web_server (checked by rule R-plumb)
            return ("obj", "Server", "server")
        if k == "mod":
            return ("mod", base[1] + "." + attr)
        if k == "cursor" and attr == "lastrowid":
            return ("lastrowid", base[1])
        if k == "dbcur" and attr == "lastrowid" and (base, "#result") in state.heap:
            return ("lastrowid", state.heap[(base, "#result")][1])
        if k == "exc" and isinstance(base[1], str):
            # a class-level attribute of the exception's class (or of a base)
            c, hops = base[1], 0
            while c in self.repo.classes and hops < 6:
                m0, cd0 = self.repo.classes[c]
                if attr in cd0["attrs"]:
                    return self.fold(cd0["attrs"][attr], m0)
                bs = cd0["bases"]
                c = bs[0].split(".")[-1] if bs else None
                hops += 1
        if k == "nt":
            for (f, v) in base[2]:
                if f == attr:
                    return v
        if k == "elem":
            coll = strip_wrappers(base[1])
            if coll[0] == "coll":
                adds = self.coll_adds.get(coll[1], [])
                vals = set()
                for a in adds:
                    if a["elem"][0] == "nt":
                        vals.add(self.get_attr(a["elem"], attr, state, frame, node))
                    else:
                        vals.add(None)
                if len(vals) == 1 and None not in vals:
                    return vals.pop()
            if coll[0] == "comp" and coll[2][0] == "nt":
                # element of [T(...) for row in rows]: its fields are the
                # comprehension's element expression
                return self.get_attr(coll[2], attr, state, frame, node)
        if k == "merge":
            # attribute of a value merged over the callee's branches
            alts = tuple((pc, self.get_attr(v, attr, state, frame, node))
                         for (pc, v) in self.merges[base])
            vals = set(v for (_, v) in alts)
            if len(vals) == 1:
                return vals.pop()
            return self.new_merge(base[1] + "." + attr, base[2], alts)
        if k == "exc":
            # attributes of a caught exception instance
            return ("attr", base, attr)
        return ("attr", base, attr)

    _container_attrs = None

    def container_attrs(self):
        """(class, attr) pairs initialised to a dict/list/set literal in
        __init__: the process-lifetime containers."""
        if self._container_attrs is None:
            res = set()
            for cname, (mod, cd) in self.repo.classes.items():
                for meth in cd["methods"].values():
                    for n in ast.walk(meth.node):
                        if isinstance(n, ast.Assign):
                            for t in n.targets:
                                if isinstance(t, ast.Attribute) and \
                                        isinstance(t.value, ast.Name) and \
                                        t.value.id == "self":
                                    v = n.value
                                    if isinstance(v, (ast.Dict, ast.List, ast.Set)) or \
                                            (isinstance(v, ast.Call) and
                                             isinstance(v.func, ast.Name) and
                                             v.func.id in ("dict", "set", "list") and not v.args):
                                        res.add((cname, t.attr))
            self._container_attrs = res
        return self._container_attrs

    _mutable_attrs = None

    def mutable_attrs(self):
        """(class, attr) pairs assigned outside __init__ (counters, flags)"""
        if self._mutable_attrs is None:
            res = set()
            for cname, (mod, cd) in self.repo.classes.items():
                for meth in cd["methods"].values():
                    if meth.name == "__init__":
                        continue
                    for n in ast.walk(meth.node):
                        if isinstance(n, ast.Attribute) and isinstance(n.ctx, ast.Store) \
                                and isinstance(n.value, ast.Name) and n.value.id == "self":
                            res.add((cname, n.attr))
            self._mutable_attrs = res
        return self._mutable_attrs

    # -- subscript load --------------------------------------------------------
    def ex_Subscript(self, node, state, frame):
        out = []
        if isinstance(node.slice, ast.Slice):
            parts = [node.value] + [x for x in (node.slice.lower, node.slice.upper,
                                                node.slice.step) if x is not None]
            for (s, vals) in self.eval_seq(parts, state, frame):
                if isinstance(vals, Outcome):
                    out.append((s, vals))
                else:
                    out.append((s, ("slice", vals[0], tuple(vals[1:]))))
            return out
        for (s, vals) in self.eval_seq([node.value, node.slice], state, frame):
            if isinstance(vals, Outcome):
                out.append((s, vals))
                continue
            base, key = vals
            if base[0] == "reg" and base[1][0] == "obj" and \
                    (base[1][1], base[2]) in self.registries and \
                    isinstance(node.ctx, ast.Load) and any(
                        "KeyError" in h[0] or "LookupError" in h[0] for h in s.handlers):
                # try: R[k] ... except KeyError: the subscript is the membership test
                member = ("cmp", "in", plain(key), base)
                for (s2, b) in self.split(member, s, frame, node):
                    if b:
                        out.append((s2, self.get_item(base, key, s2, frame, node)))
                    else:
                        self.ev(s2, "raise", frame, node, cls="KeyError", value=None)
                        out.append((s2, Outcome("raise", cls="KeyError",
                                                site=self.site(frame, node))))
                continue
            out.append((s, self.get_item(base, key, s, frame, node)))
        return out

    def get_item(self, base, key, state, frame, node):
        if base[0] == "row" and is_const(key):
            # SELECT COUNT(*) [AS n] ... .fetchone()["n"] / [0]: the number of rows
            # the same WHERE matches
            st = self.sql_sites.get(base[1])
            if st is not None and st.kind == "select" and st.cols == ["COUNT()"] and \
                    not st.extra.get("group_by") and \
                    key[1] in (st.extra.get("count_alias"), 0, "COUNT(*)", "count(*)"):
                return ("call", "len", (("rows", base[1]),), ())
        if base[0] == "reg":
            obj = self.registry_get(base, key, state, frame, node)
            if obj is not None:
                return obj
        if base[0] in ("kwdict",) and is_const(key):
            for (k, v) in base[1]:
                if k == key[1]:
                    return v
        if base[0] == "dictlit":
            for (k, v) in base[1]:
                if k == key:
                    return v
        if base[0] == "tuple" and is_const(key) and isinstance(key[1], int) \
                and -len(base[1]) <= key[1] < len(base[1]):
            return base[1][key[1]]
        if is_const(key) and isinstance(key[1], int):
            inner = strip_wrappers(base)
            if inner[0] in ("rows", "comp", "coll", "loopvar") or base[0] in ("call",):
                self.ev(state, "index", frame, node, base=base, key=key)
        return ("sub", base, key)

    # -- registries ----------------------------------------------------------------
    def registry_get(self, reg, key, state, frame, node):
        key = plain(key)
        owner = reg[1]
        info = self.registries.get((owner[1], reg[2]))
        if (reg, key) in state.regs:
            obj = state.regs[(reg, key)]
            self.ev(state, "reg_get", frame, node, reg=reg, key=key, obj=obj,
                    created=True)
            return obj
        if info is None:
            return None
        obj = self.make_registry_obj(info, owner, key, state, frame, node)
        state.regs[(reg, key)] = obj
        self.ev(state, "reg_get", frame, node, reg=reg, key=key, obj=obj,
                created=False)
        return obj

    def make_registry_obj(self, info, owner, key, state, frame, node):
        """a pre-existing object of the registry: constructed earlier by the
        unique construct site (rule E4 construct-once) with `key` in the slot
        of the key expression."""
        vcls = info["value_cls"]
        tag = ("reg", owner[2], info["attr"], key)
        obj = ("obj", vcls, tag)
        init = self.repo.method(vcls, "__init__")
        if init is None:
            return obj
        call = info["construct"]
        keyname = info["key_expr"].id if isinstance(info["key_expr"], ast.Name) else None
        synth = Frame(info["func"], owner, frame.depth + 1)
        state.envs[synth.fid] = {}
        if keyname:
            state.envs[synth.fid][keyname] = key
        saved_events = state.events
        state.events = []
        res = self.eval_seq(list(call.args) + [kw.value for kw in call.keywords],
                            state, synth)
        if len(res) != 1 or isinstance(res[0][1], Outcome):
            raise AnalysisError("registry construct site of %s has branching "
                                "arguments" % vcls)
        vals = res[0][1]
        args = vals[:len(call.args)]
        kwargs = dict(zip([kw.arg for kw in call.keywords], vals[len(call.args):]))
        pre_facts, pre_pc = dict(state.facts), state.pc
        outs = self.call_function(init, obj, args, kwargs, state, synth, node)
        if len(outs) != 1:
            # a constructor that only chooses between default values
            # (`x if x is not None else Default()`): every alternative returns and
            # has no effect; the attributes they disagree on are unknown
            ok = all((not isinstance(v, Outcome)) or v.kind == "return" for (_, v) in outs)
            for (s_i, _) in outs:
                for e in s_i.events:
                    if e["k"] == "ext" and (short_name(e["name"]) in self.PURE_EXT or
                                            e["name"].split(".")[-1] in NON_NONE_CTORS):
                        continue
                    if e["k"] not in self.PURE_KINDS and e["k"] != "setattr":
                        ok = False
            if not ok or not outs:
                raise AnalysisError("__init__ of %s branches (%s)" % (vcls, sorted(set(
                    e["k"] for (s_i, v) in outs for e in s_i.events)) + [
                    getattr(v, "kind", "value") for (_, v) in outs]))
            base = outs[0][0]
            for (s_i, _) in outs[1:]:
                for key in set(base.heap) | set(s_i.heap):
                    if key[0] == tag and base.heap.get(key) != s_i.heap.get(key):
                        base.heap[key] = ("unknown", "ctor-merge:%s" % (key[1],))
            for slot in State.__slots__:
                if slot not in ("facts", "pc", "events"):
                    setattr(state, slot, getattr(base, slot))
            state.facts, state.pc = pre_facts, pre_pc
        state.events = saved_events
        # containers and other mutable state of a pre-existing object are unknown
        for (cls, attr) in self.container_attrs() | self.mutable_attrs():
            if cls == vcls:
                state.heap.pop((tag, attr), None)
        del state.envs[synth.fid]
        return obj

    # -- calls -------------------------------------------------------------------
    def ex_Call(self, node, state, frame):
        for a in node.args:
            if isinstance(a, ast.Starred):
                raise AnalysisError("*args call not modelled (%s:%d)" % (
                    frame.func.module, node.lineno))
        kwnodes = [kw.value for kw in node.keywords]
        kwnames = [kw.arg for kw in node.keywords]
        out = []
        f = node.func
        if isinstance(f, ast.Attribute):
            recv_nodes = [f.value]
        else:
            recv_nodes = [f]
        for (s, vals) in self.eval_seq(recv_nodes + list(node.args) + kwnodes,
                                       state, frame):
            if isinstance(vals, Outcome):
                out.append((s, vals))
                continue
            head = vals[0]
            args = vals[1:1 + len(node.args)]
            kwvals = vals[1 + len(node.args):]
            kwargs = {}
            for nme, v in zip(kwnames, kwvals):
                if nme is None:
                    if v[0] == "kwdict":
                        kwargs.update(dict(v[1]))
                    elif v[0] == "call" and v[1] == "dict":
                        kwargs["**"] = v
                    else:
                        kwargs["**"] = v
                else:
                    kwargs[nme] = v
            if isinstance(f, ast.Attribute) and isinstance(f.value, ast.Name) and \
                    head[0] in ("kwdict", "dictlit") and \
                    f.attr in ("update", "pop", "setdefault", "clear", "popitem"):
                # a local literal dict is mutated in place: rebind the variable
                lit = None
                if f.attr == "update" and not kwargs and len(args) == 1 and \
                        args[0][0] == head[0]:
                    lit = args[0][1]
                elif f.attr == "update" and not kwargs and len(args) == 1 and \
                        head[0] == "kwdict" and args[0][0] == "dictlit" and all(
                            is_const(k) and isinstance(k[1], str) for k, _ in args[0][1]):
                    # dict(a=1).update({"b": 2}): string keys on both sides
                    lit = tuple((k[1], v) for k, v in args[0][1])
                elif f.attr == "update" and not kwargs and len(args) == 1 and \
                        head[0] == "dictlit" and args[0][0] == "kwdict":
                    lit = tuple((("const", k), v) for k, v in args[0][1])
                elif f.attr == "update" and not args and kwargs and "**" not in kwargs:
                    lit = tuple((k if head[0] == "kwdict" else ("const", k), v)
                                for k, v in sorted(kwargs.items()))
                if lit is not None:
                    keys = set(k for k, _ in lit)
                    new = (head[0], tuple((k, v) for (k, v) in head[1] if k not in keys) +
                           tuple(lit))
                else:
                    # contents no longer known (e.g. updated from a generator
                    # of pairs): every later read is an unknown value
                    new = ("call", "." + f.attr, (head,) + tuple(args),
                           tuple(sorted(kwargs.items())))
                s.envs[frame.fid][f.value.id] = new
                out.append((s, NONE if f.attr in ("update", "clear") else
                            ("call", "." + f.attr, (head,) + tuple(args), ())))
                continue
            if isinstance(f, ast.Attribute):
                out.extend(self.call_method(head, f.attr, args, kwargs, s, frame, node))
            else:
                out.extend(self.call_value(head, args, kwargs, s, frame, node))
        return out

    def call_value(self, fn, args, kwargs, state, frame, node):
        k = fn[0]
        if k == "closure":
            fi, defframe = self.closures[fn[1]]
            if defframe is not None and defframe.fid not in state.envs:
                # the same definition executed on another path: use the frame
                # that belongs to this state
                for fr in reversed(getattr(self, "closure_frames", {}).get(fn[1], [])):
                    if fr.fid in state.envs:
                        defframe = fr
                        break
            if defframe is not None and defframe.fid not in state.envs:
                alt = getattr(self, "cell_frames", {}).get(defframe.func.qualname)
                if alt is not None and alt.fid in state.envs:
                    defframe = alt
            return self.call_function(fi, None, args, kwargs, state, frame, node,
                                      cells=defframe)
        if k == "func":
            fi = self.repo.function(fn[1], fn[2])
            if fi.qualname in self.no_inline:
                self.ev(state, "ext", frame, node, name=fi.qualname, args=tuple(args),
                        kwargs=tuple(sorted(kwargs.items())), internal=True)
                return [(state, ("call", fi.qualname, tuple(args),
                                 tuple(sorted(kwargs.items()))))]
            return self.call_function(fi, None, args, kwargs, state, frame, node)
        if k == "class":
            return self.construct(fn[1], args, kwargs, state, frame, node)
        if k == "bound":
            fi = self.repo.method(fn[2], fn[3])
            return self.call_function(fi, fn[1], args, kwargs, state, frame, node)
        if k == "builtin":
            return self.call_builtin(fn[1], args, kwargs, state, frame, node)
        if k == "excclass":
            return [(state, ("exc", fn[1], self.site(frame, node), tuple(args)))]
        if k == "ntclass":
            fields = fn[2]
            vals = {}
            for i, a in enumerate(args):
                if i < len(fields):
                    vals[fields[i]] = a
            for kk, v in kwargs.items():
                vals[kk] = v
            return [(state, ("nt", fn[1], tuple((f, vals.get(f, ("unknown", "nt-missing")))
                                                for f in fields)))]
        if k == "mod":
            return self.call_external(fn[1], args, kwargs, state, frame, node)
        if k == "item" or k == "elem":
            cb = self.listener_callback(fn)
            if cb is not None:
                return self.call_listener(cb, fn, args, kwargs, state, frame, node)
        if k == "unknown":
            return self.call_external(fn[1], args, kwargs, state, frame, node)
        # calling a parameter / attribute value: opaque
        self.ev(state, "ext", frame, node, name="<value>", fn=fn, args=tuple(args),
                kwargs=tuple(sorted(kwargs.items())))
        return [(state, ("call", "<value>", (fn,) + tuple(args), ()))]

    def _is_str_type(self, t):
        if t == ("builtin", "str"):
            return True
        return t[0] == "call" and t[1] == "type" and len(t[2]) == 1 and \
            is_const(t[2][0]) and isinstance(t[2][0][1], str)

    STR_CALLS = ("str", "fstring", ".format", ".join", ".decode", ".strip", ".lower",
                 ".upper", ".lstrip", ".rstrip", ".replace", "bytes_to_hexstr")

    def _str_typed(self, t, state, depth=0):
        """the value is certainly a text string (a formatted / joined / decoded
        value, a literal, or a choice between such)"""
        if depth > 6:
            return False
        if is_const(t):
            return isinstance(t[1], str)
        if t[0] == "binop" and t[1] == "%" and is_const(t[2]) and isinstance(t[2][1], str):
            return True
        if t[0] == "binop" and t[1] == "+":
            return self._str_typed(t[2], state, depth + 1) and \
                self._str_typed(t[3], state, depth + 1)
        if t[0] == "call" and isinstance(t[1], str) and (
                t[1] in self.STR_CALLS or t[1].split(".")[-1] in ("b32encode",)):
            return True
        if t[0] == "merge" and t in self.merges:
            return all(self._str_typed(v, state, depth + 1) for (_, v) in self.merges[t])
        if t[0] == "call" and t[1] == "choice":
            return all(self._str_typed(v, state, depth + 1) for v in t[2])
        if t[0] == "call" and t[1] in ("random.choice", "min", "max") and t[2]:
            src = strip_wrappers(t[2][0])
            if src[0] == "coll":
                adds = self.coll_adds.get(src[1], [])
                return bool(adds) and all(self._str_typed(r["elem"], state, depth + 1)
                                          for r in adds)
        if t[0] == "loopvar" and len(t) >= 3:
            return self._loopvar_is_str(t[1], t[2])
        return False

    def _loopvar_is_str(self, loopid, name):
        """every assignment to `name` inside the loop at loopid is a string
        formatting expression"""
        path, line = loopid[0], loopid[1]
        for mod in self.repo.modules.values():
            if mod.path != path:
                continue
            for n in ast.walk(mod.tree):
                if isinstance(n, (ast.For, ast.While)) and n.lineno == line:
                    vals = []
                    for a in ast.walk(n):
                        if isinstance(a, ast.Assign) and any(
                                isinstance(tg, ast.Name) and tg.id == name for tg in a.targets):
                            vals.append(a.value)
                        elif isinstance(a, (ast.AugAssign, ast.For)) and \
                                isinstance(a.target, ast.Name) and a.target.id == name:
                            return False
                    return bool(vals) and all(
                        (isinstance(v, ast.BinOp) and isinstance(v.op, ast.Mod) and
                         isinstance(v.left, ast.Constant) and isinstance(v.left.value, str)) or
                        isinstance(v, ast.JoinedStr) or
                        (isinstance(v, ast.Call) and isinstance(v.func, ast.Name) and
                         v.func.id == "str") or
                        (isinstance(v, ast.Constant) and isinstance(v.value, str))
                        for v in vals)
        return False

    def call_builtin(self, name, args, kwargs, state, frame, node):
        if name in ("list", "tuple", "sorted", "set", "iter") and args and \
                args[0][0] == "cursor":
            args = [("rows", args[0][1])] + list(args[1:])
        if name in ("set", "list", "dict") and not args and not kwargs:
            if name == "dict":
                return [(state, ("dictlit", ()))]
            return [(state, ("coll", self.site(frame, node), name))]
        if name == "dict" and not args:
            return [(state, ("kwdict", tuple(sorted(kwargs.items()))))]
        if name == "dict" and len(args) == 1 and args[0][0] in ("kwdict", "dictlit"):
            if args[0][0] == "kwdict":
                items = tuple(args[0][1]) + tuple(sorted(kwargs.items()))
                return [(state, ("kwdict", items))]
            return [(state, args[0])]
        if name == "isinstance":
            if len(args) == 2 and self._is_str_type(args[1]) and \
                    self._str_typed(args[0], state):
                return [(state, TRUE)]
            if len(args) == 2 and args[0] == ("param", "payload") and (
                    args[1] == ("builtin", "bytes") or (
                        args[1][0] == "call" and args[1][1] == "type" and
                        len(args[1][2]) == 1 and is_const(args[1][2][0]) and
                        isinstance(args[1][2][0][1], bytes))):
                # the inbound frame Autobahn hands to onMessage is a bytes object
                return [(state, TRUE)]
            return [(state, ("call", "isinstance", tuple(args), ()))]
        if name == "getattr" and len(args) >= 2:
            # getattr(obj, "prefix" + x) with x known on this path
            nm = self.known_const(args[1], state)
            if nm is not None and isinstance(nm[1], str) and args[0][0] == "obj":
                fi = self.repo.method(args[0][1], nm[1])
                if fi is not None and fi.is_property:
                    return self.call_function(fi, args[0], [], {}, state, frame, node)
                return [(state, self.get_attr(args[0], nm[1], state, frame, node))]
        if name == "bool" and len(args) == 1:
            return [(state, ("truth", args[0]))]
        if name == "super":
            return [(state, ("super", frame.func.cls, frame.self_term))]
        if name == "print":
            self.ev(state, "ext", frame, node, name="print", args=tuple(args), kwargs=())
        return [(state, ("call", name, tuple(args), tuple(sorted(kwargs.items()))))]

    def call_external(self, name, args, kwargs, state, frame, node):
        if name in ("pathlib.Path", "pathlib.PurePath", "pathlib.PosixPath") and \
                len(args) == 1 and not kwargs:
            # Path(x) denotes the same file as x: the path object is modelled by
            # the path text, remembered as path-typed (flow-insensitively)
            self.__dict__.setdefault("path_typed", set()).add(args[0])
            return [(state, args[0])]
        if name == "os.fspath" and len(args) == 1 and not kwargs:
            return [(state, args[0])]
        e = self.ev(state, "ext", frame, node, name=name, args=tuple(args),
                    kwargs=tuple(sorted(kwargs.items())))
        if name == "sqlite3.connect":
            return [(state, ("conn", self.site(frame, node),
                             args[0] if args else ("unknown", "path"),
                             tuple(sorted(kwargs.items()))))]
        for a in list(args) + list(kwargs.values()):
            if a[0] == "closure":
                e.setdefault("closures", []).append(a)
        if name in ("time.time", "os.urandom", "random.choice", "random.randrange",
                    "random.randint", "tempfile.mkstemp", "random.random"):
            return [(state, ("call", name, tuple(args), tuple(sorted(kwargs.items())),
                             self.site(frame, node)))]
        if name == "os.path.split" and len(args) == 1 and not kwargs:
            # (dirname, basename) of the same path
            return [(state, ("tuple", (("call", "os.path.dirname", (args[0],), ()),
                                       ("call", "os.path.basename", (args[0],), ()))))]
        return [(state, ("call", name, tuple(args), tuple(sorted(kwargs.items()))))]

    # -- inlining ------------------------------------------------------------------
    def _sql_passthrough(self, fi):
        cache = self.__dict__.setdefault("_passthrough", {})
        k = id(fi.node)
        if k not in cache:
            res = False
            params = set(fi.params)
            loopvars = set()
            for n in ast.walk(fi.node):
                if isinstance(n, ast.For):
                    for t in ast.walk(n.target):
                        if isinstance(t, ast.Name):
                            loopvars.add(t.id)
            for n in ast.walk(fi.node):
                if isinstance(n, ast.Call) and isinstance(n.func, ast.Attribute) and \
                        n.func.attr in ("execute", "executemany", "executescript") and \
                        n.args and isinstance(n.args[0], ast.Name) and \
                        (n.args[0].id in params or n.args[0].id in loopvars):
                    res = True
            cache[k] = res
        return cache[k]

    def call_function(self, fi, self_term, args, kwargs, state, frame, node,
                      cells=None):
        if frame.depth + 1 > MAX_DEPTH:
            raise AnalysisError("inlining depth bound exceeded at %s" % fi.qualname)
        if fi.qualname in state.stack:
            raise AnalysisError("recursion through %s" % fi.qualname)
        gk = id(fi.node)
        if gk not in self._gen_cache:
            self._gen_cache[gk] = any(isinstance(n, (ast.Yield, ast.YieldFrom, ast.Await))
                                      for n in ast.walk(fi.node))
        if self._gen_cache[gk]:
            # generator functions are not inlined: their result is an opaque
            # iterable derived from the arguments
            self.ev(state, "ext", frame, node, name=fi.qualname, args=tuple(args),
                    kwargs=tuple(sorted(kwargs.items())), internal=True, generator=True)
            return [(state, ("call", fi.qualname, tuple(args),
                             tuple(sorted(kwargs.items()))))]
        nf = Frame(fi, self_term, frame.depth + 1, cells=cells)
        if self._sql_passthrough(fi):
            # a thin helper that executes SQL text handed in by its caller: its
            # statements are identified by where the helper was called
            nf.callsite = self.site(frame, node)
        env = {}
        params = list(fi.params)
        if self_term is not None and params and fi.cls and fi.parent is None:
            if fi.is_static:
                pass                      # no implicit first argument
            elif fi.is_classmethod:
                params = params[1:]
                env[fi.params[0]] = ("class", fi.cls)
            else:
                params = params[1:]
                env[fi.params[0]] = self_term
        kwargs = dict(kwargs)
        if "**" in kwargs:
            # f(..., **d): a literal mapping with string keys is spread; of any
            # other mapping only "some of the remaining parameters" is known
            star = kwargs.pop("**")
            if star[0] == "dictlit" and all(is_const(k) and isinstance(k[1], str)
                                            for k, _ in star[1]):
                for k, v in star[1]:
                    kwargs.setdefault(k[1], v)
            elif star[0] == "kwdict":
                for k, v in star[1]:
                    kwargs.setdefault(k, v)
            else:
                for p in list(fi.params) + [a.arg for a in fi.node.args.kwonlyargs]:
                    if p not in kwargs and p not in ("self", "cls"):
                        kwargs.setdefault("**unknown", star)
        unknown_star = kwargs.pop("**unknown", None)
        defaults = fi.defaults
        ndef = len(defaults)
        allparams = list(fi.params)
        for i, p in enumerate(params):
            if i < len(args):
                env[p] = args[i]
            elif p in kwargs:
                env[p] = kwargs.pop(p)
            else:
                di = allparams.index(p) - (len(allparams) - ndef)
                if di >= 0:
                    env[p] = self.fold(defaults[di], self.repo.modules[fi.module])
                else:
                    env[p] = ("unknown", "missing-arg:" + p)
        for ki, ka in enumerate(fi.node.args.kwonlyargs):
            if ka.arg in kwargs:
                env[ka.arg] = kwargs.pop(ka.arg)
            else:
                kd = fi.node.args.kw_defaults[ki] if ki < len(fi.node.args.kw_defaults) \
                    else None
                if kd is not None:
                    env[ka.arg] = self.fold(kd, self.repo.modules[fi.module])
                else:
                    env[ka.arg] = ("unknown", "missing-arg:" + ka.arg)
        if fi.kwarg:
            env[fi.kwarg] = ("kwdict", tuple(sorted(kwargs.items())))
        elif kwargs:
            raise AnalysisError("unexpected keyword arguments %s to %s" % (
                sorted(kwargs), fi.qualname))
        if len(args) > len(params) and not fi.vararg:
            raise AnalysisError("too many arguments to %s" % fi.qualname)
        mk = self._memo_key(fi, self_term, args, kwargs, state)
        if mk in self.pure_memo:
            alts, alt_events, term = self.pure_memo[mk]
            self.ev(state, "pure", frame, node, callee=fi.qualname, args=tuple(args),
                    alts=alts, alt_events=alt_events, value=term, memo=True)
            return [(state, term)]
        pre = state.fork()
        n0 = len(state.events)
        pc0 = state.pc
        state.envs[nf.fid] = env
        state.stack = state.stack + (fi.qualname,)
        self.ev(state, "call", frame, node, callee=fi.qualname,
                args=tuple(args), kwargs=tuple(sorted(kwargs.items())),
                self_term=self_term, argmap=tuple(sorted(
                    (k, v) for k, v in env.items() if k != "self")))
        out = []
        for (s, o) in self.exec_block(fi.node.body, state, nf):
            s.stack = s.stack[:-1]
            if not nf.has_closure:
                s.envs.pop(nf.fid, None)
            if o.kind == "return":
                self.ev(s, "ret", frame, node, callee=fi.qualname, value=o.value)
                out.append((s, o.value))
            elif o.kind == "normal":
                self.ev(s, "ret", frame, node, callee=fi.qualname, value=NONE)
                out.append((s, NONE))
            elif o.kind == "raise":
                out.append((s, o))
            else:
                raise AnalysisError("break/continue outside loop in %s" % fi.qualname)
        if len(out) > 1:
            merged = self._merge_pure(fi, pre, out, n0, pc0, frame, node, args, kwargs)
            if merged is not None:
                e = merged[0][0].events[-1]
                self.pure_memo[mk] = (e["alts"], e["alt_events"], e["value"])
                return merged
        return out

    def _memo_key(self, fi, self_term, args, kwargs, state):
        sites = set()
        for a in list(args) + list(kwargs.values()):
            for x in walk(a):
                if x[0] in ("rows", "row"):
                    sites.add(x[1])
        facts = []
        for k, v in state.facts.items():
            if k[0] == "cfg":
                facts.append((k, v))
            elif sites and any(x[0] in ("rows", "row") and x[1] in sites for x in walk(k)):
                facts.append((k, v))
        # the callee's view of its own object: the attributes it reads, as
        # they are now (two objects of one class, or one object before and
        # after an update, must not share a summary)
        selfkey = None
        if self_term is not None:
            selfkey = self_term[1] if len(self_term) > 1 else self_term
            reads = self._self_reads(fi)
            if reads and self_term[0] == "obj":
                tag = self_term[2]
                vals = []
                for a in reads:
                    if (self_term[1], a) in self.names.cfg:
                        continue
                    vals.append((a, state.heap.get((tag, a))))
                if vals:
                    selfkey = (self_term, tuple(vals))
        return (fi.qualname, selfkey, tuple(args),
                tuple(sorted(kwargs.items())), frozenset(facts))

    _self_reads_cache = None

    def _self_reads(self, fi):
        """names of the attributes of `self` that fi (or a method of its class
        it calls on self) loads"""
        if self._self_reads_cache is None:
            self._self_reads_cache = {}
        k = id(fi.node)
        if k in self._self_reads_cache:
            return self._self_reads_cache[k]
        self._self_reads_cache[k] = ()
        if not fi.cls or not fi.params or fi.is_static:
            return ()
        me = fi.params[0]
        out = set()
        for n in ast.walk(fi.node):
            if isinstance(n, ast.Attribute) and isinstance(n.value, ast.Name) and \
                    n.value.id == me:
                m2 = self.repo.method(fi.cls, n.attr)
                if m2 is not None:
                    out.update(self._self_reads(m2))
                else:
                    out.add(n.attr)
        res = tuple(sorted(out))
        self._self_reads_cache[k] = res
        return res

    def new_merge(self, name, site, alts):
        """value merged over the branches of a pure callee; the alternatives
        ((pc suffix, value), ...) live in self.merges[term]"""
        key = (name, site, len(alts), hash(alts))
        if key in self._merge_ids:
            return self._merge_ids[key]
        term = ("merge", name, site, len(self._merge_ids))
        self._merge_ids[key] = term
        self.merges[term] = alts
        return term

    def _pure_loop(self, loop_ev):
        from .engine import flat_events
        for alt in loop_ev["alts"]:
            if alt["out"] not in ("normal", "continue", "break"):
                return False
            for x, _ in flat_events(alt["events"]):
                if x["k"] in self.PURE_KINDS or x["k"] == "loop":
                    continue
                if x["k"] == "ext" and short_name(x["name"]) in self.PURE_EXT:
                    continue
                return False
        return True

    PURE_KINDS = ("call", "ret", "index", "pure", "coll_add", "benign_if")
    PURE_EXT = ("os.urandom", "base64.b32encode", "json.dumps", "json.loads",
                "log.msg", "random.choice", "random.randrange")

    def _merge_pure(self, fi, pre, out, n0, pc0, frame, node, args, kwargs):
        """value-merge of an effect-free callee: every path returns, none
        touches heap / registries / databases.  The callee's branching is
        kept inside one 'pure' event: alts = ((pc suffix, value, events),...)"""
        for (s, v) in out:
            if isinstance(v, Outcome):
                return None
            if s.dirty != pre.dirty or s.wrote != pre.wrote or s.heap != pre.heap \
                    or s.regs != pre.regs:
                return None
            for e in s.events[n0:]:
                if e["k"] in self.PURE_KINDS:
                    continue
                if e["k"] == "ext" and short_name(e["name"]) in self.PURE_EXT:
                    continue
                if e["k"] == "loop" and self._pure_loop(e):
                    continue
                return None
        alts = tuple((s.pc[len(pc0):], v) for (s, v) in out)
        alt_events = [s.events[n0:] for (s, v) in out]
        values = []
        for (_, v) in alts:
            if v not in values:
                values.append(v)
        site = self.site(frame, node)
        if len(values) == 1:
            term = values[0]
        else:
            term = self.new_merge(fi.qualname, site, alts)
        self.ev(pre, "pure", frame, node, callee=fi.qualname, args=tuple(args),
                alts=alts, alt_events=alt_events, value=term)
        return [(pre, term)]

    def construct(self, cls, args, kwargs, state, frame, node):
        ent = self.repo.classes.get(cls)
        if ent is None:
            return self.call_external(cls, args, kwargs, state, frame, node)
        mod, cd = ent
        bases = [b.split(".")[-1] for b in cd["bases"]]
        if "NamedTuple" in bases:
            # class Record(NamedTuple): fields...; a record value like the
            # namedtuple(...) ones (its methods run on the record)
            fields = self._nt_class_fields(mod, cls) or []
            vals = {}
            for i, a in enumerate(args):
                if i < len(fields):
                    vals[fields[i][0]] = a
            for kk, v in kwargs.items():
                vals[kk] = v
            for (f, d) in fields:
                if f not in vals and d is not None:
                    vals[f] = self.fold(d, mod)
            return [(state, ("nt", cls, tuple((f, vals.get(f, ("unknown", "nt-missing")))
                                              for (f, _) in fields)))]
        def _is_exc_class(c, hops=0):
            if c in ("Exception", "BaseException") or c.endswith("Error") and \
                    c not in self.repo.classes:
                return True
            ent0 = self.repo.classes.get(c)
            if ent0 is None or hops > 6:
                return False
            return any(_is_exc_class(b.split(".")[-1], hops + 1) for b in ent0[1]["bases"])
        if any(b in ("Exception",) or b.endswith("Error") for b in bases) or \
                _is_exc_class(cls):
            # an exception object (its __init__, if any, only records details)
            return [(state, ("exc", cls, self.site(frame, node), tuple(args)))]
        if self.exc_matches(cls, ("Exception",)) and cd["bases"] and \
                cd["bases"][0].split(".")[-1] in ("Exception",):
            return [(state, ("exc", cls, self.site(frame, node), tuple(args)))]
        site = self.site(frame, node)
        obj = ("obj", cls, ("new", site[0], site[1], site[2]))
        self.ev(state, "construct", frame, node, cls=cls, obj=obj,
                args=tuple(args), kwargs=tuple(sorted(kwargs.items())))
        init = cd["methods"].get("__init__")
        if init is None:
            return [(state, obj)]
        out = []
        for (s, v) in self.call_function(init, obj, args, kwargs, state, frame, node):
            if isinstance(v, Outcome):
                out.append((s, v))
            else:
                out.append((s, obj))
        return out

    def _nt_fields_of_call(self, val, meth):
        """field names when val is  Record(...)  for a namedtuple class Record"""
        if isinstance(val, ast.Call) and isinstance(val.func, ast.Name):
            mod = self.repo.modules[meth.module]
            if val.func.id in mod.constants:
                t = self.module_const(mod, val.func.id)
                if t[0] == "ntclass":
                    return list(t[2])
        return None

    # -- listener callbacks ------------------------------------------------------
    def listener_callback(self, fn):
        """fn is ('item', elem-of-listeners-values, idx) -> idx, or None"""
        t = fn
        idx = None
        if t[0] == "item":
            idx = t[2]
            t = t[1]
        if t[0] != "elem":
            return None
        coll = strip_wrappers(t[1])
        while coll[0] == "slice":
            coll = strip_wrappers(coll[1])
        if coll[0] == "call" and coll[1] in (".values", ".items") and coll[2] and \
                coll[2][0][0] == "reg":
            reg = coll[2][0]
            if coll[1] == ".items":
                return None
            return (reg, idx)
        return None

    def call_listener(self, cb, fn, args, kwargs, state, frame, node):
        reg, idx = cb
        # the values stored in this registry: parameters of the storing method
        owner_cls = reg[1][1]
        role = None
        closures = []
        store = None
        for meth in self.repo.classes[owner_cls][1]["methods"].values():
            for n in ast.walk(meth.node):
                if isinstance(n, ast.Assign) and len(n.targets) == 1 and \
                        isinstance(n.targets[0], ast.Subscript) and \
                        isinstance(n.targets[0].value, ast.Attribute) and \
                        n.targets[0].value.attr == reg[2]:
                    store = (meth, n)
        if store is None:
            raise AnalysisError("no store site for registry %s.%s" % (owner_cls, reg[2]))
        meth, asg = store
        val = asg.value
        ntf = self._nt_fields_of_call(val, meth)
        if ntf is not None:
            # Record(send_f, stop_f): positional view of the record's fields
            elts = list(val.args) + [None] * (len(ntf) - len(val.args))
            for kw in val.keywords:
                if kw.arg in ntf:
                    elts[ntf.index(kw.arg)] = kw.value
            if isinstance(idx, str):
                idx = ntf.index(idx) if idx in ntf else None
            val = ast.Tuple(elts=[e if e is not None else ast.Constant(value=None)
                                  for e in elts], ctx=ast.Load())
        if isinstance(val, ast.Tuple) and idx is not None and idx < len(val.elts) and \
                isinstance(val.elts[idx], ast.Name) and val.elts[idx].id in meth.params:
            pname = val.elts[idx].id
        elif isinstance(val, ast.Name) and val.id in meth.params and idx is None:
            pname = val.id
        else:
            raise AnalysisError("listener value shape not modelled at %s" % meth.qualname)
        pidx = meth.params.index(pname) - 1
        self.ev(state, "callback", frame, node, role=pname, reg=reg,
                args=tuple(args))
        # closures passed at the non-test call sites of the storing method
        sites = [(f, c) for (f, c) in self.listener_closures
                 if c.func.attr == meth.name]
        if not sites:
            raise AnalysisError("no call site of %s found" % meth.qualname)
        out = []
        for (f, c) in sites:
            if pidx >= len(c.args):
                raise AnalysisError("listener argument shape not modelled in %s" % f.qualname)
            anode = c.args[pidx]
            other = ("obj", f.cls, ("listener-conn",))
            s = state if len(sites) == 1 else state.fork()
            if isinstance(anode, ast.Attribute) and isinstance(anode.value, ast.Name) and \
                    anode.value.id == "self" and self.repo.method(f.cls, anode.attr):
                # a bound method of the registering connection
                fi = self.repo.method(f.cls, anode.attr)
                out.extend(self.call_function(fi, other, args, kwargs, s, frame, node))
                continue
            if not isinstance(anode, ast.Name):
                raise AnalysisError("listener argument shape not modelled in %s" % f.qualname)
            cname = anode.id
            fdef = None
            for n in ast.walk(f.node):
                if isinstance(n, ast.FunctionDef) and n.name == cname and n is not f.node:
                    fdef = n
            if fdef is None:
                raise AnalysisError("listener closure %s not found in %s" % (cname, f.qualname))
            from .repo import FuncInfo
            fi = FuncInfo(f.module, f.cls, fdef, parent=f)
            synth = Frame(f, other, frame.depth, cells=None)
            s.envs[synth.fid] = {"self": other}
            res = self.call_function(fi, None, args, kwargs, s, frame, node,
                                     cells=synth)
            out.extend(res)
        return out
