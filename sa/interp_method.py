"""E1: method calls by receiver kind; SQL events and row facts."""
import ast

from . import sql as sqlmod
from .repo import AnalysisError
from .interp import Outcome, NORMAL, CFG_CLASSES
from .terms import NONE, TRUE, FALSE, const, is_const, strip_wrappers, plain

_sql_cache = {}


def parse_sql(text):
    if text not in _sql_cache:
        _sql_cache[text] = sqlmod.parse_statement(text)
    return _sql_cache[text]


class MethodMixin(object):

    def db_name(self, t):
        """name of the database a handle term denotes, or None"""
        if t[0] == "db":
            return t[1]
        if t[0] == "cfg" and t[1] == "usage_db":
            return "usage"
        if t[0] == "conn":
            return "conn"
        if t[0] == "dbcur":
            return self.db_name(t[1])
        if t[0] == "call" and t[1] in self.repo.modules["database"].functions:
            return "conn"
        if t[0] == "param" and t[1] in ("db",):
            return "conn"
        return None

    PATH_METHODS = {"exists": "os.path.exists", "rename": "os.rename",
                    "replace": "os.replace", "unlink": "os.unlink",
                    "is_file": "os.path.isfile", "is_dir": "os.path.isdir",
                    "touch": "open", "write_text": "open", "write_bytes": "open",
                    "rmdir": "os.rmdir", "mkdir": "os.mkdir", "chmod": "os.chmod",
                    "stat": "os.stat", "read_bytes": "read", "read_text": "read",
                    "open": "open", "resolve": "os.path.abspath",
                    "absolute": "os.path.abspath"}

    def call_method(self, recv, name, args, kwargs, state, frame, node):
        k = recv[0]
        if recv in self.__dict__.get("path_typed", ()):
            # pathlib methods are the os / os.path functions on the same path
            if name == "with_name" and len(args) == 1:
                v = ("call", "os.path.join",
                     (("call", "os.path.dirname", (recv,), ()), args[0]), ())
                self.path_typed.add(v)
                return [(state, v)]
            if name in ("joinpath",) and args:
                v = ("call", "os.path.join", (recv,) + tuple(args), ())
                self.path_typed.add(v)
                return [(state, v)]
            if name in self.PATH_METHODS:
                res = self.call_external(self.PATH_METHODS[name], [recv] + list(args),
                                         kwargs, state, frame, node)
                if name in ("resolve", "absolute"):
                    for (_, v) in res:
                        self.path_typed.add(v)
                return res
        if k == "dictlit" and name == "get" and args and not is_const(args[0]) and \
                recv[1] and all(is_const(kk) for kk, _ in recv[1]) and len(recv[1]) <= 24:
            # TABLE.get(x) with a literal-keyed table: one branch per key
            # (x == key), plus the miss
            default = args[1] if len(args) > 1 else NONE
            member = ("cmp", "in", args[0], ("tuple", tuple(kk for kk, _ in recv[1])))
            out = []
            for (s2, b) in self.split(member, state, frame, node):
                if not b:
                    out.append((s2, default))
                    continue
                kc = self.known_const(args[0], s2)
                val = default
                for kk, vv in recv[1]:
                    if kc is not None and kk == kc:
                        val = vv
                out.append((s2, val))
            return out
        if k == "obj":
            fi = self.repo.method(recv[1], name)
            if fi is not None:
                if self.maybe_none(recv) and self.decide(recv, state) is None:
                    # method call on a possibly-None held object: assume
                    # non-None (an AttributeError here is outside the model)
                    pass
                return self.call_function(fi, recv, args, kwargs, state, frame, node)
            # data attribute holding a callable?
            if (recv[2], name) in state.heap:
                return self.call_value(state.heap[(recv[2], name)], args, kwargs,
                                       state, frame, node)
            return self.ext_method(recv, name, args, kwargs, state, frame, node)
        if k == "nt" and isinstance(recv[1], str):
            fi = self.repo.method(recv[1], name)
            if fi is not None:
                return self.call_function(fi, recv, args, kwargs, state, frame, node)
        if k == "super":
            return self.ext_method(recv, name, args, kwargs, state, frame, node)
        if k == "mod":
            return self.call_external(recv[1] + "." + name, args, kwargs, state,
                                      frame, node)
        if k == "class":
            # Base.__init__(self, ...) style call on an internal class
            fi = self.repo.method(recv[1], name)
            if fi is not None and (fi.is_static or fi.is_classmethod):
                return self.call_function(fi, recv, args, kwargs, state, frame, node)
            if fi is not None and args:
                return self.call_function(fi, args[0], args[1:], kwargs, state,
                                          frame, node)
        if k == "dbcur":
            dbn0 = self.db_name(recv[1])
            if name in ("execute", "executescript") and dbn0 is not None:
                res = self.db_call(recv[1], dbn0, name, args, kwargs, state, frame, node)
                for (s2, v2) in res:
                    if not isinstance(v2, Outcome) and v2[0] == "cursor":
                        s2.heap[(recv, "#result")] = v2
                return [(s2, recv if not isinstance(v2, Outcome) else v2) for (s2, v2) in res]
            cur = state.heap.get((recv, "#result"))
            if name == "fetchone" and cur is not None:
                if not hasattr(self, "fetchone_sites"):
                    self.fetchone_sites = set()
                self.fetchone_sites.add(cur[1])
                return [(state, ("row", cur[1]))]
            if name == "fetchall" and cur is not None:
                return [(state, ("rows", cur[1]))]
            if name == "close":
                return [(state, NONE)]
            if name in ("commit", "rollback") and dbn0 is not None:
                return self.db_call(recv[1], dbn0, name, args, kwargs, state, frame, node)
        dbn = self.db_name(recv)
        if dbn is not None and name in ("execute", "executescript", "commit",
                                        "close", "rollback", "cursor",
                                        "iterdump"):
            return self.db_call(recv, dbn, name, args, kwargs, state, frame, node)
        if k == "cursor":
            if name == "fetchone":
                if not hasattr(self, "fetchone_sites"):
                    self.fetchone_sites = set()
                self.fetchone_sites.add(recv[1])
                return [(state, ("row", recv[1]))]
            if name == "fetchall":
                return [(state, ("rows", recv[1]))]
        if k == "reg":
            return self.reg_method(recv, name, args, kwargs, state, frame, node)
        if k == "coll":
            if name in ("add", "append", "extend", "insert", "update"):
                el = args[-1] if args else NONE
                if name in ("extend", "update"):
                    # adding every element of an iterable
                    src = el
                    if src[0] == "comp":
                        el = src[2]
                    else:
                        if src[0] == "cursor":
                            src = ("rows", src[1])
                        el = ("elem", src, self.site(frame, node))
                rec = {"elem": el, "pc": state.pc,
                       "site": self.site(frame, node), "func": frame.func.qualname,
                       "op": name}
                lst = self.coll_adds.setdefault(recv[1], [])
                if not any(r["elem"] == rec["elem"] and r["site"] == rec["site"]
                           and r["pc"] == rec["pc"] for r in lst):
                    lst.append(rec)
                self.ev(state, "coll_add", frame, node, coll=recv, elem=rec["elem"])
                return [(state, NONE)]
        if k == "row" and name == "get" and len(args) == 1 and is_const(args[0]):
            # a fetched row is a dict with every selected column present
            return [(state, ("sub", recv, args[0]))]
        if k in ("kwdict", "dictlit") and name == "get" and args and is_const(args[0]):
            for (kk, v) in recv[1]:
                if kk == args[0][1] or kk == args[0]:
                    return [(state, v)]
            return [(state, args[1] if len(args) > 1 else NONE)]
        if k == "elem":
            # record.field(...) on an element of a table of callback records
            cb = self.listener_callback(recv)
            if cb is not None and cb[0][1][0] == "obj" and \
                    (cb[0][1][1], cb[0][2]) not in self.registries:
                return self.call_listener((cb[0], name), recv, args, kwargs, state, frame, node)
        # internal method name on an unresolved receiver: refuse to guess
        cands = [c for c, (m, cd) in self.repo.classes.items()
                 if name in cd["methods"] and not name.startswith("__")]
        if cands and name not in ("get", "close", "open", "send", "log"):
            if recv[0] in ("attr", "param", "unknown", "sub", "call", "loopvar",
                           "elem", "item"):
                ty = None
                if recv[0] == "elem":
                    ty = self.elem_type(recv)
                if recv[0] == "item" and recv[2] == 1 and recv[1][0] == "elem":
                    # for key, obj in registry.items()
                    ty = self.elem_type(recv[1], method=".items")
                if ty is None and len(cands) == 1 and recv[0] in ("param", "elem", "loopvar",
                                                                    "item"):
                    ty = cands[0]
                if ty is not None:
                    obj = ("obj", ty, ("sym", recv))
                    return self.call_function(self.repo.method(ty, name), obj, args,
                                              kwargs, state, frame, node)
                raise AnalysisError(
                    "call of internal method name .%s on unresolved receiver %r "
                    "(%s:%d)" % (name, recv[:2], frame.func.module, node.lineno))
        return self.ext_method(recv, name, args, kwargs, state, frame, node)

    def elem_type(self, elem, method=".values"):
        coll = strip_wrappers(elem[1])
        if coll[0] == "call" and coll[1] == method and coll[2] and coll[2][0][0] == "reg":
            reg = coll[2][0]
            info = self.registries.get((reg[1][1], reg[2]))
            if info:
                return info["value_cls"]
        return None

    def ext_method(self, recv, name, args, kwargs, state, frame, node):
        """method of something external (base classes, stdlib values)"""
        if name in ("execute", "executemany", "executescript") and \
                recv[0] in ("attr", "param", "unknown", "sub", "item", "loopvar"):
            # a statement run through a handle the analysis cannot identify
            # would silently vanish from every path: no verdict instead
            raise AnalysisError("database call .%s() on an unresolved handle %s (%s:%d)" % (
                name, str(recv[:3])[:80], frame.func.module, node.lineno))
        if recv[0] == "obj" and name == "sendMessage":
            self.ev(state, "send", frame, node, conn=recv,
                    payload=args[0] if args else NONE, args=tuple(args))
            return [(state, NONE)]
        pure = name in ("lower", "upper", "strip", "decode", "encode", "split",
                        "format", "join", "startswith", "endswith", "items",
                        "keys", "values", "get", "copy", "replace", "lstrip",
                        "rstrip", "isdigit", "hexdigest", "digest")
        if not pure:
            e = self.ev(state, "ext", frame, node, name="." + name, recv=recv,
                        args=tuple(args), kwargs=tuple(sorted(kwargs.items())))
            for a in list(args) + list(kwargs.values()):
                if a[0] == "closure":
                    e.setdefault("closures", []).append(a)
        return [(state, ("call", "." + name, (recv,) + tuple(args),
                         tuple(sorted(kwargs.items()))))]

    # -- registries ----------------------------------------------------------------
    def reg_method(self, reg, name, args, kwargs, state, frame, node):
        if name in ("values", "items", "keys", "copy"):
            return [(state, ("call", "." + name, (reg,), ()))]
        src_args = list(args)
        args = [plain(a) for a in args]
        if name in ("pop", "popitem", "clear", "remove", "discard"):
            self.ev(state, "reg_del", frame, node, reg=reg,
                    key=args[0] if args else None, how=name, nargs=len(args),
                    key_src=src_args[0] if src_args else None)
            if args:
                state.regs.pop((reg, args[0]), None)
            return [(state, ("call", "." + name, (reg,) + tuple(args), ()))]
        if name == "get" and args and (reg[1][1], reg[2]) in self.registries:
            # R.get(k[, default]): the object when k is in the registry
            out = []
            member = ("cmp", "in", args[0], reg)
            for (s2, b) in self.split(member, state, frame, node):
                if b:
                    out.append((s2, self.registry_get(reg, args[0], s2, frame, node)))
                else:
                    out.append((s2, args[1] if len(args) > 1 else NONE))
            return out
        if name in ("get", "setdefault"):
            if name == "setdefault":
                self.ev(state, "reg_set", frame, node, reg=reg, key=args[0],
                        value=args[1] if len(args) > 1 else NONE)
            obj = self.registry_get(reg, args[0], state, frame, node) if args else None
            if obj is not None:
                return [(state, obj)]
            return [(state, ("call", "." + name, (reg,) + tuple(args), ()))]
        if name in ("add", "append", "update"):
            self.ev(state, "reg_set", frame, node, reg=reg, key=None,
                    value=args[0] if args else NONE,
                    value_src=src_args[0] if src_args else NONE)
            return [(state, NONE)]
        return [(state, ("call", "." + name, (reg,) + tuple(args), ()))]

    # -- database ------------------------------------------------------------------
    def db_call(self, recv, dbn, name, args, kwargs, state, frame, node):
        site = self.site(frame, node)
        if name == "commit":
            self.ev(state, "commit", frame, node, db=dbn, handle=recv,
                    was_dirty=(dbn in state.dirty))
            state.dirty = state.dirty - {dbn}
            return [(state, NONE)]
        if name == "rollback":
            self.ev(state, "rollback", frame, node, db=dbn, handle=recv)
            state.dirty = state.dirty - {dbn}
            return [(state, NONE)]
        if name == "close":
            self.ev(state, "dbclose", frame, node, db=dbn, handle=recv)
            return [(state, NONE)]
        if name in ("cursor",):
            # an explicit cursor object: statements run through it, and it
            # remembers the result of the last one (state.heap[(cursor, #result)])
            return [(state, ("dbcur", recv, site))]
        if name == "iterdump":
            return [(state, ("call", ".iterdump", (recv,), ()))]
        if name == "executescript":
            self.ev(state, "script", frame, node, db=dbn, handle=recv,
                    script=args[0] if args else NONE)
            state.dirty = state.dirty | {dbn}
            state.wrote = True
            return [(state, ("cursor", site))]
        # execute
        if not args:
            raise AnalysisError("execute() without SQL at %s:%d" % site[:2])
        sqlt = args[0]
        if not (is_const(sqlt) and isinstance(sqlt[1], str)):
            from .terms import mentions
            if mentions(sqlt, lambda x: x[0] == "call" and
                        x[1].endswith("resource_string")):
                # statements taken from a packaged .sql script and executed one
                # by one: the script text itself is analysed by the rules
                self.ev(state, "sql_dynamic", frame, node, db=dbn, handle=recv,
                        sql=sqlt, params=tuple(args[1:]))
                state.dirty = state.dirty | {dbn}
                state.wrote = True
                return [(state, ("cursor", site))]
            raise AnalysisError("non-literal SQL at %s:%d (%r)" % (site[0], site[1], sqlt[:2]))
        try:
            stmt = parse_sql(sqlt[1])
        except sqlmod.SqlUnparsed as e:
            raise AnalysisError("unparsed SQL at %s:%d: %s" % (site[0], site[1], e))
        params = []
        if len(args) > 1:
            p = args[1]
            if p[0] == "const" and isinstance(p[1], tuple):
                # a constant tuple (e.g. the default `()` of a helper's parameter)
                p = ("tuple", tuple(("const", x) for x in p[1]))
            if p[0] == "tuple":
                params = list(p[1])
            elif p[0] in ("dictlit", "kwdict") and all(
                    n is not None for n in getattr(stmt, "param_names", [None])):
                # named placeholders bound from a literal mapping
                d = {}
                for (k, v) in p[1]:
                    kk = k[1] if isinstance(k, tuple) and is_const(k) else k
                    d[kk] = v
                missing = [n for n in stmt.param_names if n not in d]
                if missing:
                    raise AnalysisError("SQL named parameters %s are not bound at %s:%d"
                                        % (missing, site[0], site[1]))
                params = [d[n] for n in stmt.param_names]
            else:
                raise AnalysisError("SQL parameters are not a literal tuple at %s:%d"
                                    % site[:2])
        if len(params) != stmt.nparams:
            raise AnalysisError("SQL parameter count mismatch at %s:%d" % site[:2])
        self.sql_sites[site] = stmt
        binds = bind_statement(stmt, [plain(x) for x in params])
        ev = self.ev(state, "sql", frame, node, db=dbn, handle=recv, stmt=stmt,
                     params=tuple(params), binds=binds,
                     src=bind_statement(stmt, params))
        if stmt.kind in ("insert", "update", "delete"):
            state.dirty = state.dirty | {dbn}
            state.wrote = True
            self.note_write(stmt, binds, state, site, dbn)
        elif stmt.kind == "select":
            self.note_select(stmt, binds, state, site, dbn, ev)
        elif stmt.mutating:
            state.dirty = state.dirty | {dbn}
            state.wrote = True
        return [(state, ("cursor", site))]

    # row facts ---------------------------------------------------------------------
    def _schema_for(self, dbn):
        try:
            if dbn == "chan":
                return self.repo.channel_schema()
            if dbn == "usage":
                return self.repo.usage_schema()
        except AnalysisError:
            raise
        return None

    def note_select(self, stmt, binds, state, site, dbn, ev=None):
        eq = binds.get("where_eq")
        if eq is None:
            return
        key = frozenset(eq.items())
        state.sel[site] = (dbn, stmt.table, key)
        row = ("row", site)
        state.facts.pop(row, None)
        state.facts.pop(("isnone", row), None)
        verdict = None
        for (kind, tbl, cols) in state.rowfacts:
            if tbl != (dbn, stmt.table):
                continue
            cd = dict(cols)
            if kind == "present" and all(cd.get(c) == t for c, t in eq.items()):
                verdict = True
            if kind == "absent" and set(cols) <= set(key):
                verdict = False
        if verdict is None:
            # assumption (C03, not decided): fresh 64-bit random ids do not
            # collide with stored ones
            from .terms import mentions
            if any(mentions(tm, lambda x: x[0] == "call" and x[1] == "os.urandom")
                   for tm in eq.values()):
                verdict = False
        if verdict is None:
            schema = self._schema_for(dbn)
            if schema and stmt.table in schema.tables:
                for (c, pt, pc) in schema.tables[stmt.table].fks:
                    if c in eq and (dbn, pt, eq[c]) in state.fresh:
                        verdict = False
        # row count of a child select keyed only by a parent created on this path
        rows = ("rows", site)
        state.facts.pop(("len", rows), None)
        schema = self._schema_for(dbn)
        if schema and stmt.table in schema.tables and len(eq) == 1:
            for (c, pt, pc) in schema.tables[stmt.table].fks:
                if c in eq and (dbn, pt, eq[c]) in state.fresh:
                    n = 0
                    for (kind, tbl, cols) in state.rowfacts:
                        if kind == "present" and tbl == (dbn, stmt.table) and \
                                (c, eq[c]) in cols:
                            n += 1
                    state.facts[("len", rows)] = n
        if ev is not None:
            ev["verdict"] = verdict
            ev["nrows"] = state.facts.get(("len", rows))
        if verdict is not None:
            state.facts[row] = verdict
            if verdict:
                state.facts[("isnone", row)] = False

    def learn_row(self, row, value, state):
        sel = state.sel.get(row[1])
        if sel is None:
            return
        dbn, table, key = sel
        state.rowfacts = state.rowfacts + (
            ("present" if value else "absent", (dbn, table), key),)

    def note_write(self, stmt, binds, state, site, dbn):
        tbl = (dbn, stmt.table)
        if stmt.kind == "insert":
            vals = binds["set"]
            state.rowfacts = tuple(rf for rf in state.rowfacts
                                   if not (rf[1] == tbl and rf[0] == "absent")) + \
                (("present", tbl, frozenset(vals.items())),)
            schema = self._schema_for(dbn)
            if schema and stmt.table in schema.tables:
                t = schema.tables[stmt.table]
                ai = t.autoinc_col()
                fresh = state.fresh
                if ai and ai not in vals:
                    fresh = fresh + ((dbn, stmt.table, ("lastrowid", site)),)
                for pkc in t.pk:
                    if pkc in vals:
                        fresh = fresh + ((dbn, stmt.table, vals[pkc]),)
                state.fresh = fresh
        elif stmt.kind == "delete":
            state.rowfacts = tuple(rf for rf in state.rowfacts if rf[1] != tbl)
            state.fresh = tuple(fr for fr in state.fresh
                                if not (fr[0] == dbn and fr[1] == stmt.table))


def bind_statement(stmt, params):
    """map the statement's columns to the terms bound to them.

    returns dict with
      set: {col: term} for INSERT/UPDATE values
      where: list of (col, op, term|('lit',v)|('subselect', stmt, binds))
      where_eq: {col: term} when WHERE is a pure conjunction of col = value
                (None otherwise; {} when there is no WHERE)
      dnf: list of conjunctions, each a list of (col, op, term)
    """
    def atom_term(a):
        if a.kind == "param":
            return params[a.value]
        if a.kind == "lit":
            return ("const", a.value)
        if a.kind == "null":
            return ("const", None)
        if a.kind == "subq":
            return ("unknown", "subquery")
        return ("sqlcol", a.value)

    out = {"set": {}, "where": [], "where_eq": {}, "dnf": []}
    if stmt.kind in ("insert", "update"):
        for c, a in zip(stmt.cols, stmt.values):
            out["set"][c] = atom_term(a)

    def leaf(w):
        if w.op == "cmp":
            return (w.col, w.cmpop, atom_term(w.value))
        if w.op in ("isnull", "notnull"):
            return (w.col, w.op, ("const", None))
        if w.op in ("in", "notin"):
            return (w.col, w.op, ("subselect", w.sub.table, tuple(w.sub.cols),
                                  tuple(sorted((k, v) for k, v in
                                               bind_statement(w.sub, params)["where_eq"].items()))
                                  if bind_statement(w.sub, params)["where_eq"] is not None
                                  else None))
        return (w.col, w.op, ("unknown", "where"))

    if stmt.where is not None:
        dnf = stmt.where.dnf()
        out["dnf"] = [[leaf(w) for w in conj] for conj in dnf]
        out["where"] = [leaf(w) for w in stmt.where.leaves()]
        if len(dnf) == 1 and all(w.op == "cmp" and w.cmpop == "=" for w in dnf[0]):
            out["where_eq"] = dict((w.col, atom_term(w.value)) for w in dnf[0])
        else:
            out["where_eq"] = None
    else:
        out["dnf"] = [[]]
    return out
