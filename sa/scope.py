"""E2 scoping: which values / statements are confined to the caller's app
(and, for key precision, to one mailbox / nameplate)."""
from .engine import flat_events
from .events import is_app_id, is_own_mailbox_id, construct_of
from .terms import strip_subsets as strip_wrappers, show, is_const, plain


class Scope(object):
    def __init__(self, model, entries=None):
        self.model = model
        self.interp = model.interp
        self.entries = entries or model.runtime_entries()
        self.samples = {}     # site -> list of (path, event, before-events)
        self._site_scoped = {}
        self._collect()

    def _collect(self):
        seen = set()
        for en in self.entries:
            for p in self.model.paths(en):
                self._walk(p, p.events, [], seen)

    def _walk(self, path, events, before, seen):
        before = list(before)
        for e in events:
            if e["k"] == "loop":
                if id(e) not in seen:
                    seen.add(id(e))
                    for alt in e["alts"]:
                        self._walk(path, alt["events"], before, seen)
                for alt in e["alts"]:
                    for x, _ in flat_events(alt["events"]):
                        if x["k"] == "sql":
                            before.append(x)
            elif e["k"] == "sql":
                if id(e) not in seen:
                    seen.add(id(e))
                    self.samples.setdefault(e["site"], []).append((path, e, list(before)))
                before.append(e)

    def _mailbox_ids_global(self):
        if not hasattr(self, "_mig"):
            t = self.model.repo.channel_schema().tables.get("mailboxes")
            self._mig = t is not None and any(tuple(k) == ("id",) for k in t.unique_keys())
        return self._mig

    # -- values ---------------------------------------------------------------
    def scoped_value(self, t, before, depth=0):
        """-> reason string or None"""
        if depth > 8:
            return None
        if is_app_id(t):
            return "the namespace's own app id"
        if is_own_mailbox_id(t):
            # a mailbox id names the rows of ONE app only because `mailboxes.id`
            # is unique by itself (the row of this app, ensured when the object
            # was created, is then the only row with that id); with a key that
            # includes app_id the same id can belong to another app's mailbox
            if self._mailbox_ids_global():
                return "the Mailbox object's own id"
            return None
        k = t[0]
        if k == "idof":
            return self.scoped_value(t[3], before, depth + 1)
        if k == "lastrowid":
            st = self.interp.sql_sites.get(t[1])
            if st is not None and st.kind == "insert" and self.site_scoped(t[1]):
                return "rowid of a row this app just inserted"
            return None
        if k == "sub" and is_const(t[2]):
            base = t[1]
            if base[0] == "row":
                if self.site_scoped(base[1]):
                    return "column of a row selected by an app-scoped query"
                return None
            if base[0] == "elem":
                coll = strip_wrappers(base[1])
                if coll[0] == "rows":
                    if self.site_scoped(coll[1]):
                        return "column of a row of an app-scoped query"
                    return None
        if k == "elem":
            coll = strip_wrappers(t[1])
            if coll[0] == "coll":
                adds = self.interp.coll_adds.get(coll[1], [])
                if adds and all(self.scoped_value(a["elem"], [], depth + 1) for a in adds):
                    return "element of a set filled only with app-scoped keys"
            if coll[0] == "comp":
                return self.scoped_value(coll[2], before, depth + 1)
            return None
        # a raw value validated against this app's mailboxes rows on the path
        pt = plain(t)
        for x in before:
            if x["stmt"].table != "mailboxes" or x["db"] != "chan":
                continue
            if x["stmt"].kind == "insert":
                s = x["src"]["set"]
                if "app_id" in s and is_app_id(s["app_id"]) and plain(s.get("id")) == pt:
                    return "mailbox id whose row was inserted for this app on the path"
            if x["stmt"].kind == "select":
                eq = x["src"]["where_eq"]
                if eq and "app_id" in eq and is_app_id(eq["app_id"]) and \
                        plain(eq.get("id")) == pt:
                    return "mailbox id looked up for this app on the path"
        return None

    # -- statements -----------------------------------------------------------------
    def site_scoped(self, site):
        if site in self._site_scoped:
            return self._site_scoped[site]
        self._site_scoped[site] = False  # recursion guard
        ok = True
        for (p, e, before) in self.samples.get(site, []):
            if not self.statement_scope(e, before)[0]:
                ok = False
        if site not in self.samples:
            ok = False
        self._site_scoped[site] = ok
        return ok

    def statement_scope(self, e, before):
        """-> (ok, text).  Every disjunct of the WHERE (or the VALUES of an
        INSERT) must contain a conjunct bound to a scoped value."""
        st = e["stmt"]
        src = e["src"]
        if st.kind == "insert":
            vals = src["set"]
            if "app_id" in vals:
                if is_app_id(vals["app_id"]):
                    return True, "app_id = own app id"
                return False, "app_id is bound to %s, not to the namespace's own app id" \
                    % show(vals["app_id"])[:60]
            for c, v in vals.items():
                r = self.scoped_value(v, before)
                if r and c not in ("side", "phase", "body", "msg_id", "mood"):
                    return True, "%s = %s" % (c, r)
            return False, "no inserted column carries an app-scoped key"
        if not src["dnf"] or src["dnf"] == [[]]:
            return False, "no WHERE clause"
        hows = []
        for conj in src["dnf"]:
            how = None
            for (col, op, term) in conj:
                if op == "=":
                    if col == "app_id":
                        if is_app_id(term):
                            how = "app_id = own app id"
                            break
                        continue
                    r = self.scoped_value(term, before)
                    if r:
                        how = "%s = %s" % (col, r)
                        break
                elif op == "in" and term[0] == "subselect" and term[3] is not None:
                    for (c2, t2) in term[3]:
                        if (c2 == "app_id" and is_app_id(t2)) or \
                                (c2 != "app_id" and self.scoped_value(t2, before)):
                            how = "%s IN (app-scoped sub-select)" % col
                            break
                    if how:
                        break
            if how is None:
                cols = ",".join("%s%s%s" % (c, o if o in ("=", "<", ">", "!=") else " " + o + " ",
                                            show(t)[:40]) for (c, o, t) in conj)
                return False, "a disjunct is keyed only by values that are not " \
                    "confined to the caller's app (%s)" % cols
            hows.append(how)
        return True, "; ".join(sorted(set(hows)))


_cache = {}


def get(model):
    if id(model) not in _cache:
        _cache[id(model)] = Scope(model)
    return _cache[id(model)]
