"""E4 -- registry / handle lifetime lint (DESIGN section 3.4)."""
import ast

from .engine import flat_events
from .events import all_events, handler_of
from .e3 import pc_truth
from .repo import AnalysisError
from .terms import mentions, show, is_const, NONE


class Finding(object):
    def __init__(self, kind, construct, site, ok, detail, defect=None):
        self.kind = kind
        self.construct = construct
        self.site = site
        self.ok = ok
        self.detail = detail
        self.defect = defect


def _counter_step(x):
    """+c / -c when the setattr event x is  self.a = self.a +/- c, else None"""
    v = x["value"]
    if v[0] == "binop" and v[1] in ("+", "-") and v[3][0] == "const" and \
            isinstance(v[3][1], (int, float)) and not isinstance(v[3][1], bool) and \
            v[2][0] == "attr" and v[2][2] == x["attr"]:
        return v[3][1] if v[1] == "+" else -v[3][1]
    return None


def _site(e):
    return "%s:%d" % (e["site"][0], e["site"][1])


class E4(object):
    def __init__(self, model):
        self.model = model
        self.repo = model.repo
        self.interp = model.interp
        self.findings = []
        self._seen = {}
        self.registries = dict(self.interp.registries)
        if len(self.registries) < 2:
            raise AnalysisError("E4: expected the app and mailbox registries "
                                "(get-or-create pattern), found %s" %
                                sorted(self.registries))
        self.value_classes = dict((r["value_cls"], key)
                                  for key, r in self.registries.items())
        self._entry_of = {}
        self.bookkeeping = set()   # (class, attr): holder bookkeeping accepted by U(a)
        self.retentions = []   # (cls, attr, value_cls, event, path)
        self.evictions = []    # (owner_cls, attr, event, path)
        self._construct_once()
        self._owner_only()
        self._collect()
        self._rule_u()

    def add(self, kind, construct, site, ok, detail, defect=None):
        key = (kind, construct)
        if key in self._seen:
            f = self._seen[key]
            if f.ok and not ok:
                f.ok, f.detail, f.site = False, detail, site
            return f
        f = Finding(kind, construct, site, ok, detail, defect)
        self._seen[key] = f
        self.findings.append(f)
        return f

    # ------------------------------------------------------------------
    def _construct_once(self):
        repo = self.repo
        for (owner, attr), r in self.registries.items():
            vcls = r["value_cls"]
            sites = []
            for f in repo.all_functions():
                for node in ast.walk(f.node):
                    if isinstance(node, ast.Call) and isinstance(node.func, ast.Name) \
                            and node.func.id == vcls:
                        sites.append((f, node))
            mod = repo.modules[r["func"].module]
            for (f, node) in sites:
                ok = node is r["construct"]
                self.add("construct_once", "%s constructed in %s" % (vcls, f.qualname),
                         "%s:%d" % (mod.path if ok else repo.modules[f.module].path,
                                    node.lineno), ok,
                         "inside the get-or-create of %s.%s" % (owner, attr) if ok else
                         "%s objects must only be created by the get-or-create of "
                         "%s.%s; a second construct site gives two live objects for "
                         "one key" % (vcls, owner, attr))
            if r.get("factory"):
                fac, fcall = r["factory"]
                for f in repo.all_functions():
                    for node in ast.walk(f.node):
                        if isinstance(node, ast.Call) and \
                                isinstance(node.func, ast.Attribute) and \
                                node.func.attr == fac.name and node is not fcall:
                            self.add("construct_once", "%s constructed through %s in %s" % (
                                vcls, fac.name, f.qualname),
                                "%s:%d" % (repo.modules[f.module].path, node.lineno), False,
                                "%s objects must only be created by the get-or-create of "
                                "%s.%s; the factory is also called here, which gives an "
                                "object the registry does not know" % (vcls, owner, attr))
            # key == id argument
            init = repo.method(vcls, "__init__")
            key_expr = r["key_expr"]
            ok = False
            why = "registry key is not a plain name"
            if isinstance(key_expr, ast.Name) and init is not None:
                call = r["construct"]
                # which __init__ parameter receives the key name?
                pidx = None
                for i, a in enumerate(call.args):
                    if isinstance(a, ast.Name) and a.id == key_expr.id:
                        pidx = i
                for kw in call.keywords:
                    if isinstance(kw.value, ast.Name) and kw.value.id == key_expr.id:
                        pidx = init.params.index(kw.arg) - 1 if kw.arg in init.params else None
                if pidx is None:
                    why = "the registry key `%s` is not passed to %s()" % (key_expr.id, vcls)
                else:
                    pname = init.params[pidx + 1]
                    stored = [n.targets[0].attr for n in ast.walk(init.node)
                              if isinstance(n, ast.Assign) and len(n.targets) == 1 and
                              isinstance(n.targets[0], ast.Attribute) and
                              isinstance(n.value, ast.Name) and n.value.id == pname]
                    ok = bool(stored)
                    why = "key `%s` is the object's %s" % (key_expr.id, stored[0]) if ok else \
                        "parameter %s is not stored as the object's id" % pname
                    r["id_attr"] = stored[0] if stored else None
            self.add("registry_key", "%s.%s key is the object's id" % (owner, attr),
                     "%s:%d" % (mod.path, r["construct"].lineno), ok, why)
            # get-or-create guard: the store happens only when the key is absent
            guarded = self._store_guarded(r) or self._store_guarded_events(owner, attr)
            self.add("get_or_create", "%s.%s store is guarded by absence test" % (owner, attr),
                     "%s:%d" % (mod.path, r["construct"].lineno), guarded,
                     "" if guarded else "the registry slot is overwritten although an "
                     "object for the key may exist: holders of the old object are split "
                     "from new ones")

    def _store_guarded(self, r):
        """the `self.R[k] = T(...)` statement lies in the body of
        `if k not in self.R` / `if not k in self.R`"""
        fnode = r["func"].node
        target_call = r["construct"]

        def contains(node):
            return any(n is target_call for n in ast.walk(node))

        for node in ast.walk(fnode):
            if isinstance(node, ast.If) and any(contains(s) for s in node.body):
                t = node.test
                if isinstance(t, ast.UnaryOp) and isinstance(t.op, ast.Not):
                    t2 = t.operand
                    if isinstance(t2, ast.Compare) and len(t2.ops) == 1 and \
                            isinstance(t2.ops[0], ast.In) and self._is_reg(t2.comparators[0], r):
                        return True
                if isinstance(t, ast.Compare) and len(t.ops) == 1 and \
                        isinstance(t.ops[0], ast.NotIn) and self._is_reg(t.comparators[0], r):
                    return True
        return False

    def _store_guarded_events(self, owner, attr):
        """event-based form: every reg_set of a new object on the registry
        happens on a path where `key in registry` was decided false"""
        from .e3 import pc_truth
        from .events import each_event
        n = 0
        for p, e, loops in each_event(self.model, self.model.runtime_entries(), ("reg_set",)):
            reg = e["reg"]
            if reg[0] != "reg" or (reg[1][1], reg[2]) != (owner, attr):
                continue
            if e["value"][0] != "obj":
                continue
            n += 1
            if pc_truth(e["pc"]).get(("cmp", "in", e["key"], reg)) is not False:
                return False
        return n > 0

    def _is_reg(self, node, r):
        return isinstance(node, ast.Attribute) and node.attr == r["attr"] and \
            isinstance(node.value, ast.Name) and node.value.id == "self"

    # ------------------------------------------------------------------
    MUTATORS = ("pop", "popitem", "clear", "update", "setdefault", "remove",
                "discard", "add", "append", "__setitem__", "__delitem__")

    def _owner_only(self):
        repo = self.repo
        regattrs = {}
        for (owner, attr) in list(self.registries) + [self.model.names.listeners]:
            regattrs[attr] = owner
        for mod in repo.modules.values():
            for cname, cd in list(mod.classes.items()) + [(None, None)]:
                funcs = cd["methods"].values() if cd else mod.functions.values()
                for f in funcs:
                    for node in ast.walk(f.node):
                        hit = None
                        if isinstance(node, ast.Attribute) and node.attr in regattrs:
                            par = getattr(node, "_parent", None)
                        tgt = None
                        if isinstance(node, (ast.Assign, ast.AugAssign, ast.Delete)):
                            targets = node.targets if not isinstance(node, ast.AugAssign) \
                                else [node.target]
                            for t in targets:
                                base = t.value if isinstance(t, ast.Subscript) else t
                                if isinstance(base, ast.Attribute) and base.attr in regattrs:
                                    tgt = (base, "store" if not isinstance(node, ast.Delete) else "del")
                        if isinstance(node, ast.Call) and isinstance(node.func, ast.Attribute) \
                                and node.func.attr in self.MUTATORS and \
                                isinstance(node.func.value, ast.Attribute) and \
                                node.func.value.attr in regattrs:
                            tgt = (node.func.value, node.func.attr)
                        if tgt is None:
                            continue
                        base, how = tgt
                        owner = regattrs[base.attr]
                        own_self = isinstance(base.value, ast.Name) and base.value.id == "self" \
                            and cname == owner
                        self.add("owner_only", "%s: %s on %s.%s" % (
                            f.qualname, how, owner, base.attr),
                            "%s:%d" % (mod.path, node.lineno), own_self,
                            "" if own_self else "registry %s.%s is mutated outside its "
                            "owning class (through %s)" % (owner, base.attr,
                                                           ast.unparse(base)))

    # ------------------------------------------------------------------
    def _collect(self):
        model = self.model
        from .events import each_event
        for en in model.runtime_entries():
            if en == "timer":
                # the sweep: each event once (its loop alternatives are shared
                # by all continuations)
                triples = list(each_event(model, [en], ("setattr", "reg_del")))
            else:
                triples = [(p, e, loops) for p in model.paths(en)
                           for e, loops in all_events(p, ("setattr", "reg_del"))]
            if True:
                for (p, e, loops) in triples:
                    if e["k"] == "setattr":
                        obj, v = e["obj"], e["value"]
                        if obj[0] == "obj" and v[0] == "obj" and v[1] in self.value_classes \
                                and obj[1] != v[1] and obj[1] not in (
                                    self.value_classes[v[1]][0],) and \
                                not e["func"].endswith("__init__"):
                            self.retentions.append((obj[1], e["attr"], v[1], e, p))
                        # registry attribute rebound outside __init__
                        if obj[0] == "obj" and (obj[1], e["attr"]) in self.registries and \
                                not e["func"].endswith("__init__"):
                            self.evictions.append((obj[1], e["attr"], e, p, loops))
                    elif e["k"] == "reg_del":
                        reg = e["reg"]
                        if reg[0] == "reg" and (reg[1][1], reg[2]) in self.registries:
                            self.evictions.append((reg[1][1], reg[2], e, p, loops))

    def retention_fields(self, value_cls):
        out = {}
        for (cls, attr, vcls, e, p) in self.retentions:
            if vcls == value_cls:
                out.setdefault((cls, attr), []).append((e, p))
        return out

    # ------------------------------------------------------------------
    def _created_here(self, e):
        """the evicted object was created by the get-or-create on this very
        path (absence test true): nothing else can hold it yet"""
        from .e3 import pc_truth
        if e["k"] != "reg_del" or e.get("key") is None:
            return False
        t = pc_truth(e["pc"]).get(("cmp", "in", e["key"], e["reg"]))
        return t is False

    def _rule_u(self):
        seen_ev = set()
        # a registry whose objects are never dropped is trivially holder-safe
        # (positive control: its get-or-create store must have been seen)
        evicted = set((owner, attr) for (owner, attr, e, p, loops) in self.evictions)
        for (owner, attr), r in sorted(self.registries.items()):
            if (owner, attr) in evicted:
                continue
            if not self._store_guarded_events(owner, attr):
                continue
            self.add("rule_u", "eviction %s.%s: none" % (owner, attr), "", True,
                     "objects are never dropped from %s.%s: every handle stays the "
                     "registered object" % (owner, attr))
        for (owner, attr, e, p, loops) in self.evictions:
            if self._created_here(e):
                continue
            # one verdict per eviction site, call chain, guard set and
            # "holders were notified first" (the same statement reached through
            # another caller, or on a path that skipped the notification, is a
            # different eviction)
            key = (e["site"], e["stack"], tuple(sorted(self._guard_attrs(
                e, self.registries[(owner, attr)]["value_cls"], p))),
                self._stop_callbacks_before(e, p) is None)
            if key in seen_ev:
                continue
            seen_ev.add(key)
            vcls = self.registries[(owner, attr)]["value_cls"]
            fields = self.retention_fields(vcls)
            if not fields:
                self.add("rule_u", "eviction %s.%s at %s: no holder fields" % (
                    owner, attr, e["func"]), _site(e), True, "no other class retains "
                    "%s objects" % vcls)
                continue
            for (hcls, hattr), sites in sorted(fields.items()):
                self._rule_u_pair(owner, attr, vcls, e, p, loops, hcls, hattr, sites)

    def _evicted_obj(self, e, p):
        """the object removed from the registry at eviction event e"""
        if e["k"] == "reg_del" and e.get("key") is not None:
            return ("key", e["key"])
        return None

    def _rule_u_pair(self, owner, attr, vcls, e, p, loops, hcls, hattr, sites):
        construct = "eviction %s.%s in %s vs holder %s.%s" % (owner, attr, e["func"],
                                                                hcls, hattr)
        self._entry_of[construct] = p.entry
        self._entry_of[construct + " [release on disconnect]"] = p.entry
        self._entry_of[construct + " [registration is immediate]"] = p.entry
        # (c) transient retention: every retention site's handler clears the
        # field again on every normal path
        transient = True
        for (re_, rp) in sites:
            if rp.outcome.kind != "return":
                continue
            later_clear = False
            seen_ret = False
            for x, _ in all_events(rp):
                if x is re_:
                    seen_ret = True
                elif seen_ret and x["k"] == "setattr" and x["obj"] == re_["obj"] and \
                        x["attr"] == hattr and x["value"] == NONE:
                    later_clear = True
            if not later_clear:
                transient = False
        if transient:
            self.add("rule_u", construct, _site(e), True,
                     "(c) the retention is transient: cleared again before the handler returns")
            return
        # (a) guarded eviction: guard reads attributes of the evicted object and
        # every retention site writes one of them
        guard_attrs = self._guard_attrs(e, vcls, p)
        if guard_attrs:
            missing = []
            late = []
            steps = {}
            self._steps = steps
            for (re_, rp) in sites:
                if self._is_transient_site(re_, rp, hattr):
                    continue
                wrote = False
                seen_ret = False
                between = []
                for x, _ in all_events(rp):
                    if x is re_:
                        seen_ret = True
                        continue
                    hit = False
                    if x["k"] in ("reg_set", "reg_del") and x["reg"][0] == "reg" and \
                            x["reg"][1] == re_["value"] and x["reg"][2] in guard_attrs:
                        hit = True
                    if x["k"] == "setattr" and x["obj"] == re_["value"] and \
                            x["attr"] in guard_attrs:
                        # the update must make the guard hold: a counter goes up
                        # by a positive amount, a flag / field becomes truthy
                        step = _counter_step(x)
                        if step is not None:
                            hit = step > 0
                            if hit:
                                steps.setdefault(x["attr"], set()).add(step)
                        else:
                            hit = x["value"] != ("const", None) and \
                                x["value"] != ("const", False) and x["value"] != ("const", 0)
                    if hit:
                        wrote = True
                        break
                    if seen_ret and (x["k"] in ("sql", "commit", "index", "script") or
                                     (x["k"] == "ext" and not x["name"].endswith(
                                         ("log.msg", "log.err")) and not x.get("internal"))):
                        between.append(x)
                if not wrote:
                    missing.append(re_)
                elif between:
                    late.append((re_, between[0]))
            ok = not missing
            self.add("rule_u", construct, _site(e), ok,
                     "(a) the eviction is guarded by %s of the evicted object and every "
                     "retention site updates it" % sorted(guard_attrs) if ok else
                     "the eviction is guarded only by %s of the evicted %s, but the "
                     "retention at %s (%s) does not register there: a connection keeps "
                     "using an object that the registry has dropped, and the next "
                     "get-or-create builds a second object for the same key" % (
                         sorted(guard_attrs), vcls, _site(missing[0]), missing[0]["func"]),
                     defect="D5" if not ok else None)
            if ok and late:
                r0, b0 = late[0]
                self.add("rule_u", construct + " [registration is immediate]", _site(b0), False,
                         "between keeping the %s (%s) and registering in %s the handler does "
                         "%s at %s: if that fails the connection holds an unregistered object, "
                         "and its disconnect un-registers a registration that never happened" % (
                             vcls, _site(r0), sorted(guard_attrs),
                             b0["k"] if b0["k"] != "ext" else b0["name"], _site(b0)))
            elif ok:
                self.add("rule_u", construct + " [registration is immediate]", "", True,
                         "nothing that can fail lies between retention and registration")
            if ok:
                if self._check_release(vcls, hcls, hattr, guard_attrs, construct):
                    for a in guard_attrs:
                        if (self.value_classes.get(vcls), a) and \
                                (vcls, a) not in self.registries:
                            self.bookkeeping.add((vcls, a))
            return
        # (b) eviction preceded by notifying every registered holder, whose
        # callback clears the retaining field
        notified = self._stop_callbacks_before(e, p)
        if notified is None:
            self.add("rule_u", construct, _site(e), False,
                     "the eviction is neither guarded by state of the evicted object "
                     "nor preceded by notifying its holders")
            return
        clears = False
        for x in notified:
            if x["k"] == "setattr" and x["obj"][0] == "obj" and x["obj"][1] == hcls and \
                    x["attr"] == hattr and x["value"] == NONE:
                clears = True
        # every non-transient retention site registers the callback
        unregistered = []
        for (re_, rp) in sites:
            if self._is_transient_site(re_, rp, hattr):
                continue
            reg_ok = False
            for x, _ in all_events(rp):
                if x["k"] == "reg_set" and x["reg"][0] == "reg" and \
                        x["reg"][1] == re_["value"]:
                    reg_ok = True
            if not reg_ok:
                unregistered.append(re_)
        ok = clears and not unregistered
        if not clears:
            detail = ("holders are notified through the stop callback before the %s is "
                      "dropped, but the callback registered by %s does not clear %s.%s: the "
                      "connection keeps a handle to a deleted %s and can still write "
                      "through it" % (vcls, sites[0][0]["func"], hcls, hattr, vcls))
        elif unregistered:
            detail = "retention at %s does not register a stop callback" % _site(unregistered[0])
        else:
            detail = "(b) holders are notified and their callback clears %s.%s" % (hcls, hattr)
        self.add("rule_u", construct, _site(e), ok, detail, defect=None if ok else "D4")

    def _is_transient_site(self, re_, rp, hattr):
        seen_ret = False
        for x, _ in all_events(rp):
            if x is re_:
                seen_ret = True
            elif seen_ret and x["k"] == "setattr" and x["obj"] == re_["obj"] and \
                    x["attr"] == hattr and x["value"] == NONE:
                return True
        return rp.outcome.kind != "return"

    def _guard_attrs(self, e, vcls, p=None):
        """attributes of objects of class vcls mentioned by the path conditions
        in effect at the eviction"""
        attrs = set()
        # only the conditions decided since the function that performs the
        # eviction was entered control it (earlier conditions of the path do
        # not); conditions decided inside helpers / properties it calls count
        lo = hi = None
        start = None
        if p is not None:
            for x, _ in all_events(p):
                if x is e:
                    break
                if x["k"] == "call" and x["callee"] == e["func"]:
                    start = len(x["pc"])
        for f in self.repo.all_functions():
            if f.qualname == e["func"]:
                lo, hi = f.node.lineno, getattr(f.node, "end_lineno", f.node.lineno)
                fpath = self.repo.modules[f.module].path
        for idx, (t, b, site) in enumerate(e["pc"]):
            if start is not None:
                if idx < start:
                    continue
            elif lo is not None and not (site[0] == fpath and lo <= site[1] <= hi):
                continue
            terms = [t]
            if any(x[0] == "merge" for x in _walk(t)):
                # the tested value was computed by an effect-free callee (a
                # helper or a @property): what it read is in its alternatives
                from .events import expand_merges
                for (apc, aval) in expand_merges(self.model.interp, t, ()):
                    terms.append(aval)
                    terms.extend(c[0] for c in apc)
            for tt in terms:
                for x in _walk(tt):
                    if x[0] == "reg" and x[1][0] == "obj" and x[1][1] == vcls:
                        attrs.add(x[2])
                    if x[0] == "attr" and x[1][0] == "obj" and x[1][1] == vcls:
                        attrs.add(x[2])
        # the object's own id (the registry key) is not state a holder can write
        for r in self.registries.values():
            if r["value_cls"] == vcls and r.get("id_attr"):
                attrs.discard(r["id_attr"])
        return attrs

    def _stop_callbacks_before(self, e, p):
        """events of the stop-callback bodies invoked (in a loop over the
        listeners) before eviction e on path p, or None"""
        before = []
        found = None
        for x, loops in all_events(p):
            if x is e:
                break
            if x["k"] == "callback" and x["role"] != "send_f" and loops:
                found = x
                before = []
            elif found is not None:
                before.append(x)
        if found is None:
            return None
        return before

    def _check_release(self, vcls, hcls, hattr, guard_attrs, construct):
        """inverse registration on disconnect"""
        ok = False
        bad_step = None
        for p in self.model.paths("ws:onClose"):
            for x, _ in all_events(p):
                if x["k"] in ("reg_set", "reg_del") and x["reg"][0] == "reg" and \
                        x["reg"][1][0] == "obj" and x["reg"][1][1] == vcls and \
                        x["reg"][2] in guard_attrs:
                    ok = True
                if x["k"] == "setattr" and x["obj"][0] == "obj" and x["obj"][1] == vcls \
                        and x["attr"] in guard_attrs:
                    step = _counter_step(x)
                    want = getattr(self, "_steps", {}).get(x["attr"])
                    if step is not None and want:
                        # a counter: the disconnect takes back exactly what the
                        # retention added (otherwise it is not zero when no
                        # connection is left)
                        if -step in want and len(want) == 1:
                            ok = True
                        else:
                            bad_step = (step, sorted(want))
                    else:
                        ok = True
        detail = "" if ok else ("the registration made at the retention site is never "
                                "undone when the connection closes: the object can never "
                                "be evicted")
        if not ok and bad_step is not None:
            detail = ("the retention adds %s to the counter but the disconnect changes it by "
                      "%s: it is not zero when no connection is left" % (bad_step[1], bad_step[0]))
        self.add("rule_u", construct + " [release on disconnect]", "", ok, detail)
        return ok

    def entry_of(self, f):
        """entry point on whose path the eviction of a rule_u finding lies"""
        return self._entry_of.get(f.construct, "")

    def failed(self, kinds=None):
        return [f for f in self.findings if not f.ok and (kinds is None or f.kind in kinds)]


def _walk(t):
    from .terms import walk
    return walk(t)


_cache = {}


def get(model):
    if id(model) not in _cache:
        _cache[id(model)] = E4(model)
    return _cache[id(model)]
