"""E5 -- configuration non-interference by trace-set projection.

For a configuration source c, the paths (and, recursively, the loop
alternatives) on which c was decided true and those on which it was decided
false are projected onto their channel-visible events; the two projected sets
must be equal.  Differences in control flow (an event only on one side) and in
data flow (a channel-visible term that differs, e.g. mentions c) both show up
as set differences.
"""
from .engine import flat_events
from .events import frame_type, frame_fields
from .e3 import pc_truth
from .terms import show, mentions

SOURCES = ("allow_list", "usage_db", "blur_usage", "log_requests", "log_file")


def polarity(pc, source):
    t = pc_truth(pc).get(("cfg", source))
    return t


class E5(object):
    def __init__(self, model, allowed_frame_fields=None):
        self.model = model
        # (frame type, field) pairs whose content may depend on the source
        self.allowed = allowed_frame_fields or {"allow_list": {("nameplates", "nameplates")}}
        self.violations = []   # (source, where, detail, sample)
        self.groups_compared = 0
        self._done_loops = set()
        self._vis = {}

    # -- projection ---------------------------------------------------------------
    def project(self, events, source):
        out = []
        for e in events:
            k = e["k"]
            if k == "sql":
                if e["db"] != "chan" or not e["stmt"].mutating:
                    continue
                out.append(("sql", e["site"][:2], e["stmt"].normalized(), e["params"]))
            elif k == "commit":
                if e["db"] == "chan" and e.get("was_dirty"):
                    out.append(("commit",))
            elif k == "script":
                out.append(("script", e["site"][:2]))
            elif k == "send":
                ft = frame_type(e)
                ff = frame_fields(e) or {}
                items = []
                for key in sorted(ff):
                    if key == "server_tx":
                        continue
                    if (ft, key) in self.allowed.get(source, ()):
                        continue
                    items.append((key, ff[key]))
                out.append(("send", ft, tuple(items)))
            elif k == "raise":
                out.append(("raise", e["cls"], e["site"][:2]))
            elif k == "catch":
                out.append(("catch", e["cls"]))
            elif k in ("reg_set", "reg_del"):
                out.append((k, e["site"][:2]))
            elif k == "setattr":
                if e["func"].endswith(".__init__"):
                    continue
                out.append(("set", e["obj"][1] if e["obj"][0] == "obj" else "?",
                            e["attr"], e["value"]))
            elif k == "callback":
                out.append(("cb", e["role"]))
            elif k == "loop":
                if self._loop_visible(e, source):
                    out.append(("loop", e["site"][:2]))
        return tuple(out)

    def _loop_visible(self, loop_ev, source):
        key = (id(loop_ev), source)
        if key not in self._vis:
            self._vis[key] = any(self.project(alt["events"], source)
                                 for alt in loop_ev["alts"])
        return self._vis[key]

    # -- comparison -----------------------------------------------------------------
    def compare_paths(self, entry, source):
        items = []
        for p in self.model.paths(entry):
            items.append((p.pc, p.events, (p.outcome.kind, p.outcome.cls)))
        self._compare(items, source, entry)
        for p in self.model.paths(entry):
            self._loops(p.events, source, entry)

    def _loops(self, events, source, where):
        for e in events:
            if e["k"] != "loop" or (id(e), source) in self._done_loops:
                continue
            self._done_loops.add((id(e), source))
            items = []
            for alt in e["alts"]:
                pc = tuple(alt["pc"])
                first = None
                for x in alt["events"]:
                    first = x
                    break
                if first is not None:
                    pc = tuple(first["pc"]) + pc
                else:
                    pc = tuple(e["pc"]) + pc
                items.append((pc, alt["events"], (alt["out"], None)))
            self._compare(items, source, "%s loop at %s:%d" % (where, e["site"][0], e["site"][1]))
            for alt in e["alts"]:
                self._loops(alt["events"], source, where)

    def _compare(self, items, source, where):
        T, F = {}, {}
        for (pc, events, outcome) in items:
            pol = polarity(pc, source)
            if pol is None:
                continue
            proj = (self.project(events, source), outcome)
            (T if pol else F).setdefault(proj, (pc, events))
        if not T or not F:
            return
        self.groups_compared += 1
        if set(T) == set(F):
            return
        only_t = [x for x in T if x not in F]
        only_f = [x for x in F if x not in T]
        sample = only_t[0] if only_t else only_f[0]
        other = F if only_t else T
        detail = self._describe(sample, other, source, bool(only_t))
        self.violations.append((source, where, detail, sample))

    def _describe(self, sample, other, source, when_true):
        proj, outcome = sample
        # find the closest trace on the other side and the first difference
        best = None
        for (oproj, ooutcome) in other:
            n = 0
            while n < len(proj) and n < len(oproj) and proj[n] == oproj[n]:
                n += 1
            if best is None or n > best[0]:
                best = (n, oproj, ooutcome)
        n, oproj, ooutcome = best
        a = proj[n] if n < len(proj) else ("end", outcome)
        b = oproj[n] if n < len(oproj) else ("end", ooutcome)
        return "with %s %s the channel-visible trace continues with %s, otherwise with %s" % (
            source, "set" if when_true else "unset", _short(a), _short(b))


def _short(item):
    k = item[0]
    if k == "sql":
        return "%s at line %d (%s)" % (item[2], item[1][1],
                                      ", ".join(show(x)[:30] for x in item[3]))
    if k == "send":
        return "frame %s {%s}" % (item[1], ", ".join(
            "%s: %s" % (a, show(b)[:30]) for a, b in item[2]))
    if k == "set":
        return "%s.%s = %s" % (item[1], item[2], show(item[3])[:40])
    if k == "end":
        return "the end of the handler (%s)" % (item[1],)
    return " ".join(str(x) for x in item[:3])
