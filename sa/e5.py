"""E5 -- configuration non-interference by trace-set projection.

For a configuration source c, the paths (and, recursively, the loop
alternatives) on which c was decided true and those on which it was decided
false are projected onto their channel-visible events; the two projected sets
must be equal.  Differences in control flow (an event only on one side) and in
data flow (a channel-visible term that differs, e.g. mentions c) both show up
as set differences.
"""
from .engine import flat_events
from .events import frame_type, frame_fields
from .e3 import pc_truth
from .terms import show, mentions, walk

SOURCES = ("allow_list", "usage_db", "blur_usage", "log_requests", "log_file")


def polarity(pc, source):
    if isinstance(source, tuple) and source and source[0] == "term":
        # an arbitrary decided term as the source of the comparison
        return pc_truth(pc).get(source[1])
    t = pc_truth(pc).get(("cfg", source))
    return t


class E5(object):
    def __init__(self, model, allowed_frame_fields=None):
        self.model = model
        # (frame type, field) pairs whose content may depend on the source
        self.allowed = allowed_frame_fields or {"allow_list": {("nameplates", "nameplates")}}
        self.violations = []   # (source, where, detail, sample)
        self.groups_compared = 0
        self._done_loops = set()
        self._vis = {}

    # -- projection ---------------------------------------------------------------
    def project(self, events, source):
        out = []
        for e in events:
            k = e["k"]
            if k == "sql":
                if e["db"] != "chan" or not e["stmt"].mutating:
                    continue
                out.append(("sql", e["site"][:2], e["stmt"].normalized(), e["params"]))
            elif k == "commit":
                if e["db"] == "chan" and e.get("was_dirty"):
                    out.append(("commit",))
            elif k == "script":
                out.append(("script", e["site"][:2]))
            elif k == "send":
                ft = frame_type(e)
                ff = frame_fields(e) or {}
                items = []
                for key in sorted(ff):
                    if key == "server_tx":
                        continue
                    if (ft, key) in self.allowed.get(source, ()):
                        continue
                    items.append((key, ff[key]))
                out.append(("send", ft, tuple(items)))
            elif k == "raise":
                out.append(("raise", e["cls"], e["site"][:2]))
            elif k == "catch":
                out.append(("catch", e["cls"]))
            elif k in ("reg_set", "reg_del"):
                r = e.get("reg")
                if isinstance(r, tuple) and len(r) >= 3 and r[0] in ("reg", "attr") and \
                        isinstance(r[1], tuple) and r[1] and r[1][0] == "obj":
                    # a store into an object's container; a local list / dict is
                    # not visible to anybody
                    out.append((k, e["site"][:2]))
            elif k == "setattr":
                if e["func"].endswith(".__init__"):
                    continue
                out.append(("set", e["obj"][1] if e["obj"][0] == "obj" else "?",
                            e["attr"], e["value"]))
            elif k == "callback":
                out.append(("cb", e["role"]))
            elif k == "loop":
                if self._loop_visible(e, source):
                    out.append(("loop", e["site"][:2]))
        return tuple(out)

    def _loop_visible(self, loop_ev, source):
        key = (id(loop_ev), source)
        if key not in self._vis:
            self._vis[key] = any(self.project(alt["events"], source)
                                 for alt in loop_ev["alts"])
        return self._vis[key]

    # -- comparison -----------------------------------------------------------------
    def compare_paths(self, entry, source):
        items = []
        for p in self.model.paths(entry):
            items.append((p.pc, p.events, (p.outcome.kind, p.outcome.cls)))
        self._compare(items, source, entry)
        for p in self.model.paths(entry):
            self._loops(p.events, source, entry)

    def _loops(self, events, source, where):
        for e in events:
            if e["k"] != "loop" or (id(e), source) in self._done_loops:
                continue
            self._done_loops.add((id(e), source))
            items = []
            for alt in e["alts"]:
                pc = tuple(alt["pc"])
                first = None
                for x in alt["events"]:
                    first = x
                    break
                if first is not None:
                    pc = tuple(first["pc"]) + pc
                else:
                    pc = tuple(e["pc"]) + pc
                items.append((pc, alt["events"], (alt["out"], None)))
            self._compare(items, source, "%s loop at %s:%d" % (where, e["site"][0], e["site"][1]))
            for alt in e["alts"]:
                self._loops(alt["events"], source, where)

    def _compare(self, items, source, where):
        T, F = {}, {}
        for (pc, events, outcome) in items:
            pol = polarity(pc, source)
            if pol is None:
                continue
            proj = (self.project(events, source), outcome)
            (T if pol else F).setdefault(proj, (pc, events))
        if not T or not F:
            return
        self.groups_compared += 1
        if set(T) == set(F):
            return
        only_t = [x for x in T if x not in F]
        only_f = [x for x in F if x not in T]
        sample = only_t[0] if only_t else only_f[0]
        other = F if only_t else T
        detail = self._describe(sample, other, source, bool(only_t))
        self.violations.append((source, where, detail, sample))

    def _describe(self, sample, other, source, when_true):
        proj, outcome = sample
        # find the closest trace on the other side and the first difference
        best = None
        for (oproj, ooutcome) in other:
            n = 0
            while n < len(proj) and n < len(oproj) and proj[n] == oproj[n]:
                n += 1
            if best is None or n > best[0]:
                best = (n, oproj, ooutcome)
        n, oproj, ooutcome = best
        a = proj[n] if n < len(proj) else ("end", outcome)
        b = oproj[n] if n < len(oproj) else ("end", ooutcome)
        return "with %s %s the channel-visible trace continues with %s, otherwise with %s" % (
            source, "set" if when_true else "unset", _short(a), _short(b))


def _short(item):
    k = item[0]
    if k == "sql":
        return "%s at line %d (%s)" % (item[2], item[1][1],
                                      ", ".join(show(x)[:30] for x in item[3]))
    if k == "send":
        return "frame %s {%s}" % (item[1], ", ".join(
            "%s: %s" % (a, show(b)[:30]) for a, b in item[2]))
    if k == "set":
        return "%s.%s = %s" % (item[1], item[2], show(item[3])[:40])
    if k == "end":
        return "the end of the handler (%s)" % (item[1],)
    return " ".join(str(x) for x in item[:3])


def _state_refs(t):
    """(class, attr) of every in-memory attribute / registry term inside t"""
    out = set()
    for x in walk(t):
        if isinstance(x, tuple) and len(x) >= 3 and x[0] in ("attr", "reg") and \
                isinstance(x[1], tuple) and x[1] and x[1][0] == "obj" and \
                isinstance(x[2], str):
            out.add((x[1][1], x[2]))
        elif isinstance(x, tuple) and len(x) >= 3 and x[0] == "obj" and \
                isinstance(x[2], tuple) and len(x[2]) >= 3 and x[2][0] == "held" and \
                isinstance(x[2][1], tuple) and x[2][1] and x[2][1][0] == "obj":
            # the object a holder attribute refers to: reading it reads the attribute
            out.add((x[2][1][1], x[2][2]))
    return out


def relevant_attrs(model, cls):
    """attributes of `cls` that some decision or some channel-visible datum of
    a runtime path depends on"""
    values, keys, _ = _state_index(model)
    return set(a for (c, a) in list(values) + list(keys) if c == cls)


def _state_index(model):
    """one pass over all runtime paths: which channel-visible data and which
    decisions mention which (class, attr)"""
    idx = getattr(model, "_state_index", None)
    if idx is not None:
        return idx
    values, keys = {}, {}
    nev = [0]
    seen_pc = set()
    seen_ev = set()

    def note_pc(pc, where):
        if id(pc) in seen_pc:
            return
        seen_pc.add(id(pc))
        for (t, b, site) in pc:
            refs = _state_refs(t)
            if not refs:
                continue
            for kt in pc_truth(((t, b, site),)):
                for r in _state_refs(kt):
                    keys.setdefault(r, {}).setdefault(kt, set()).add(where)

    def scan(events, where):
        for e, _ in flat_events(events):
            if id(e) in seen_ev:
                continue
            seen_ev.add(id(e))
            nev[0] += 1
            data = []
            if e["k"] == "sql" and (e["stmt"].mutating or e["db"] == "chan"):
                data = list(e.get("params") or ())
            elif e["k"] == "send":
                ff = frame_fields(e) or {}
                data = [v for k, v in ff.items() if k != "server_tx"]
                if not ff:
                    data = list(e.get("args") or ()) + [v for _, v in (e.get("kwargs") or ())]
            elif e["k"] in ("reg_set", "reg_del"):
                data = [e.get("key")] if e.get("key") is not None else []
            elif e["k"] == "loop":
                for alt in e["alts"]:
                    note_pc(tuple(alt["pc"]), where)
            for d in data:
                if isinstance(d, tuple):
                    for r in _state_refs(d):
                        values.setdefault(r, []).append(
                            (where, "%s at %s:%d carries the state (%s)" % (
                                e["k"], e["site"][0], e["site"][1], show(d)[:60])))
    for en in model.runtime_entries():
        for p in model.paths(en):
            scan(p.events, en)
            note_pc(p.pc, en)
    idx = (values, keys, nev[0])
    model._state_index = idx
    return idx


def state_influence(model, cls, attr):
    """Does in-memory state cls.attr influence anything channel-visible?
    Returns (violations, stats): value flow -- a channel-visible event whose
    data mentions the state; control flow -- a decision on the state after
    which the projected traces differ (the trace-set comparison of E5 with
    the decided term as the source)."""
    values, keys, nev = _state_index(model)
    viol = [("value", w, d) for (w, d) in values.get((cls, attr), ())]
    e5 = E5(model)
    mykeys = keys.get((cls, attr), {})
    for kt, where_set in mykeys.items():
        src = ("term", kt)
        e5.allowed[src] = ()
        n0 = len(e5.violations)
        for en in sorted(where_set):
            e5.compare_paths(en, src)
        for (source, where, detail, sample) in e5.violations[n0:]:
            viol.append(("control", where, "decided on %s: %s" % (show(kt)[:60],
                                                                   detail.replace(str(src), "it"))))
    return viol, {"events": nev, "decisions": len(mykeys), "groups": e5.groups_compared}


def result_sites_visible(model):
    """sites of SELECT statements whose result reaches something channel-visible:
    the data of a frame, of a mutating channel statement or of a registry key, or
    the path condition of such an event"""
    idx = getattr(model, "_result_sites", None)
    if idx is not None:
        return idx
    out = set()
    seen = set()

    def refs(t):
        for x in walk(t):
            if isinstance(x, tuple) and len(x) >= 2 and x[0] in ("row", "rows", "cursor") \
                    and isinstance(x[1], tuple):
                out.add(x[1][:2])
    for en in model.runtime_entries():
        for p in model.paths(en):
            for e, _ in flat_events(p.events):
                if id(e) in seen:
                    continue
                seen.add(id(e))
                data = None
                if e["k"] == "sql" and e["db"] == "chan" and e["stmt"].mutating:
                    data = list(e.get("params") or ())
                elif e["k"] == "send":
                    ff = frame_fields(e) or {}
                    data = [v for k, v in ff.items() if k != "server_tx"]
                elif e["k"] in ("reg_set", "reg_del"):
                    r = e.get("reg")
                    if isinstance(r, tuple) and len(r) >= 3 and r[0] in ("reg", "attr") and \
                            isinstance(r[1], tuple) and r[1] and r[1][0] == "obj":
                        # a store into an object's container (not a local list)
                        data = [e.get("key")] if e.get("key") is not None else []
                    else:
                        continue
                elif e["k"] == "raise":
                    data = []
                if data is None:
                    continue
                for d in data:
                    if isinstance(d, tuple):
                        refs(d)
                for (t, b, site) in e.get("pc", ()):
                    refs(t)
    model._result_sites = out
    return out
